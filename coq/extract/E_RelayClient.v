(* Entry points (val -> val) of the relay-client model (C11). *)
From Coq Require Import List NArith Bool String.
From SV Require Import lib.Val lib.Bytes model.RelayClient.
Import ListNotations.
Open Scope N_scope.

Definition dec_outcome0 (n : N) : outcome :=
  match n with
  | 0 => R2 | 1 => R3 | 2 => R4 | 3 => R5 | 4 => R500
  | 5 => Malformed | 6 => BadCode | 7 => Disconnect | _ => Stall
  end.
(* an outcome is given as its number (0..8) or, for a well-formed reply, as the reply code itself *)
Definition dec_outcome (n : N) : outcome := if 100 <=? n then outcome_of_code n else dec_outcome0 n.
(* stage kinds: 0 banner 1 ehlo 2 helo 3 starttls 4 ehlo2 5 helo2 6 auth 7 quit
                8 idle 9 mail 10 rcpt 11 data 12 eod 13 rset *)
Definition dec_stage (k m i : N) : stage :=
  match k with
  | 0 => Banner | 1 => Ehlo | 2 => Helo | 3 => StartTls | 4 => Ehlo2 | 5 => Helo2 | 6 => Auth | 7 => Quit
  | 8 => Idle m | 9 => Mail m | 10 => Rcpt m i | 11 => Data m | 12 => Eod m i | _ => Rset m
  end.
Definition enc_stage (s : stage) : val :=
  match s with
  | Banner => VL [VN 0; VN 0; VN 0] | Ehlo => VL [VN 1; VN 0; VN 0] | Helo => VL [VN 2; VN 0; VN 0]
  | StartTls => VL [VN 3; VN 0; VN 0] | Ehlo2 => VL [VN 4; VN 0; VN 0] | Helo2 => VL [VN 5; VN 0; VN 0]
  | Auth => VL [VN 6; VN 0; VN 0] | Quit => VL [VN 7; VN 0; VN 0]
  | Idle m => VL [VN 8; VN m; VN 0] | Mail m => VL [VN 9; VN m; VN 0] | Rcpt m i => VL [VN 10; VN m; VN i]
  | Data m => VL [VN 11; VN m; VN 0] | Eod m i => VL [VN 12; VN m; VN i] | Rset m => VL [VN 13; VN m; VN 0]
  end.
Definition default_outcome (s : stage) : outcome :=
  match s with
  | Idle _ => Stall
  | Data _ => R3
  | _ => R2
  end.
Fixpoint script_fun (l : list (stage * outcome)) (s : stage) : outcome :=
  match l with
  | [] => default_outcome s
  | (k, o) :: l' => if stage_eqb k s then o else script_fun l' s
  end.
Definition dec_entry (v : val) : stage * outcome :=
  match v with
  | VL [VN k; VN m; VN i; VN o] => (dec_stage k m i, dec_outcome o)
  | _ => (Quit, R2)
  end.
Definition dec_esc (n : N) : esc := match n with 0 => ENone | 2 => E2 | 4 => E4 | 5 => E5 | _ => ENone end.
Fixpoint esc_fun (l : list (stage * esc)) (s : stage) : esc :=
  match l with
  | [] => ENone
  | (k, e) :: l' => if stage_eqb k s then e else esc_fun l' s
  end.
Definition dec_esc_entry (v : val) : stage * esc :=
  match v with
  | VL [VN k; VN m; VN i; VN e] => (dec_stage k m i, dec_esc e)
  | _ => (Quit, ENone)
  end.
Definition dec_exts (v : val) : exts :=
  match v with
  | VL [a; b; c; d] => mkExts (get_bool a) (get_bool b) (get_bool c) (get_bool d)
  | _ => no_exts
  end.
Definition dec_msg (v : val) : message :=
  match v with
  | VL [so; VL rs; eb] =>
      mkMsg (get_bool so)
            (map (fun v => match v with VL [VN a; ok] => (a, get_bool ok) | _ => (0, true) end) rs)
            (get_bool eb)
  | _ => mkMsg true [] false
  end.
Definition dec_conn (n : N) : conn_outcome :=
  match n with 0 => ConnOk | 1 => ConnRefused | _ => ConnTimeout end.

Definition enc_cls (c : cls) : N := match c with Perm => 1 | Trans => 2 end.
Definition enc_rres (r : rres) : val := VN (match r with Delivered => 0 | Failed c => enc_cls c end).
Definition enc_mres (r : option mres) : val :=
  match r with
  | Some (MMap l) => VL [VN 0; VL (map (fun r => VN (match r with TDelivered => 0 | TFailed c => enc_cls c | TMissing => 3 end)) l)]
  | Some (MExc c) => VL [VN 1; VN (enc_cls c)]
  | Some MOther => VL [VN 2]
  | None => VL [VN 3]
  end.
Fixpoint seqN (k : nat) (from : N) : list N :=
  match k with O => [] | S k' => from :: seqN k' (from + 1) end.

(* [proto; [tls_immediately; tls_required; creds; reuse]; conn; [exts1; exts2]; msgs; script]
   -> [results per message; commands seen by the server] *)
Definition e_smtp (v : val) : val :=
  match v with
  | VL [VN proto; VL [ti; tr; cr; ru]; VN conn; VL [x1; x2]; VL msgs; VL entries; VL escs] =>
      let cfg := mkConfig (negb (proto =? 0)) (get_bool ti) (get_bool tr) (get_bool cr) (get_bool ru) (dec_conn conn) in
      let sc := mkScript (script_fun (map dec_entry entries)) (esc_fun (map dec_esc_entry escs)) (dec_exts x1) (dec_exts x2) in
      let ms := map dec_msg msgs in
      let s := run_client sc cfg ms in
      VL [VL (map (fun m => enc_mres (lookup_res (results s) m)) (seqN (List.length ms) 0));
          VL (map enc_stage (rev (sent s)))]
  | _ => verr
  end.

Definition dec_proc (v : val) : proc :=
  match v with
  | VL [VN st; VB so; VB se] => Exited st so se
  | _ => TimedOut
  end.
Definition dec_kind (n : N) : pipe_kind := match n with 0 => KPipe | 1 => KMaildrop | _ => KDovecot end.
(* [kind; per_recipient; procs] *)
Definition e_pipe (v : val) : val :=
  match v with
  | VL [VN k; pr; VL ps] =>
      match pipe_attempt (dec_kind k) (get_bool pr) (map dec_proc ps) with
      | PMap l => VL [VN 0; VL (map enc_rres l)]
      | PNone => VL [VN 4]
      | PExc c => VL [VN 1; VN (enc_cls c)]
      end
  | _ => verr
  end.
Definition e_u8r (v : val) : val := VB (u8r (get_b v)).
Definition e_perm_pattern (v : val) : val := vbool (perm_pattern (get_b v)).

(* [kind] kind 0 refused 1 silent 2 broken | [3; status; hdr]  hdr = [] | [code; has_command] *)
Definition e_http (v : val) : val :=
  let d := match v with
           | VL [VN 0] => HRefused | VL [VN 1] => HSilent | VL [VN 2] => HBroken
           | VL [VN 3; VN status; VL [VN c; hc; VN e]] => HResp status (HCode c (get_bool hc) (dec_esc e))
           | VL [VN 3; VN status; _] => HResp status HNone
           | _ => HBroken
           end in
  match http_attempt d with
  | HOk => VL [VN 4]
  | HExc c => VL [VN 1; VN (enc_cls c)]
  end.

Definition dec_dns {A} (f : val -> A) (v : val) : dns_ans A :=
  match v with
  | VL [VN 0; VL l] => DnsOk (map f l)
  | VL [VN 1] => DnsNotFound
  | _ => DnsFail
  end.
Definition dec_mxrec (v : val) : N * N := match v with VL [VN p; VN h] => (p, h) | _ => (0, 0) end.
(* [rcpt0 text; forced; mx answer; a answer; attempts] -> [0] perm | [1] trans | [2; domain text; dest] *)
Definition e_mx (v : val) : val :=
  match v with
  | VL [VB rcpt; forced; mx; a; VN attempts] =>
      match mx_attempt rcpt (get_bool forced) (dec_dns dec_mxrec mx) (dec_dns (fun _ => tt) a) attempts with
      | MxPerm => VL [VN 0]
      | MxTrans => VL [VN 1]
      | MxRelay d =>
          VL [VN 2; VB (match after_last_at rcpt with Some t => t | None => [] end);
              match d with DDomain => VL [] | DHost h => VL [VN h] end]
      end
  | _ => verr
  end.

(* one MxSmtpRelay object: [[domain opt; now; mx answer; a answer; ttl; attempts] ...]
   -> [[outcome; resolver asked] ...] *)
Definition dec_step (v : val) : mx_step :=
  match v with
  | VL [dom; VN now; mx; a; VN ttl; VN attempts] =>
      mkMxStep (match dom with VL [VN d] => Some d | _ => None end) now
               (dec_dns dec_mxrec mx) (dec_dns (fun _ => tt) a) ttl attempts
  | _ => mkMxStep None 0 DnsFail DnsFail 0 0
  end.
Definition e_mxseq (v : val) : val :=
  VL (map (fun oq => VL [match fst oq with
                         | MxPerm => VL [VN 0] | MxTrans => VL [VN 1]
                         | MxRelay DDomain => VL [VN 2; VL []] | MxRelay (DHost h) => VL [VN 2; VL [VN h]]
                         end; vbool (snd oq)])
          (mx_run [] (map dec_step (get_l v)))).

Definition entries : list entry :=
  [("c11_smtp"%string, e_smtp); ("c11_pipe"%string, e_pipe); ("c11_u8r"%string, e_u8r);
   ("c11_perm_pattern"%string, e_perm_pattern); ("c11_http"%string, e_http); ("c11_mx"%string, e_mx);
   ("c11_mxseq"%string, e_mxseq)].
