(* Entry points (val -> val) for the Envelope model (property C20). *)
From Coq Require Import List NArith Bool String.
From SV Require Import lib.Val lib.Bytes model.Envelope.
Import ListNotations.
Open Scope N_scope.

(* re.search(_HEADER_BOUNDARY, data): () or (data[:end], data[end:]) *)
Definition e_boundary (v : val) : val :=
  match search (get_b v) with
  | Some (p, r) => VL [VB p; VB r]
  | None => VL []
  end.

(* Envelope.parse + flatten with the header codec's answers supplied by the
   caller (the real `email` package run on the header part):
   (data, generated headers, () | (generated left-over payload)) -> (headers, message) *)
Definition e_parse_oracle (v : val) : val :=
  match v with
  | VL [VB data; VB gen; VL extra] =>
      let ex := match extra with [VB x] => Some x | _ => None end in
      let e := parse unit (fun _ => (tt, ex)) [] [] data in
      let '(h, b) := flatten unit (fun _ => gen) e in
      VL [VB h; VB b]
  | _ => verr
  end.

Definition out_flat (e : envelope (option (list field))) : val :=
  match e_headers e with
  | Some _ => let '(h, b) := flatten _ hgen_c e in VL [VN 0; VB h; VB b]
  | None => VL [VN 1]                       (* header part outside the modelled class *)
  end.

(* parse + flatten with the class codec *)
Definition e_parse_flatten (v : val) : val := out_flat (parse _ hparse_c [] [] (get_b v)).

(* parse, flatten, join, parse, flatten *)
Definition e_refix (v : val) : val :=
  let e1 := parse _ hparse_c [] [] (get_b v) in
  match e_headers e1 with
  | Some _ => out_flat (parse _ hparse_c [] [] (join (flatten _ hgen_c e1)))
  | None => VL [VN 1]
  end.

(* copy(new_rcpts) of a pickled envelope: (data, rcpts, new_rcpts) -> (rcpts', headers, message) *)
Definition e_copy (v : val) : val :=
  match v with
  | VL [VB data; VL rc; VL nrc] =>
      let e := copy _ (pickled _ (parse _ hparse_c [] (map get_b rc) data)) (map get_b nrc) in
      match e_headers e with
      | Some _ => let '(h, b) := flatten _ hgen_c e in VL [VN 0; VL (map VB (e_rcpts e)); VB h; VB b]
      | None => VL [VN 1]
      end
  | _ => verr
  end.

(* encode_7bit: (data, encoder given?, cte value, encoder output for the body as
   the generator writes it) -> 0 headers message | 1 (UnicodeDecodeError) | 2 (outside class) *)
Definition e_encode7 (v : val) : val :=
  match v with
  | VL [VB data; VN has; VB cte; VB encbody] =>
      let e := parse _ hparse_c [] [] data in
      match e_headers e with
      | None => VL [VN 2]
      | Some _ =>
          let rc := if has =? 0 then None else Some (recode_c cte (fun _ => encbody)) in
          match encode_7bit _ hparse_c hgen_c rc e with
          | UnicodeErr => VL [VN 1]
          | Ok7 e' =>
              match e_headers e' with
              | Some _ => let '(h, b) := flatten _ hgen_c e' in VL [VN 0; VB h; VB b]
              | None => VL [VN 2]
              end
          end
      end
  | _ => verr
  end.

(* hnorm of a header block (no blank line): () outside the class *)
Definition e_hnorm (v : val) : val :=
  match hnorm (get_b v) with Some h => VL [VB h] | None => VL [] end.

(* parse + _msg_generator for blocks that may hold over-long lines; the caller
   supplies, per stored header in order, what policy SMTP's fold_binary gives:
   () = raises, (bytes) = the folded field.
   -> 0 headers message | 1 (outside the class) | 3 (both attempts raise) *)
Fixpoint zip_folds (fs : list field) (folds : list val) : list (field * option bytes) :=
  match fs, folds with
  | f :: fs', VL [VB b] :: folds' => (f, Some b) :: zip_folds fs' folds'
  | f :: fs', _ :: folds' => (f, None) :: zip_folds fs' folds'
  | f :: fs', [] => (f, None) :: zip_folds fs' []
  | [], _ => []
  end.

Definition e_parse_flatten_x (v : val) : val :=
  match v with
  | VL [VB data; VL folds] =>
      let e := parse _ hparse_x [] [] data in
      match e_headers e with
      | None => VL [VN 1]
      | Some fs =>
          match msg_generator (field * option bytes) snd (fun p => Some (fold_raw (fst p))) (zip_folds fs folds) with
          | GenOk h => VL [VN 0; VB h; VB (e_message e); VN (N.of_nat (List.length fs))]
          | GenRaises => VL [VN 3]
          end
      end
  | _ => verr
  end.

(* a sequence of operations on one envelope, class codec:
   (data, cte, encoder output for the body, ops) -> list of observations
   op: (0) flatten | (1) encode_7bit() | (2) encode_7bit(encoder) | (3) encode_7bit(encoder that raises)
       | (4 rcpts) copy | (5) pickle | (6 data) parse | (7 n v) headers[n]=v | (8 n) del | (9 n v) replace_header
       | (10 n v) prepend_header
   obs: (0 h b) | (1) done | (2) refused | (3) encoder raised | (4) edit raised | (9) header part outside the class *)
Definition dec_edit (v : val) : option edit :=
  match v with
  | VL [VN 7; VB n; VB x] => Some (EdSet n x)
  | VL [VN 8; VB n] => Some (EdDel n)
  | VL [VN 9; VB n; VB x] => Some (EdReplace n x)
  | VL [VN 10; VB n; VB x] => Some (EdPrepend n x)
  | _ => None
  end.

Definition edit_table (ops : list val) (k : N) (h : option (list field)) : option (option (list field)) :=
  match nth_error ops (N.to_nat k) with
  | Some v => match dec_edit v with Some ed => apply_edit ed h | None => None end
  | None => None
  end.

Fixpoint dec_ops (cte encbody : bytes) (k : N) (ops : list val) : list op :=
  match ops with
  | [] => []
  | v :: r =>
      (match v with
       | VL [VN 0] => OFlatten
       | VL [VN 1] => OEncode None
       | VL [VN 2] => OEncode (Some (fun d => Some (recode_c cte (fun _ => encbody) d)))
       | VL [VN 3] => OEncode (Some (fun _ => None))
       | VL [VN 4; VL rc] => OCopy (map get_b rc)
       | VL [VN 5] => OPickle
       | VL [VN 6; VB d] => OParse d
       | _ => OEdit k
       end) :: dec_ops cte encbody (k + 1) r
  end.

Definition enc_obs (o : obs) : val :=
  match o with
  | ObsFlat h b => VL [VN 0; VB h; VB b]
  | ObsDone => VL [VN 1]
  | ObsRefused => VL [VN 2]
  | ObsEncoderRaised => VL [VN 3]
  | ObsEditRaised => VL [VN 4]
  end.

Definition e_ops (v : val) : val :=
  match v with
  | VL [VB data; VB cte; VB encbody; VL ops] =>
      let e := parse _ hparse_c [] [] data in
      match e_headers e with
      | None => VL [VN 9]
      | Some _ => VL (map enc_obs (trace _ hparse_c hgen_c (edit_table ops) (dec_ops cte encbody 0 ops) e))
      end
  | _ => verr
  end.

Definition entries : list entry :=
  [("c20_boundary"%string, e_boundary); ("c20_parse_oracle"%string, e_parse_oracle);
   ("c20_parse_flatten"%string, e_parse_flatten); ("c20_refix"%string, e_refix);
   ("c20_copy"%string, e_copy); ("c20_encode7"%string, e_encode7); ("c20_hnorm"%string, e_hnorm);
   ("c20_parse_flatten_x"%string, e_parse_flatten_x);
   ("c20_ops"%string, e_ops)].
