(* Extraction entry for model/QueuePools.v: run a list of pool operations, dump the slot state. *)
From Coq Require Import List NArith String.
From SV Require Import lib.Val model.QueuePools.
Import ListNotations.

Definition n2 (v : val) : nat := N.to_nat (get_n v).
Definition dec_cap (v : val) : option nat := match get_l v with [c] => Some (n2 c) | _ => None end.
Definition dec_pev (k : N) (i : nat) : pevent :=
  match k with
  | 0%N => EAcqS i | 1%N => EGot i | 2%N => EAcqR i | 3%N => EDone i | 4%N => EAcqS2 i | _ => EFin i
  end.
Definition dec_pop (v : val) : pop :=
  match get_l v with
  | [k; a; b] => OEv (dec_pev (get_n a) (n2 b))
  | [k; a] => if N.eqb (get_n k) 1 then ODispatch (n2 a) else OAttempt (n2 a)
  | _ => ODispatch 0
  end.
Definition enc_cap (f : option nat) : val := match f with None => VL [] | Some n => VL [VN (N.of_nat n)] end.
Definition enc_ptask (t : ptask) : val :=
  match t with
  | PWaitStore => VL [VN 0; VN 0]
  | PDeqWantS i => VL [VN 1; VN (N.of_nat i)]
  | PDeqGet i => VL [VN 2; VN (N.of_nat i)]
  | PDeqWantR i => VL [VN 3; VN (N.of_nat i)]
  | PAttRun i => VL [VN 4; VN (N.of_nat i)]
  | PAttWantS i => VL [VN 5; VN (N.of_nat i)]
  | PSto i => VL [VN 6; VN (N.of_nat i)]
  end.
Definition enc_pstate (s : pstate) : val :=
  VL [enc_cap (free_s s); enc_cap (free_r s); VL (map enc_ptask (ptasks s)); vbool (stuck s)].

Fixpoint pstates_after (os : list pop) (s : pstate) : list val :=
  match os with [] => [] | o :: os' => let s' := papply s o in enc_pstate s' :: pstates_after os' s' end.

(* [store capacity; relay capacity; waits?; ops] -> the state after every op *)
Definition e_pools (v : val) : val :=
  match get_l v with
  | [cs; cr; w; os] => let s0 := pinit (dec_cap cs) (dec_cap cr) (get_bool w) in
                       VL (enc_pstate s0 :: pstates_after (map dec_pop (get_l os)) s0)
  | _ => VL []
  end.

Definition entries : list entry := [("cq_pools"%string, e_pools)].
