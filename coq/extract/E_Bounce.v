(* Entry points (val -> val) of the C13 model (model/Bounce.v). *)
From Coq Require Import List NArith Bool String.
From SV Require Import lib.Val lib.Bytes model.Reply model.Bounce gen.UnicodeTables.
Import ListNotations.
Open Scope N_scope.

(* ---- decoding *)
Definition d_opt (v : val) : option (list N) :=
  match v with VL [VB t] => Some t | _ => None end.
Definition d_optn (v : val) : option N :=
  match v with VL [VN n] => Some n | _ => None end.

Definition d_client (v : val) : client :=
  match v with
  | VL [VN ne; n; i; p] => mkClient (negb (ne =? 0)) (d_opt n) (d_opt i) (d_opt p)
  | _ => mkClient false None None None
  end.

Definition d_env (v : val) : menv :=
  match v with
  | VL [VB s; VL rc; VB h; VB b; cl] => mkEnv s (map get_b rc) h b (d_client cl)
  | _ => mkEnv [] [] [] [] (d_client (VL []))
  end.

(* reply spec: [code; opt message; esc_false; opt host]  =
   r = Reply(code, message); if esc_false: r.enhanced_status_code = False; r.address = host *)
Definition d_reply (v : val) : freply :=
  match v with
  | VL [VB code; m; VN ef; a] =>
      let r0 := new_reply udigit uspace code (match d_opt m with Some t => t | None => [] end) in
      let r1 := if ef =? 0 then r0 else mkReply (r_code r0) EscFalse (r_msg r0) in
      mkF r1 (match d_opt m with Some _ => false | None => true end) (d_opt a)
  | _ => mkF (mkReply [] EscNone []) true None
  end.

Definition d_rres (v : val) : rres :=
  match v with
  | VL [VN 0] => RROk
  | VL [VN 1; r] => RRPerm (d_reply r)
  | VL [VN 2; r] => RRTemp (d_reply r)
  | _ => RROther
  end.

Definition d_outcome (v : val) : outcome :=
  match v with
  | VL [VN 1; r] => OPerm (d_reply r)
  | VL [VN 2; r] => OTemp (d_reply r)
  | VL [VN 3; VB m] => OOther m
  | VL [VN 4; VL items] =>
      OMap (map (fun it => match it with VL [VB rc; rr] => (rc, d_rres rr) | _ => ([], RROther) end) items)
  | VL [VN 5; VL rs] => OSeq (map d_rres rs)
  | _ => OOk
  end.

(* ---- encoding *)
Definition v_opt (o : option (list N)) : val := match o with Some t => VL [VB t] | None => VL [] end.
Definition v_optn (o : option N) : val := match o with Some n => VL [VN n] | None => VL [] end.
Definition v_reply (r : freply) : val := VL [VB (r_code (fr r)); v_opt (msg_opt r)].
Definition v_texts (l : list (list N)) : val := VL (map VB l).

Definition v_action (a : action) : val :=
  match a with
  | ARemove => VL [VN 0]
  | AStoreRemove => VL [VN 1]
  | AIncr => VL [VN 2]
  | ARequeue w => VL [VN 3; VN w]
  | ASetDelivered ix => VL [VN 4; VL (map VN ix)]
  | ABounce e r => VL [VN 5; v_texts (e_rcpts e); v_reply r]
  | ACrash => VL [VN 6]
  end.

Definition v_env (e : menv) : val := VL [VB (e_sender e); v_texts (e_rcpts e); VB (e_hdr e); VB (e_body e)].

(* ---- entries *)
Definition v_part (p : part) : val :=
  match p with PLit b => VL [VN 0; VB b] | PKey k => VL [VN 1; VB k] end.

Definition e_tpl (v : val) : val := VL (map v_part (parse_template (get_b v))).

Definition d_table (v : val) : table :=
  map (fun kv => match kv with VL [VB k; x] => (k, d_opt x) | _ => ([], None) end) (get_l v).

(* [template; table] -> BytesFormat(template, mode='remove').format with the table as keyword arguments *)
Definition e_fmt (v : val) : val :=
  match v with
  | VL [VB t; tb] => v_opt (fmt (parse_template t) (d_table tb))
  | _ => verr
  end.

Definition e_default_tpl (_ : val) : val := VL [VB default_header_bytes; VB default_footer_bytes].

Definition e_xmlref (v : val) : val := VB (enc_xmlref (get_b v)).

Definition e_hb (v : val) : val :=
  match hb_split (get_b v) with Some (h, m) => VL [VB h; VB m] | None => VL [] end.

(* [[rcpt; reply]...] -> groups [[code; opt msg]; [rcpt...]] *)
Definition e_split (v : val) : val :=
  let fails := map (fun p => match p with VL [VB rc; r] => (rc, d_reply r) | _ => ([], d_reply (VL [])) end) (get_l v) in
  VL (map (fun g => VL [v_reply (fst g); v_texts (snd g)]) (split_by_reply fails)).

(* [reply; reply] -> Reply.__eq__ *)
Definition e_req (v : val) : val :=
  match v with VL [a; b] => vbool (freply_eqb (d_reply a) (d_reply b)) | _ => verr end.

(* reply -> reply after `reply.message += ' (Too many retries)'` ; [] = raises *)
Definition e_suffix (v : val) : val :=
  match add_suffix udigit uspace (d_reply v) with Some r => VL [v_reply r] | None => VL [] end.

(* [env; reply; headers_only; uuid; custom templates: [] | [hdr; ftr]] -> [] | [sender; rcpts; hdr; msg; payload] *)
Definition e_bounce (v : val) : val :=
  match v with
  | VL [e; r; VN ho; VB uuid; VL tp] =>
      let '(hp, fp) := match tp with
                       | [VB h; VB f] => (parse_template h, parse_template f)
                       | _ => (default_hp, default_fp)
                       end in
      match bounce_new hp fp (d_env e) (d_reply r) (negb (ho =? 0)) uuid with
      | Some b => VL [VB (b_sender b); v_texts (b_rcpts b); VB (b_hdr b); VB (b_msg b)]
      | None => VL []
      end
  | _ => verr
  end.

(* [env; outcome; opt backoff] -> actions *)
Definition e_dispatch (v : val) : val :=
  match v with
  | VL [e; o; bo] => VL (map v_action (dispatch udigit uspace (d_env e) (d_outcome o) (d_optn bo)))
  | _ => verr
  end.

(* ---- runs.  Messages are referred to by path: [i] = original i, [i; k] = the
   k-th message whose parent is original i, ... *)
Fixpoint nth_child (ms : list msg) (idx : N) (parent : N) (k : N) : option N :=
  match ms with
  | [] => None
  | m :: ms' =>
      match m_parent m with
      | Some p =>
          if p =? parent then (if k =? 0 then Some idx else nth_child ms' (idx + 1) parent (k - 1))
          else nth_child ms' (idx + 1) parent k
      | None => nth_child ms' (idx + 1) parent k
      end
  end.

Fixpoint resolve (ms : list msg) (cur : N) (path : list N) : option N :=
  match path with
  | [] => Some cur
  | k :: path' =>
      match nth_child ms 0 cur k with
      | Some i => resolve ms i path'
      | None => None
      end
  end.

Definition d_factory (k : N) : factory :=
  if k =? 0 then default_factory false
  else if k =? 1 then default_factory true
  else if k =? 2 then (fun _ _ _ => FNone)
  else (fun _ _ _ => FRaise).

Definition d_choice (v : val) : bytes * bool :=
  match v with VL [VB u; VN ok] => (u, negb (ok =? 0)) | _ => ([], true) end.

Definition run_ev (c : cfg) (st : state) (v : val) : state :=
  match v with
  | VL [VL (VN i :: path); VL rc; o; bo; VL chs] =>
      match resolve (msgs st) i (map get_n path) with
      | Some idx => step udigit uspace c st (mkEv idx (map get_b rc) (d_outcome o) (d_optn bo) (map d_choice chs))
      | None => st
      end
  | _ => st
  end.

Definition v_msg (m : msg) : val := VL [v_env (m_env m); v_optn (m_parent m); vbool (m_q m)].
Definition v_tact (t : tact) : val :=
  match t with
  | TDispatch i acts => VL [VN 0; VN i; VL (map v_action acts)]
  | TFactoryNone i => VL [VN 1; VN i]
  | TFactoryRaise i => VL [VN 2; VN i]
  | TEnqueue q e p ok => VL [VN 3; vbool q; VB (e_sender e); v_texts (e_rcpts e); v_optn p; vbool ok]
  | TWrite q idx => VL [VN 4; vbool q; VN idx]
  end.

(* [[factory kind; separate queue]; originals; events] -> [msgs; trace] *)
Definition e_run (v : val) : val :=
  match v with
  | VL [VL [VN fk; VN sq]; VL origs; VL evs] =>
      let c := mkCfg (d_factory fk) (negb (sq =? 0)) in
      let st := fold_left (run_ev c) evs (init (map d_env origs)) in
      VL [VL (map v_msg (msgs st)); VL (map v_tact (trace st))]
  | _ => verr
  end.

Definition entries : list entry :=
  [("c13_tpl"%string, e_tpl); ("c13_fmt"%string, e_fmt); ("c13_default_tpl"%string, e_default_tpl);
   ("c13_xmlref"%string, e_xmlref); ("c13_hb"%string, e_hb); ("c13_split"%string, e_split);
   ("c13_req"%string, e_req); ("c13_suffix"%string, e_suffix); ("c13_bounce"%string, e_bounce);
   ("c13_dispatch"%string, e_dispatch); ("c13_run"%string, e_run)].
