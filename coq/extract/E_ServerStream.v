(* Entry points (val -> val) for the byte-stream server model (property C09);
   evaluated by the extracted OCaml driver and by vm_compute.  Encoders/decoders of C07's
   verdicts, events and outputs are those of extract/E_Server.v. *)
From Coq Require Import List NArith Bool String.
From SV Require Import lib.Val lib.Bytes model.Data model.Server model.ServerStream extract.E_Server.
Import ListNotations.
Open Scope N_scope.

Definition vlen9 {A} (l : list A) : val := VN (N.of_nat (List.length l)).

Definition d_env (v : val) : env :=
  match v with
  | VL [v1; v2; v3; q; vt] =>
      {| n_v1 := d_verdict v1; n_v2 := d_verdict v2; n_v3 := d_verdict v3; n_q := d_q q; n_tls := d_verdict vt |}
  | _ => env_default
  end.

Definition e_sfin (f : sfin) : val :=
  VN (match f with SClosed => 1 | SCrashed => 2 | SLost => 3 | SLostInData => 4 | SFuel => 9 end).

(* what the stream front end handed to the command machine: word, argument, content, too big? *)
Definition e_item (it : item) : val :=
  VL [e_optb (l_word (it_line it)); e_optb (l_arg (it_line it)); VB (it_data it);
      vbool (negb (it_wire it =? 0))].

Definition e_result (r : list item * list out * sfin) : val :=
  let '(its, os, f) := r in
  VL [VL (map e_out os); e_sfin f; VL (map e_item its)].

(* c09_run [max_size () | (n); context given?; banner verdict; [env...]; recv_buffer; [chunk...]]
   env = [v1; v2; v3; queue result; STARTTLS hook verdict] *)
Definition e_run_stream (v : val) : val :=
  match v with
  | VL [mx; ctx; vb; VL envs; VB buf; VL chunks] =>
      e_result (run_server_stream (d_optN mx) (get_bool ctx) (d_verdict vb) (map d_env envs) buf (map get_b chunks))
  | _ => verr
  end.

(* c09_run_batch [max_size; context given?; banner verdict; [env...]; stream] *)
Definition e_run_batch (v : val) : val :=
  match v with
  | VL [mx; ctx; vb; VL envs; VB stream] =>
      e_result (run_server_batch (d_optN mx) (get_bool ctx) (d_verdict vb) (map d_env envs) stream)
  | _ => verr
  end.

(* c09_recv_line [recv_buffer; [chunk...]] -> (0 line new_buffer #chunks-left) | (1) ConnectionLost *)
Definition e_recv_line (v : val) : val :=
  match v with
  | VL [VB buf; VL chunks] =>
      match recv_line buf (map get_b chunks) with
      | LLine l rb rest => VL [VN 0; VB l; VB rb; vlen9 rest]
      | LLost => VL [VN 1]
      end
  | _ => verr
  end.

(* c09_recv [max_size; recv_buffer; [chunk...]]: DataReader(io, max_size).recv(), D13 repaired
   -> (0 data new_buffer #left) | (1) ConnectionLost | (2 new_buffer #left) MessageTooBig *)
Definition e_recv_lim (v : val) : val :=
  match v with
  | VL [ms; VB buf; VL chunks] =>
      match dr_recv_lim (d_optN ms) buf (map get_b chunks) with
      | DOk d rb rest => VL [VN 0; VB d; VB rb; vlen9 rest]
      | DLost => VL [VN 1]
      | DTooBig rb rest => VL [VN 2; VB rb; vlen9 rest]
      end
  | _ => verr
  end.

(* batch specifications *)
Definition e_line_spec (v : val) : val :=
  match line_spec (get_b v) with
  | Some (l, r) => VL [VL [VB l; VB r]]
  | None => VL []
  end.

Definition e_read_spec_lim (v : val) : val :=
  match v with
  | VL [ms; VB s] =>
      match read_spec_lim (d_optN ms) s with
      | None => VL [VN 1]
      | Some (Some d, r) => VL [VN 0; VB d; VB r]
      | Some (None, r) => VL [VN 2; VB r]
      end
  | _ => verr
  end.

Definition entries : list entry :=
  [("c09_run"%string, e_run_stream); ("c09_run_batch"%string, e_run_batch);
   ("c09_recv_line"%string, e_recv_line); ("c09_recv"%string, e_recv_lim);
   ("c09_line_spec"%string, e_line_spec); ("c09_read_spec_lim"%string, e_read_spec_lim)].
