(* Entry points (val -> val) for the Hop model (property C06); evaluated by the
   extracted OCaml driver and by vm_compute. *)
From Coq Require Import List NArith Bool String.
From SV Require Import lib.Val lib.Bytes model.Hop.
From SV Require model.Envelope model.Data model.Reply.
Import ListNotations.
Open Scope N_scope.

Definition v_optb (o : option (list N)) : val :=
  match o with Some b => VL [VB b] | None => VL [] end.
Definition get_optb (v : val) : option (list N) :=
  match v with VL [VB b] => Some b | _ => None end.

Definition get_exts (v : val) : exts :=
  map (fun x => match x with
                | VL [VB k; p] => (k, get_optb p)
                | _ => ([], None)
                end) (get_l v).
Definition v_exts (e : exts) : val :=
  VL (map (fun kv => VL [VB (fst kv); v_optb (snd kv)]) e).

Definition v_params (ps : params) : val :=
  VL (map (fun kv => VL [VB (fst kv); match snd kv with PTrue => VL [] | PVal v => VL [VB v] end]) ps).

Definition v_addr_res (r : addr_res) : val :=
  match r with
  | AOk a ps => VL [VN 0; VB a; v_params ps]
  | ABadArgs => VL [VN 1]
  | AUnicode => VL [VN 2]
  end.

Definition e_build_string (v : val) : val :=
  match v with
  | VL [VB h; e] => VB (build_string h (get_exts e))
  | _ => verr
  end.
Definition e_parse_string (v : val) : val :=
  match v with
  | VL [e0; VB s] => let '(h, e) := parse_string (get_exts e0) s in VL [VB h; v_exts e]
  | _ => verr
  end.

Definition e_parse_command (v : val) : val :=
  match parse_command (get_b v) with
  | CmdNone => VL []
  | Cmd n a => VL [VB n; v_optb a]
  end.

Definition get_auth (v : val) : option (option (list N)) :=
  match v with
  | VL [VL [VB t]] => Some (Some t)
  | VL [VL []] => Some None
  | _ => None
  end.
Definition get_optn (v : val) : option N := match v with VL [VN n] => Some n | _ => None end.

Definition e_build_mail (v : val) : val :=
  match v with
  | VL [e; VB a; sz; au] => v_optb (build_mail (get_exts e) a (get_optn sz) (get_auth au))
  | _ => verr
  end.
Definition e_build_rcpt (v : val) : val :=
  match v with
  | VL [e; VB a] => v_optb (build_rcpt (get_exts e) a)
  | _ => verr
  end.

Definition e_parse_mail (v : val) : val := v_addr_res (parse_mail (get_b v)).
Definition e_parse_rcpt (v : val) : val := v_addr_res (parse_rcpt (get_b v)).
Definition e_parse_mail_d16 (v : val) : val := v_addr_res (parse_mail_d16 (get_b v)).
Definition e_find_gt (v : val) : val :=
  match find_gt false false (get_b v) with
  | Some (a, r) => VL [VB a; VB r]
  | None => VL []
  end.
Definition e_gather_params (v : val) : val := v_params (gather_params (get_b v)).

Definition e_server_line (v : val) : val :=
  match server_line (get_b v) with
  | LNoLine => VL [VN 0]
  | LNotCmd => VL [VN 1]
  | LOther n a => VL [VN 2; VB n; v_optb a]
  | LMail r rest => VL [VN 3; v_addr_res r; VB rest]
  | LRcpt r rest => VL [VN 4; v_addr_res r; VB rest]
  end.

Definition e_wf_addr (v : val) : val :=
  match v with
  | VL [u; VB a] => VL [vbool (wf_mailbox (get_bool u) a); vbool (wf_sender (get_bool u) a)]
  | _ => verr
  end.

Definition e_b64enc (v : val) : val := VB (b64enc (get_b v)).
Definition e_b64dec (v : val) : val :=
  match b64dec (get_b v) with B64Ok d => VL [VB d] | B64Err => VL [] end.
Definition e_r_b64encode (v : val) : val := v_optb (r_b64encode (get_b v)).
Definition v_dec_res (r : dec_res) : val :=
  match r with
  | DOk t => VL [VN 0; VB t]
  | DErrAscii => VL [VN 1]
  | DErrB64 => VL [VN 2]
  | DErrUtf8 => VL [VN 3]
  end.
Definition e_w_b64decode (v : val) : val := v_dec_res (w_b64decode (get_b v)).

Definition v_headers (hs : list (text * text)) : val :=
  VL (map (fun h => VL [VB (fst h); VB (snd h)]) hs).
Definition get_headers (v : val) : list (text * text) :=
  map (fun x => match x with VL [VB n; VB w] => (n, w) | _ => ([], []) end) (get_l v).

Definition e_build_headers (v : val) : val :=
  match v with
  | VL [VB ehlo; VB s; VL rs; VB h; VB b] =>
      match build_headers ehlo s (map get_b rs) h b with
      | Some hs => VL [v_headers hs]
      | None => VL []
      end
  | _ => verr
  end.
Definition v_rcpts_res (r : rcpts_res) : val :=
  match r with
  | RcOk l => VL [VN 0; VL (map VB l)]
  | RcErr e => VL [VN 1; v_dec_res e]
  end.
Definition e_get_recipients (v : val) : val := v_rcpts_res (get_recipients (get_optb v)).
Definition e_get_sender (v : val) : val := v_dec_res (get_sender (get_optb v)).
Definition e_http_addresses (v : val) : val :=
  match v with
  | VL [VB sep; hs] =>
      let '(s, r) := http_addresses sep (get_headers hs) in VL [v_dec_res s; v_rcpts_res r]
  | _ => verr
  end.

Definition e_build_reply_header (v : val) : val :=
  match v with
  | VL [VB code; VB msg] => VL [VB (build_reply_header code msg); VN (http_status code)]
  | _ => verr
  end.
Definition v_optcode (c : option text) : val := v_optb c.
Definition e_process_response (v : val) : val :=
  match v with
  | VL [VN st; VB raw] =>
      match process_response st raw with
      | RepOk c => VL [VN 0; v_optcode c]
      | RepPermanent c => VL [VN 1; v_optcode c]
      | RepTransient c => VL [VN 2; v_optcode c]
      | RepValueError => VL [VN 3]
      end
  | _ => verr
  end.

(* the hop, with the class codec of model/Envelope.v standing for Python's email *)
Definition hdr_c := option (list Envelope.field).
Definition v_hop (r : hop_res hdr_c) : val :=
  match r with
  | Delivered e =>
      let '(h, b) := Envelope.flatten hdr_c Envelope.hgen_c e in
      VL [VN 0; VB (Envelope.e_sender e); VL (map VB (Envelope.e_rcpts e)); VB h; VB b]
  | Refused554 => VL [VN 1]
  | EncodeError => VL [VN 2]
  | Rejected w => VL [VN 3; VN w]
  | DataLost => VL [VN 4]
  | HttpError e => VL [VN 5; v_dec_res e]
  end.
(* the envelope given to the relay: sender, recipients, and what flatten() shows *)
Definition mk_env (s : text) (rs : list val) (h b : bytes) : Envelope.envelope hdr_c :=
  Envelope.mkenv s (map get_b rs) (fst (Envelope.hparse_c h)) b.

Definition e_smtp_hop (v : val) : val :=
  match v with
  | VL [ce; VB s; VL rs; VB h; VB b; VB buf; VL chunks] =>
      v_hop (smtp_hop hdr_c Envelope.hparse_c (get_exts ce) (mk_env s rs h b) buf (map get_b chunks))
  | _ => verr
  end.
Definition e_data_wire (v : val) : val :=
  match v with
  | VL [VB s; VL rs; VB h; VB b] => VB (data_wire hdr_c Envelope.hgen_c (mk_env s rs h b))
  | _ => verr
  end.
Definition e_http_hop (v : val) : val :=
  match v with
  | VL [VB sep; VB ehlo; VB s; VL rs; VB h; VB b] =>
      v_hop (http_hop hdr_c Envelope.hparse_c Envelope.hgen_c sep ehlo (mk_env s rs h b))
  | _ => verr
  end.
Definition e_client_exts (v : val) : val :=
  match v with
  | VL [helo; VB g; adv; VB buf; VL chunks] =>
      match client_exts (get_bool helo) g (get_exts adv) buf (map get_b chunks) with
      | Some e => VL [v_exts e]
      | None => VL []
      end
  | _ => verr
  end.
Definition e_ehlo_wire (v : val) : val :=
  match v with
  | VL [VB g; adv] => VB (ehlo_reply_wire g (get_exts adv))
  | _ => verr
  end.

Definition entries : list entry :=
  [("c06_build_string"%string, e_build_string); ("c06_parse_string"%string, e_parse_string);
   ("c06_parse_command"%string, e_parse_command);
   ("c06_build_mail"%string, e_build_mail); ("c06_build_rcpt"%string, e_build_rcpt);
   ("c06_parse_mail"%string, e_parse_mail); ("c06_parse_rcpt"%string, e_parse_rcpt);
   ("c06_parse_mail_d16"%string, e_parse_mail_d16);
   ("c06_find_gt"%string, e_find_gt); ("c06_gather_params"%string, e_gather_params);
   ("c06_server_line"%string, e_server_line); ("c06_wf_addr"%string, e_wf_addr);
   ("c06_b64enc"%string, e_b64enc); ("c06_b64dec"%string, e_b64dec);
   ("c06_r_b64encode"%string, e_r_b64encode); ("c06_w_b64decode"%string, e_w_b64decode);
   ("c06_build_headers"%string, e_build_headers); ("c06_get_recipients"%string, e_get_recipients);
   ("c06_get_sender"%string, e_get_sender); ("c06_http_addresses"%string, e_http_addresses);
   ("c06_build_reply_header"%string, e_build_reply_header);
   ("c06_process_response"%string, e_process_response);
   ("c06_smtp_hop"%string, e_smtp_hop); ("c06_data_wire"%string, e_data_wire);
   ("c06_http_hop"%string, e_http_hop); ("c06_client_exts"%string, e_client_exts);
   ("c06_ehlo_wire"%string, e_ehlo_wire)].
