(* C09 -- Server behaviour does not depend on how client bytes are segmented or pipelined.
   Statements only; proofs in proof/ServerStream_lemmas.v; model in model/ServerStream.v
   (IO.recv_line, DataReader.recv with the size limit AFTER the repair of D13, see
   /verif/fixes/d13-size-limit-drain.diff, and Server.handle's loop) on top of C07's command
   machine model/Server.v (`step`) and C05's reader pieces model/Data.v.

   Vocabulary:
     (buf, chunks)          io.recv_buffer and the values socket.recv() is going to return
                            (non-empty; an exhausted list is end of file)
     recv_line buf chunks   IO.recv_line();  line_spec s = first line of the byte string s
     dr_recv_lim m b c      DataReader(io, m).recv();  read_spec_lim m s = batch specification:
                            None (no end-of-data line: ConnectionLost) | Some (None, rest)
                            (MessageTooBig) | Some (Some data, rest);  the size of a message is
                            the number of stream bytes up to and including its end-of-data line
     run_server_stream mx ctx vb envs buf chunks
                            the whole session of Server.handle + SmtpSession with SIZE limit mx
                            (no AUTH, no TLS), banner verdict vb, application decisions envs
                            (one entry per command line read): (items given to C07's `step`,
                            one `out` = replies + callback events per line, how it ended)
     run_server_batch       the same loop over ONE byte string with the batch specifications
     observable r           (reply codes in order, callback trace with arguments and message
                            content, how the session ended)
   Quantification: every limit, every verdict assignment, every byte stream, every cut of it
   into a pre-buffered part and recv() results.  No bound on lengths or on the number of
   commands; the recursion bound of run_server_stream is never reached (C09_fuel_sufficient). *)
From Coq Require Import List NArith Bool.
From SV Require Import lib.Bytes model.Data model.Server model.ServerStream
                       proof.Data_lemmas proof.ServerStream_lemmas.
Import ListNotations.
Open Scope N_scope.

(* IO.recv_line over (buffer, pieces) = the first line of the concatenation, every other byte
   left unread; and it stops reading from the socket with the piece that completes the line. *)
Theorem C09_recv_line_inc_eq_batch : forall (buf : bytes) (chunks : list bytes),
  Forall (fun c => c <> []) chunks ->
  line_outcome (recv_line buf chunks) = line_spec (buf ++ concat chunks)
  /\ forall l rb rest, recv_line buf chunks = LLine l rb rest ->
       exists used, chunks = used ++ rest
         /\ line_spec (buf ++ concat used) = Some (l, rb)
         /\ (used = [] \/ line_spec (buf ++ concat (removelast used)) = None).
Proof.
  intros buf chunks NE. split; [exact (recv_line_batch chunks buf NE)|].
  intros l rb rest. apply recv_line_consumption.
Qed.
Print Assumptions C09_recv_line_inc_eq_batch.

(* DataReader.recv with a size limit over (buffer, pieces) = the batch specification of the
   concatenation: same data / MessageTooBig / ConnectionLost, same unread bytes.  In particular
   whether the limit trips does not depend on the pieces, and a too big message is consumed up
   to and including its end-of-data line, no further.  (C05_incremental_is_batch extended.) *)
Theorem C09_reader_inc_eq_batch : forall (m : option N) (buf : bytes) (chunks : list bytes),
  Forall (fun c => c <> []) chunks ->
  read_outcome (dr_recv_lim m buf chunks) = read_spec_lim m (buf ++ concat chunks)
  /\ forall rb rest, left_of (dr_recv_lim m buf chunks) = Some (rb, rest) ->
       exists used, chunks = used ++ rest
         /\ rest_of (buf ++ concat used) = Some rb
         /\ (used = [] \/ rest_of (buf ++ concat (removelast used)) = None).
Proof.
  intros m buf chunks NE. split; [exact (dr_recv_lim_batch m buf chunks NE)|].
  intros rb rest. apply dr_recv_lim_consumption.
Qed.
Print Assumptions C09_reader_inc_eq_batch.

(* without a limit the reader is exactly C05's *)
Theorem C09_reader_no_limit_is_C05 : forall (buf : bytes) (chunks : list bytes),
  dr_recv_lim None buf chunks =
  match dr_recv None buf chunks with
  | ROk d rb sock => DOk d rb sock
  | RLost => DLost
  | RTooBig sock => DLost
  end.
Proof. exact dr_recv_lim_none. Qed.
Print Assumptions C09_reader_no_limit_is_C05.

(* what the batch specification of the reader returns for a well-formed body: the lines in
   front of the first end-of-data line, undotted - or MessageTooBig when those lines and the
   end-of-data line are more than the limit - and every byte behind it *)
Theorem C09_read_spec_lim_complete : forall (mx : option N) (ls : list bytes) (e rest : bytes),
  forallb nolf ls = true -> nolf e = true -> no_eod ls = true -> is_eod (e ++ [10]) = true ->
  read_spec_lim mx (unraw ls ++ (e ++ [10]) ++ rest) =
  Some (if Data.too_big mx (N.of_nat (length (unraw ls ++ e ++ [10]))) then None else Some (content ls), rest).
Proof. exact read_spec_lim_complete. Qed.
Print Assumptions C09_read_spec_lim_complete.

(* The server: incremental = batch.  The items handed to the command machine, every reply,
   every callback with its arguments and the message content, and the way the session ends
   are those of the one-string server on buf ++ concat chunks. *)
Theorem C09_server_inc_eq_batch : forall mx ctx vb envs (buf : bytes) (chunks : list bytes),
  Forall (fun c => c <> []) chunks ->
  run_server_stream mx ctx vb envs buf chunks = run_server_batch mx ctx vb envs (buf ++ concat chunks).
Proof. exact run_server_stream_batch. Qed.
Print Assumptions C09_server_inc_eq_batch.

(* THE PROPERTY: two segmentations of the same client byte stream (byte by byte, command by
   command, one pipelined burst, any part of it already buffered) give the same replies, the
   same callback trace with the same arguments and message content, the same end. *)
Theorem C09_server_segmentation_independent : forall mx ctx vb envs (buf buf' : bytes) (chunks chunks' : list bytes),
  Forall (fun c => c <> []) chunks -> Forall (fun c => c <> []) chunks' ->
  buf ++ concat chunks = buf' ++ concat chunks' ->
  run_server_stream mx ctx vb envs buf chunks = run_server_stream mx ctx vb envs buf' chunks'
  /\ observable (run_server_stream mx ctx vb envs buf chunks) = observable (run_server_stream mx ctx vb envs buf' chunks').
Proof.
  intros mx ctx vb envs buf buf' chunks chunks' H H' E.
  pose proof (server_segmentation_independent mx ctx vb envs buf chunks buf' chunks' H H' E) as S.
  split; [exact S|]. rewrite S. reflexivity.
Qed.
Print Assumptions C09_server_segmentation_independent.

(* the same from any session state and with any recursion bound (the induction itself) *)
Theorem C09_loop_inc_eq_batch : forall fuel st envs (buf : bytes) (chunks : list bytes),
  Forall (fun c => c <> []) chunks ->
  run_stream fuel st envs buf chunks = run_batch fuel st envs (buf ++ concat chunks).
Proof. exact run_stream_batch. Qed.
Print Assumptions C09_loop_inc_eq_batch.

(* the recursion bound is never what ends a session *)
Theorem C09_fuel_sufficient : forall mx ctx vb envs (buf : bytes) (chunks : list bytes),
  Forall (fun c => c <> []) chunks ->
  snd (run_server_stream mx ctx vb envs buf chunks) <> SFuel.
Proof. exact run_server_stream_fuel. Qed.
Print Assumptions C09_fuel_sufficient.

(* Message content is never executed as commands.  From ANY session state in which the DATA
   line dl is accepted (354), for ANY body ls (lines that are not the end-of-data line - they
   may look like commands, start with dots, be empty; ls may be empty; the body may be over
   the limit), end-of-data line e, following bytes rest, and any segmentation: the lines
   handed to the command parser are dl and then those of `rest` - never a line of ls or e. *)
Theorem C09_content_not_executed : forall fuel st en envs (dl : bytes) (ls : list bytes) (e rest buf : bytes) (chunks : list bytes),
  Forall (fun c => c <> []) chunks ->
  buf ++ concat chunks = dl ++ 10 :: unraw ls ++ (e ++ [10]) ++ rest ->
  nolf dl = true -> wf_body ls e ->
  reads_data st (mk_item en (parse_line (strip_cr dl)) [] 0) = true ->
  exists it st' o, step st it = (st', o) /\ it_line it = parse_line (strip_cr dl) /\
    map it_line (fst (fst (run_stream (S fuel) st (en :: envs) buf chunks))) =
    parse_line (strip_cr dl) ::
    match o_fin o with
    | Continue => map it_line (fst (fst (run_batch fuel st' envs rest)))
    | _ => []
    end.
Proof. exact content_not_executed. Qed.
Print Assumptions C09_content_not_executed.

(* Commands are never swallowed into content.  Same situation: the content given to the
   HAVE_DATA callback is exactly the undotted lines ls (no byte of `rest`), or nothing and the
   too-big flag when ls and e exceed the limit; and the server then goes on (unless that reply
   ended the session) exactly as a server that is handed all of `rest` would. *)
Theorem C09_commands_not_swallowed : forall fuel st en envs (dl : bytes) (ls : list bytes) (e rest buf : bytes) (chunks : list bytes),
  Forall (fun c => c <> []) chunks ->
  buf ++ concat chunks = dl ++ 10 :: unraw ls ++ (e ++ [10]) ++ rest ->
  nolf dl = true -> wf_body ls e ->
  reads_data st (mk_item en (parse_line (strip_cr dl)) [] 0) = true ->
  exists it, run_stream (S fuel) st (en :: envs) buf chunks =
             after_item (S:=bytes) it st (fun st' => run_stream fuel st' envs rest []) /\
    (if Data.too_big (x_size (ex st)) (N.of_nat (length (unraw ls ++ e ++ [10])))
     then it_data it = [] /\ Server.too_big (ex st) (it_wire it) = true
     else it_data it = content ls /\ Server.too_big (ex st) (it_wire it) = false).
Proof. exact commands_not_swallowed. Qed.
Print Assumptions C09_commands_not_swallowed.

(* STARTTLS without a handshake leaves the stream alone.  A STARTTLS line that a
   handlers.STARTTLS hook refuses (any verdict but 220 that does not close the session): for
   ANY segmentation - the following commands glued to the STARTTLS line in one recv() or
   arriving later - the server answers the hook's code and goes on, in the same state, exactly
   as a server handed all of `rest`.  (The arms "not offered" 500, "argument" 501, "before
   EHLO" 503 are arms of C07's `step`, which never sees the stream, and are covered by
   C09_server_inc_eq_batch like every command; only STARTTLS answered 220 is exempt: C08.) *)
Theorem C09_starttls_refused_keeps_stream : forall fuel st en envs (l rest : bytes) o (buf : bytes) (chunks : list bytes),
  Forall (fun c => c <> []) chunks -> buf ++ concat chunks = l ++ 10 :: rest ->
  nolf l = true ->
  starttls_hook st (mk_item en (parse_line (strip_cr l)) [] 0) = true ->
  hook_out (n_tls en) = Some o -> o_fin o = Continue ->
  run_stream (S fuel) st (en :: envs) buf chunks =
  (let '(its, os, f) := run_stream fuel st envs rest [] in
   (mk_item en (parse_line (strip_cr l)) [] 0 :: its, o :: os, f)).
Proof. exact starttls_refused. Qed.
Print Assumptions C09_starttls_refused_keeps_stream.

(* the front end's decision to call the reader is the command machine's: exactly then the
   machine answers 354 and calls the DATA handler first; otherwise it ignores the message
   fields of the item *)
Theorem C09_reader_called_iff_354 : forall st e l d w,
  (reads_data st (mk_item e l d w) = true ->
     exists rs es, o_replies (snd (step st (mk_item e l d w))) = 354 :: rs
                /\ o_events (snd (step st (mk_item e l d w))) = EvCall KData [] [] (Some 354) :: es)
  /\ (reads_data st (mk_item e l [] 0) = false -> step st (mk_item e l d w) = step st (mk_item e l [] 0)).
Proof. intros st e l d w. split; [apply reads_data_true|apply reads_data_false]. Qed.
Print Assumptions C09_reader_called_iff_354.

(* The stream front end refines C07 (handlers object without a STARTTLS hook, like the real
   SmtpSession: no_hook): the items it produced from the bytes, given to C07's
   run_session, yield exactly the outputs of the stream server (for a session that was not cut
   off inside a message) - so every C07 theorem holds of the server under any segmentation;
   e.g. the callback trace is in protocol order. *)
Theorem C09_stream_refines_session : forall mx ctx vb envs (buf : bytes) (chunks : list bytes) its os f,
  no_hook envs ->
  run_server_stream mx ctx vb envs buf chunks = (its, os, f) -> complete f ->
  exists stf, run_session (stream_cfg mx ctx) vb its = (os, stf, fin_of f).
Proof. exact stream_refines_session. Qed.
Print Assumptions C09_stream_refines_session.

Theorem C09_stream_callbacks_in_order : forall mx ctx vb envs (buf : bytes) (chunks : list bytes),
  no_hook envs ->
  complete (snd (run_server_stream mx ctx vb envs buf chunks)) ->
  accepts (events_of (snd (fst (run_server_stream mx ctx vb envs buf chunks)))) = true.
Proof. exact stream_callbacks_in_order. Qed.
Print Assumptions C09_stream_callbacks_in_order.
