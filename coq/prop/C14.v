(* C14 -- no peer can hold a session or delivery attempt beyond its configured timeouts.
   PARTIAL by nature: real timers, TLS and the OS are outside the model.  What is here:
   (1) a timed model of the server session and of a relay attempt with bounds for every
       input timing; (2) obligations over gen/TimeoutTable.v, the table "blocking call
       site -> enclosing `with Timeout(...)`" that tools/timeouts_ast.py regenerates from
       /repo's current source on every build -- these are the statements that stop
       compiling when a blocking call leaves its timeout scope. *)
From Coq Require Import List NArith Bool String.
From SV Require Import lib.Bytes model.Timeouts proof.Timeouts_lemmas gen.TimeoutTable.
Import ListNotations.
Open Scope N_scope.

(* ---- `known_unguarded` (method, callee) is generated beside the table from the entries
   c14:unguarded:<method>:<callee> with status `known` of /verif/known_findings.json and
   printed below; it is the ONLY way a site is excused, so a new unguarded site breaks
   C14_table_all_guarded, and an entry flipped to `fixed` tightens it by itself.  With the
   server-side repairs (TLS handshake and every reply write bounded by command_timeout)
   nothing remains: the list is [] and the theorem is the statement without exceptions. *)
Print known_unguarded.

(* Every call that waits for the peer (connect, command/reply exchange, read, write, TLS
   handshake, subprocess, HTTP request) in SmtpRelayClient, LmtpRelayClient, Server,
   PipeRelay/MaildropRelay/DovecotLdaRelay and HttpRelayClient lies, on every call path,
   inside `with Timeout(<connect|command|data|single configured timeout>)`, except the
   sites of known_unguarded (none when that list is []). *)
Theorem C14_table_all_guarded : all_guarded known_unguarded timeout_table = true.
Proof. vm_compute. reflexivity. Qed.
Print Assumptions C14_table_all_guarded.

(* The scopes the timed models below stand for are the ones in the source: every method
   on the relay client's attempt path has one scope of the expected kind, and the
   server's two reads sit in command_timeout resp. data_timeout. *)
Theorem C14_table_model_scopes :
  path_scopes_ok timeout_table "SmtpRelayClient" = true
  /\ path_scopes_ok timeout_table "LmtpRelayClient" = true
  /\ server_scopes_ok timeout_table = true
  /\ method_scope timeout_table "PipeRelay" "_exec_process" = Some TSingle
  /\ method_scope timeout_table "MaildropRelay" "_exec_process" = Some TSingle
  /\ method_scope timeout_table "DovecotLdaRelay" "_exec_process" = Some TSingle
  /\ method_scope timeout_table "HttpRelayClient" "_handle_request" = Some TSingle.
Proof. vm_compute. repeat split; reflexivity. Qed.
Print Assumptions C14_table_model_scopes.

(* Every timeout attribute a scope reads is derived in __init__ from constructor parameters
   by a fallback chain that ends in a parameter the configuration always supplies
   (connect/command timeout, the single timeout): `self.data_timeout = data_timeout or
   command_timeout`.  Dropping the fallback leaves `Timeout(None)` scopes -- present in the
   table, bounding nothing -- and breaks this obligation. *)
Theorem C14_table_timeouts_have_fallback : timeouts_have_fallback timeout_table attr_defaults = true.
Proof. vm_compute. reflexivity. Qed.
Print Assumptions C14_table_timeouts_have_fallback.

(* Server: for EVERY input timing (any chunks, any delays, any command interpreter) the
   session ends with exactly one closing event, no later than command_timeout after the
   last completed command, resp. the (cumulative) data timeout after DATA began; when it
   ends by timeout it is exactly then. *)
Theorem C14_server_bound :
  forall (S : Type) (interp : S -> bytes -> S * action) (data_done : S -> S) (s0 : S)
         (Tc : N) (dcfg : option N) (input : list (N * bytes)),
    let cfg := {| c_cmd := Some Tc; c_data := dcfg |} in
    exists pre t w l,
      run_server S interp data_done cfg s0 input = (pre ++ [EClosed t w])%list
      /\ Forall (fun e => ev_time e <> None) pre
      /\ limit_of cfg (phase_from PCmd pre) = Some l
      /\ t <= anchor_from 0 pre + l
      /\ (w = WTimeout -> t = anchor_from 0 pre + l).
Proof. exact server_bound. Qed.
Print Assumptions C14_server_bound.

(* ... in particular a peer that trickles bytes for ever without finishing a line is cut
   off exactly command_timeout after the banner, whatever the gaps between its bytes. *)
Theorem C14_server_trickle_no_line :
  forall (S : Type) (interp : S -> bytes -> S * action) (data_done : S -> S) (s0 : S)
         (Tc : N) (dcfg : option N) (input : list (N * bytes)),
    Forall (fun dc => snd dc <> [] /\ Forall (fun b => (b =? 10) = false) (snd dc)) input ->
    run_server S interp data_done {| c_cmd := Some Tc; c_data := dcfg |} s0 input
    = [EClosed Tc WTimeout].
Proof. exact server_no_line. Qed.
Print Assumptions C14_server_trickle_no_line.

(* Client: GIVEN every stage is inside a scope, the attempt's result is delivered, for
   every behaviour of the peer (each awaited reply after any delay or never), within the
   sum of the stages' timeouts; it never blocks for ever. *)
Theorem C14_client_bound :
  forall cfg stages ds,
    forallb (stage_guarded cfg) stages = true ->
    match run_attempt cfg 0 0 stages ds with
    | CDone t | CTimedOut _ t => t <= sum_limits cfg stages
    | CStuck _ => False
    end.
Proof. intros cfg stages ds H. exact (attempt_bound cfg stages 0 0 ds H). Qed.
Print Assumptions C14_client_bound.

(* ... and without that guard it does not hold: a stage outside every scope whose
   awaited reply never comes blocks for ever. *)
Theorem C14_client_unguarded_stuck :
  forall cfg s post ds,
    scope_limit cfg (cs_scope s) = None -> cs_waits s <> O ->
    run_attempt cfg 0 0 (s :: post) (None :: ds) = CStuck 0.
Proof. intros cfg s post ds. exact (attempt_unguarded_stuck cfg s post 0 0 ds). Qed.
Print Assumptions C14_client_unguarded_stuck.

(* Client, with the scopes of the CURRENT source: an SMTP or LMTP delivery attempt
   (tls_immediately / STARTTLS / AUTH / PIPELINING on or off, any number of recipients,
   accepted or all refused, EHLO accepted or refused with 500 -> HELO fallback) returns within
   connect_timeout + (#command stages) * command_timeout + data_timeout. *)
Theorem C14_client_bound_table :
  forall (a : acfg) (cfg : ccfg) (ds : list (option N)),
    match run_attempt cfg 0 0 (stages_of timeout_table a) ds with
    | CDone t | CTimedOut _ t => t <= attempt_limit cfg a
    | CStuck _ => False
    end.
Proof.
  intros a cfg ds. apply client_bound_of_table.
  destruct (a_lmtp a) eqn:L; unfold client_class; rewrite L; vm_compute; reflexivity.
Qed.
Print Assumptions C14_client_bound_table.

(* ... for every way of configuring the client (each timeout given or omitted: omitted
   connect/command default to 10 s, an omitted data timeout falls back to the command
   timeout), so a stall in the data stage of a client configured with command_timeout only
   is cut after command_timeout. *)
Theorem C14_client_bound_config :
  forall (u : N) (r : rawcfg) (a : acfg) (ds : list (option N)),
    match run_attempt (eff_ccfg u r) 0 0 (stages_of timeout_table a) ds with
    | CDone t | CTimedOut _ t => t <= attempt_limit (eff_ccfg u r) a
    | CStuck _ => False
    end
    /\ (r_data r = None -> t_data (eff_ccfg u r) = t_command (eff_ccfg u r)).
Proof.
  intros u r a ds. split; [apply C14_client_bound_table | apply eff_data_fallback].
Qed.
Print Assumptions C14_client_bound_config.
