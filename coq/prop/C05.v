(* C05 -- Message content crosses DATA framing unchanged under any segmentation.

   Statements only; proofs are in proof/Data_lemmas.v, the model in
   model/Data.v (DataSender and DataReader of slimta/smtp, the reader after the
   repair of defect D1, see /verif/fixes/d1-datareader-eod0.diff).

   Vocabulary (model/Data.v):
     send parts            wire bytes written by DataSender(parts...).send(io)
     dr_recv None buf sock DataReader(io).recv() with io.recv_buffer = buf and a
                           socket whose recv() calls return the elements of
                           sock (b'' / exhausted = end of file); no size limit
     ROk d rb rest         recv() returned d, io.recv_buffer is rb, the socket
                           still holds rest;  RLost = ConnectionLost
     outcome r             Some (data, every unread byte) or None
     expected m            m if m is empty or ends with CRLF, else m ++ CRLF
     read_spec s           batch specification: split s at its first
                           end-of-data line, remove one leading dot per line
     dot_parts_at_bol ps   every part that starts with '.' starts at a line
                           boundary of the message (true for one part, for any
                           split at line boundaries, for any split of which no
                           later part starts with '.')
   All statements are for max_size = None (the size limit is property C09). *)
From Coq Require Import List NArith Bool.
From SV Require Import lib.Bytes model.Data proof.Data_lemmas model.DataObj proof.DataObj_lemmas.
Import ListNotations.
Open Scope N_scope.

(* Every message m = concat parts, every admissible split into sender parts,
   every trailing byte string t, every part of the wire pre-loaded in
   io.recv_buffer, every segmentation of the rest into recv() results: the
   reader returns exactly `expected m` and leaves exactly t unread. *)
Theorem C05_roundtrip : forall (parts : list bytes) (t buf : bytes) (chunks : list bytes),
  dot_parts_at_bol parts ->
  Forall (fun c => c <> []) chunks ->
  buf ++ concat chunks = send parts ++ t ->
  exists rb rest,
    dr_recv None buf chunks = ROk (expected (concat parts)) rb rest
    /\ rb ++ concat rest = t.
Proof. exact roundtrip. Qed.
Print Assumptions C05_roundtrip.

(* the quantifier of the property text: splits at line boundaries *)
Theorem C05_roundtrip_line_split : forall (parts : list bytes) (t buf : bytes) (chunks : list bytes),
  line_split parts ->
  Forall (fun c => c <> []) chunks ->
  buf ++ concat chunks = send parts ++ t ->
  exists rb rest,
    dr_recv None buf chunks = ROk (expected (concat parts)) rb rest
    /\ rb ++ concat rest = t.
Proof. intros parts t buf chunks H. apply roundtrip, line_split_ok, H. Qed.
Print Assumptions C05_roundtrip_line_split.

(* The reader consumes the stream exactly up to and including the
   end-of-data line: the pieces it took from the socket (`used`) together with
   the old buffer are the sender's bytes plus what it hands back in
   io.recv_buffer; nothing of t is lost; and it never asks the socket for
   another piece once the end-of-data line is complete (the last piece it took
   was still needed). *)
Theorem C05_exact_consumption : forall (parts : list bytes) (t buf : bytes) (chunks : list bytes)
                                       (d rb : bytes) (rest : list bytes),
  dot_parts_at_bol parts ->
  buf ++ concat chunks = send parts ++ t ->
  dr_recv None buf chunks = ROk d rb rest ->
  exists used,
    chunks = used ++ rest
    /\ buf ++ concat used = send parts ++ rb
    /\ t = rb ++ concat rest
    /\ (used = [] \/ (length (buf ++ concat (removelast used)) < length (send parts))%nat).
Proof. exact exact_consumption. Qed.
Print Assumptions C05_exact_consumption.

(* the same for an arbitrary byte stream (not necessarily written by DataSender) *)
Theorem C05_exact_consumption_any_stream : forall (buf : bytes) (chunks : list bytes)
                                                  (d rb : bytes) (rest : list bytes),
  dr_recv None buf chunks = ROk d rb rest ->
  exists used,
    chunks = used ++ rest
    /\ read_spec (buf ++ concat used) = Some (d, rb)
    /\ (used = [] \/ read_spec (buf ++ concat (removelast used)) = None).
Proof. exact consumption_any_stream. Qed.
Print Assumptions C05_exact_consumption_any_stream.

(* The result does not depend on how the stream was cut into reads, nor on how
   much of it was already in io.recv_buffer. *)
Theorem C05_segmentation_independent : forall (buf : bytes) (chunks : list bytes)
                                              (buf' : bytes) (chunks' : list bytes),
  Forall (fun c => c <> []) chunks -> Forall (fun c => c <> []) chunks' ->
  buf ++ concat chunks = buf' ++ concat chunks' ->
  outcome (dr_recv None buf chunks) = outcome (dr_recv None buf' chunks').
Proof. exact segmentation_independent. Qed.
Print Assumptions C05_segmentation_independent.

(* incremental = batch: the outcome is the batch specification applied to the
   whole stream (None = ConnectionLost: no complete end-of-data line) *)
Theorem C05_incremental_is_batch : forall (buf : bytes) (chunks : list bytes),
  Forall (fun c => c <> []) chunks ->
  outcome (dr_recv None buf chunks) = read_spec (buf ++ concat chunks).
Proof. exact dr_recv_batch. Qed.
Print Assumptions C05_incremental_is_batch.

(* what read_spec returns is what its description says *)
Theorem C05_read_spec_sound : forall (s d r : bytes),
  read_spec s = Some (d, r) ->
  exists (ls : list bytes) (e : bytes),
    s = unraw ls ++ (e ++ [10]) ++ r
    /\ forallb nolf ls = true /\ nolf e = true
    /\ forallb (fun l => negb (is_eod (l ++ [10]))) ls = true
    /\ is_eod (e ++ [10]) = true
    /\ d = concat (map (fun l => undot (l ++ [10])) ls).
Proof. exact read_spec_sound. Qed.
Print Assumptions C05_read_spec_sound.

(* Outside the guard of C05_roundtrip the sender is not transparent: a part
   that starts with '.' in the middle of a line ("a" + ".b") has that dot
   doubled by _process_part and the server receives "a..b\r\n". *)
Theorem C05_midline_dot_part_altered :
  outcome (dr_recv None [] [send [[97]; [46; 98]]]) = Some ([97; 46; 46; 98; 13; 10], [])
  /\ expected (concat [[97]; [46; 98]]) = [97; 46; 98; 13; 10].
Proof. exact midline_dot_part_altered. Qed.
Print Assumptions C05_midline_dot_part_altered.

(* Re-use of one DataSender object (model/DataObj.v): __iter__ / send build
   fresh generators from the stored parts and assign nothing, so the output is
   a function of the parts: the first and every later emission of the same
   object (iterated, sent, sent to another IO, measured and then sent) is the
   same complete wire string `send parts`, and the object is unchanged. *)
Theorem C05_sender_output_is_a_function_of_the_parts : forall (parts : list bytes) (n : nat),
  emissions (sender_new parts) n = repeat (send parts) n
  /\ (forall w, In w (emissions (sender_new parts) n) -> w = send parts)
  /\ snd (sender_send (sender_new parts)) = sender_new parts.
Proof. exact sender_output_function. Qed.
Print Assumptions C05_sender_output_is_a_function_of_the_parts.

(* hence every emission, not only the first, round-trips *)
Theorem C05_every_emission_round_trips : forall (parts : list bytes) (n : nat) (w t buf : bytes) (chunks : list bytes),
  In w (emissions (sender_new parts) n) ->
  dot_parts_at_bol parts ->
  Forall (fun c => c <> []) chunks ->
  buf ++ concat chunks = w ++ t ->
  exists rb rest,
    dr_recv None buf chunks = ROk (expected (concat parts)) rb rest
    /\ rb ++ concat rest = t.
Proof. exact every_emission_round_trips. Qed.
Print Assumptions C05_every_emission_round_trips.
