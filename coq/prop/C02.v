(* C02 - an edge acknowledges a message only after custody of every recipient is
   taken.  Statements only; proofs in proof/Edge_lemmas.v; definitions in
   model/Edge.v (which mirrors the code with the fixes d3-edge-all-results and
   d4-proxyqueue-per-recipient applied).

   Vocabulary:  bs : list wbeh   one behaviour per envelope the policy chain produced
                                 (Done d o: the write yields d times, then o; Hang: never completes)
                smtp_run / wsgi_run relay bs   = (trace, answer) of the edge on top of Queue.enqueue
                all_stored_before bs tr0       = bs is not empty, every write of bs returned an id
                                                 and its EvWriteDone is in tr0, no EvWriteFail and
                                                 no reply event is in tr0.                       *)
From Coq Require Import List NArith Bool.
From SV Require Import model.Edge proof.Edge_lemmas.
Import ListNotations.
Open Scope N_scope.

(* SMTP edge + Queue, for every number of envelopes, every failure position and
   kind and every delay: a 2xx code is the LAST event of the trace and
   everything before it contains the completion of every write. *)
Theorem C02_smtp_2xx_implies_all_stored : forall relay bs tr c,
  smtp_run relay bs = (tr, Replied c) -> class2 c = true ->
  exists tr0, tr = tr0 ++ [EvSmtpReply c] /\ all_stored_before bs tr0.
Proof. exact smtp_2xx_implies_all_stored. Qed.
Print Assumptions C02_smtp_2xx_implies_all_stored.

Theorem C02_wsgi_2xx_implies_all_stored : forall relay bs tr s,
  wsgi_run relay bs = (tr, Replied s) -> s / 100 = 2 ->
  exists tr0, tr = tr0 ++ [EvHttpStatus s] /\ all_stored_before bs tr0.
Proof. exact wsgi_2xx_implies_all_stored. Qed.
Print Assumptions C02_wsgi_2xx_implies_all_stored.

(* The same on the level of what ANY queue-like object returns (result lists of
   any length, QueueError with any attached reply, RelayError): both edges. *)
Theorem C02_results_2xx_implies_all_ids : forall rs,
  class2 (smtp_reply_of rs) = true \/ wsgi_status_of rs / 100 = 2 ->
  rs <> [] /\ forall e w, In (e, w) rs -> exists i, w = Id i.
Proof. intros rs [H|H]; [exact (smtp_2xx_results rs H)|exact (wsgi_2xx_results rs H)]. Qed.
Print Assumptions C02_results_2xx_implies_all_ids.

(* While a write has not completed nothing at all has been answered. *)
Theorem C02_blocked_write_no_reply : forall relay bs, In Hang bs ->
  snd (smtp_run relay bs) = NoReply /\ snd (wsgi_run relay bs) = NoReply /\
  (forall e, In e (fst (smtp_run relay bs)) -> is_reply_event e = false) /\
  (forall e, In e (fst (wsgi_run relay bs)) -> is_reply_event e = false).
Proof. exact blocked_write_no_reply. Qed.
Print Assumptions C02_blocked_write_no_reply.

(* Any failed write - QueueError with or without a reply of any code, an
   Exception subclass (OSError, backend client error), gevent.Timeout or any
   other BaseException-only class (GreenletExit of a killed write) - at any
   position, once all writes have completed: the client is never acknowledged.
   It gets 4xx/5xx on both edges, or - only when a write ended in a
   BaseException-only class - no answer at all because the exception leaves the
   edge (SMTP: session over, socket closed without a reply; WSGI: the
   application raises and the WSGI server answers 500).  (That no exception of
   any family is taken for a queue id is part of the 2xx theorems above: 2xx
   implies every write is `Done d WId`.) *)
Theorem C02_error_gives_4xx5xx : forall relay bs,
  ~ In Hang bs -> (exists b, In b bs /\ failed_write b = true) ->
  refused smtp_err (snd (smtp_run relay bs)) /\
  refused http_err (snd (wsgi_run relay bs)) /\
  (snd (smtp_run relay bs) = Dropped \/ snd (wsgi_run relay bs) = Dropped ->
   exists b, In b bs /\ base_only b = true).
Proof. exact error_gives_4xx5xx. Qed.
Print Assumptions C02_error_gives_4xx5xx.

Theorem C02_error_results_give_4xx5xx : forall rs,
  rs = [] \/ (exists e w, In (e, w) rs /\ is_failure w = true) ->
  is_error (smtp_reply_of rs) = true /\
  (wsgi_status_of rs / 100 = 4 \/ wsgi_status_of rs / 100 = 5).
Proof. exact error_results. Qed.
Print Assumptions C02_error_results_give_4xx5xx.

(* ProxyQueue: 2xx only if the relay call returned (before the reply) and no
   recipient of a per-recipient result failed ... *)
Theorem C02_proxy_2xx_implies_all_relayed : forall rr,
  (forall tr c, smtp_proxy_run rr = (tr, Replied c) -> class2 c = true ->
     relayed_ok rr /\ tr = [EvRelayStart; EvRelayDone; EvSmtpReply c]) /\
  (forall tr s, wsgi_proxy_run rr = (tr, Replied s) -> s / 100 = 2 ->
     relayed_ok rr /\ tr = [EvRelayStart; EvRelayDone; EvHttpStatus s]).
Proof. exact proxy_2xx_implies_all_relayed. Qed.
Print Assumptions C02_proxy_2xx_implies_all_relayed.

(* ... and every relay failure - raised, or a single recipient inside a mapping
   or sequence result - is answered 4xx/5xx. *)
Theorem C02_proxy_failure_gives_4xx5xx : forall rr, relay_failed rr ->
  (exists tr c, smtp_proxy_run rr = (tr, Replied c) /\ is_error c = true) /\
  (exists tr s, wsgi_proxy_run rr = (tr, Replied s) /\ (s / 100 = 4 \/ s / 100 = 5)).
Proof. exact proxy_failure_gives_4xx5xx. Qed.
Print Assumptions C02_proxy_failure_gives_4xx5xx.

(* Delivery attempts are started only for envelopes that are in storage. *)
Theorem C02_attempts_only_for_stored : forall relay bs k,
  In k (q_attempts (queue_enqueue relay bs)) ->
  exists d, nth_error bs (N.to_nat k) = Some (Done d WId).
Proof. exact attempts_only_for_stored. Qed.
Print Assumptions C02_attempts_only_for_stored.

(* ---- several messages in flight on one Queue (any mix of SMTP and WSGI
   clients, any schedule of their steps, policies that yield): when message i is
   answered 2xx, every envelope of message i itself has been written, earlier in
   the global trace; the answer is the one of i's own sequential run. *)
Theorem C02_concurrent_smtp_2xx_implies_own_stored : forall relay msgs sched g1 g2 i c,
  concurrent_run relay msgs sched = g1 ++ (i, EvSmtpReply c) :: g2 ->
  exists m, nth_error msgs (N.to_nat i) = Some m /\ m_edge m = ESmtp /\
    snd (smtp_run relay (m_bs m)) = Replied c /\
    (class2 c = true ->
       m_bs m <> [] /\
       forall k b, nth_error (m_bs m) k = Some b ->
         exists d, b = Done d WId /\ In (i, EvWriteDone (N.of_nat k)) g1).
Proof. exact concurrent_smtp_own. Qed.
Print Assumptions C02_concurrent_smtp_2xx_implies_own_stored.

Theorem C02_concurrent_wsgi_2xx_implies_own_stored : forall relay msgs sched g1 g2 i s,
  concurrent_run relay msgs sched = g1 ++ (i, EvHttpStatus s) :: g2 ->
  exists m, nth_error msgs (N.to_nat i) = Some m /\ m_edge m = EWsgi /\
    snd (wsgi_run relay (m_bs m)) = Replied s /\
    (s / 100 = 2 ->
       m_bs m <> [] /\
       forall k b, nth_error (m_bs m) k = Some b ->
         exists d, b = Done d WId /\ In (i, EvWriteDone (N.of_nat k)) g1).
Proof. exact concurrent_wsgi_own. Qed.
Print Assumptions C02_concurrent_wsgi_2xx_implies_own_stored.

(* Non-interference the per-client correspondence relies on: the answer given to
   message i is a function of i's own policy yields / write behaviours only -
   the same in every company (msgs, msgs') and under every schedule - and what
   message i did in a concurrent run is a prefix of its own sequential run. *)
Theorem C02_ack_depends_on_own_envelopes : forall relay msgs msgs' sched sched' i m,
  nth_error msgs (N.to_nat i) = Some m -> nth_error msgs' (N.to_nat i) = Some m ->
  (forall c, In (i, EvSmtpReply c) (concurrent_run relay msgs sched) ->
             In (i, EvSmtpReply c) (concurrent_run relay msgs' sched') ->
             snd (smtp_run relay (m_bs m)) = Replied c) /\
  (forall c c', In (i, EvSmtpReply c) (concurrent_run relay msgs sched) ->
                In (i, EvSmtpReply c') (concurrent_run relay msgs' sched') -> c = c') /\
  (forall s s', In (i, EvHttpStatus s) (concurrent_run relay msgs sched) ->
                In (i, EvHttpStatus s') (concurrent_run relay msgs' sched') -> s = s').
Proof. exact ack_depends_on_own_envelopes. Qed.
Print Assumptions C02_ack_depends_on_own_envelopes.

Theorem C02_concurrent_projection_is_own_run : forall relay msgs sched i m,
  nth_error msgs (N.to_nat i) = Some m ->
  exists rest, msg_trace relay m = project i (concurrent_run relay msgs sched) ++ rest.
Proof.
  intros relay msgs sched i m H. unfold concurrent_run.
  apply project_prefix. rewrite nth_error_map, H. reflexivity.
Qed.
Print Assumptions C02_concurrent_projection_is_own_run.

(* ---- the SMTP session in front of the hand-off (server flags + SmtpSession
   envelope under any validator verdicts): for EVERY command script - refused
   MAIL / RCPT / DATA, transactions continued after a refusal, RSET, EHLO, several
   transactions - every envelope handed to the queue holds exactly the recipients
   the CLIENT saw accepted (250 to RCPT) since its transaction began, where
   "what the client saw" is computed from the commands and reply codes alone
   (view_step).  Together with the theorems above (2xx => every envelope made
   from the handed-off one is stored) and C16 (policies conserve recipients):
   2xx => every accepted recipient is in storage. *)
Theorem C02_handoff_envelope_has_accepted_recipients : forall cs accepted envelope,
  In (accepted, envelope) (handoffs (false, []) (srun s_init cs)) -> envelope = accepted.
Proof. exact handoff_envelope_has_accepted_recipients. Qed.
Print Assumptions C02_handoff_envelope_has_accepted_recipients.
