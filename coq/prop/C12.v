(* C12 - a queued message is attempted when due, never early, and never forgotten.
   Statements only; the model is model/Queue.v (transition system of slimta.queue.Queue at
   yield-point granularity; a schedule = list of events, so "forall es" quantifies over all
   interleavings, relay outcome histories, backoff answers and clock behaviours). *)
From Coq Require Import List NArith Bool Arith Lia.
From SV Require Import model.QueuePools proof.QueuePools_lemmas.
From SV Require Import model.Queue proof.Queue_base proof.Queue_T proof.Queue_W proof.Queue_E proof.Queue_L proof.Queue_examples.
Import ListNotations.
Open Scope N_scope.

(* Never forgotten: in EVERY reachable state (any schedule, no assumption on the environment)
   every stored message is in the timetable or has a greenlet working on it: its enqueue() is
   in progress, a delivery attempt or its retry bookkeeping is in progress, a dispatched
   read of it is pending, or its removal is pending. *)
Theorem C12_not_forgotten : forall es i,
  let s := run es init in
  st_get (s_store s) i <> None ->
  In i (qids_of (s_queued s)) \/ In i (all_ids (s_tasks s)).
Proof. exact not_forgotten. Qed.
Print Assumptions C12_not_forgotten.

(* ... and with fair storage announcements and the relay contract: a stored message nobody is
   working on is in the timetable (scheduled). *)
Theorem C12_idle_message_is_scheduled : forall es i, ok_run es init ->
  let s := run es init in
  st_get (s_store s) i <> None -> ~ In i (all_ids (s_tasks s)) -> In i (qids_of (s_queued s)).
Proof. exact stored_idle_is_queued. Qed.
Print Assumptions C12_idle_message_is_scheduled.

(* Never early: every attempt caused by a timetable entry started at a clock value at or
   after that entry's due time. *)
Theorem C12_never_early : forall es a due,
  In a (g_atts (run es init)) -> a_cause a = CTimer due -> due <= a_now a.
Proof. exact never_early. Qed.
Print Assumptions C12_never_early.

(* the due time of a re-queued message is the clock value when backoff answered plus its answer *)
Theorem C12_retry_time_from_backoff : forall s i snd rcpts dl w l1 l2,
  s_tasks s = l1 ++ TRetry1 i snd rcpts dl :: l2 -> (forall t, In t l1 -> is_retry i t = false) ->
  st_get (s_store s) i <> None ->
  In (TRetry2 i rcpts dl (s_clock s + w)) (s_tasks (step s (EStep i (Some w)))).
Proof. exact retry_time_from_backoff. Qed.
Print Assumptions C12_retry_time_from_backoff.

(* Attempted when due, part 1 (no lost wake-up): whenever an entry is due the scheduler loop
   is running, already notified, or its wait has expired (EWakeup is enabled). *)
Theorem C12_due_wakes_scheduler : forall es ts i,
  let s := run es init in
  In (ts, i) (s_queued s) -> ts <= s_clock s ->
  match s_sched s with
  | SWait None => False
  | SWait (Some t) => t <= s_clock s
  | _ => True
  end.
Proof. exact due_wakes. Qed.
Print Assumptions C12_due_wakes_scheduler.

(* part 2: one iteration of the running scheduler dispatches every due entry *)
Theorem C12_tick_dispatches_due : forall es ts i,
  let s := run es init in
  s_sched s = SRun -> In (ts, i) (s_queued s) -> ts <= s_clock s ->
  let s' := step s ETick in
  ~ In (ts, i) (s_queued s') /\ mem i (s_active s') = true.
Proof. exact tick_dispatches_due. Qed.
Print Assumptions C12_tick_dispatches_due.

(* the timetable stays sorted, which is what makes the scheduler's "due prefix" complete *)
Theorem C12_timetable_sorted : forall es, sorted (s_queued (run es init)).
Proof. intro es. exact (proj1 (run_W es init init_W)). Qed.
Print Assumptions C12_timetable_sorted.

(* flush() is one atomic step (it does not wait for the scheduler loop) that empties the
   timetable and dispatches every waiting message at once *)
Theorem C12_flush_attempts_all : forall s,
  let s' := step s EFlush in
  s_queued s' = [] /\ s_qids s' = [] /\ forall e, In e (s_queued s) -> mem (snd e) (s_active s') = true.
Proof. exact flush_attempts_all. Qed.
Print Assumptions C12_flush_attempts_all.

(* a queue started over a non-empty storage (e.g. after a crash, C04): once the start-up load has
   announced the stored messages, every one of them is in the timetable and the invariant behind
   C12_not_forgotten holds, so it holds for every continuation of the restarted queue *)
Theorem C12_restart_resumes : forall st nx, (forall i, st_get st i <> None -> i < nx) ->
  let s := run (load_events st) (start st nx) in
  Tinv s /\ s_store s = st /\ forall i, st_get st i <> None -> In i (qids_of (s_queued s)).
Proof. exact restart_resumes. Qed.
Print Assumptions C12_restart_resumes.

Theorem C12_not_forgotten_after_restart : forall st nx es i, (forall j, st_get st j <> None -> j < nx) ->
  let s := run es (run (load_events st) (start st nx)) in
  st_get (s_store s) i <> None ->
  In i (qids_of (s_queued s)) \/ In i (all_ids (s_tasks s)).
Proof.
  intros st nx es i H s Hs. destruct (restart_resumes st nx H) as [T _].
  apply (t_tracked s (run_T es _ T)). exact Hs.
Qed.
Print Assumptions C12_not_forgotten_after_restart.


(* ---------- bounded store / relay pools (model/QueuePools.v: who holds which slot, who waits for which) ----------
   The queue model above has unbounded pools.  With bounded pools the property FAILS on the unchanged
   code (known finding c12:bounded-pools-deadlock, D10): the schedule below is reachable in
   Queue(store_pool=2, relay_pool=1) over a storage with wait() and ends in a state in which the
   _dequeue of message 1 holds the last store slot and waits for a relay slot while the _attempt of
   message 0 holds the only relay slot and waits for a store slot; no event is enabled any more, in
   any continuation: neither message is ever retried.  The harness drives the real Queue through this
   schedule on every run and compares the pools' free counts with the model step by step. *)
Theorem C12_bounded_pools_deadlock_refuted :
  let s := prun d10_sched d10_start in
  stuck s = true /\ ptasks s = [PWaitStore; PAttWantS 0%nat; PDeqWantR 1%nat] /\
  free_s s = Some 0%nat /\ free_r s = Some 0%nat /\ forall es, prun es s = s.
Proof. exact d10_deadlock. Qed.
Print Assumptions C12_bounded_pools_deadlock_refuted.

(* ... and it cannot happen with unbounded pools (the configuration the theorems above are about):
   whatever work is pending, some greenlet can move, after every history of events and new work *)
Theorem C12_unbounded_pools_never_stuck : forall os waits,
  stuck (pruns os (pinit None None waits)) = false.
Proof.
  intros os waits. destruct (unbounded_stays os (pinit None None waits)) as [Hs Hr]; [destruct waits; reflexivity|reflexivity|].
  apply unbounded_never_stuck; assumption.
Qed.
Print Assumptions C12_unbounded_pools_never_stuck.

(* nor with an unbounded relay pool and at least two store slots (one is taken by _wait_store) *)
Theorem C12_relay_unbounded_never_stuck : forall cs os waits, (2 <= cs)%nat ->
  stuck (pruns os (pinit (Some cs) None waits)) = false.
Proof.
  intros cs os waits H.
  assert (I : PInv cs 0%nat (pinit (Some cs) None waits)) by (apply (pinit_inv cs 0%nat waits); intros; lia).
  apply (relay_unbounded_never_stuck cs 0%nat); [exact H|apply pruns_inv; exact I|].
  clear I. generalize (pinit (Some cs) None waits) (eq_refl : free_r (pinit (Some cs) None waits) = None).
  induction os as [|o os IH]; intros s Hr; cbn; [exact Hr|]. apply IH.
  destruct o as [e|i|i]; cbn.
  - unfold pstep. destruct (enabled s e); cbn; [|exact Hr]. destruct e; cbn; rewrite ?Hr; reflexivity.
  - exact Hr.
  - unfold add_attempt. destruct (avail (free_r s)); cbn; rewrite ?Hr; reflexivity.
Qed.
Print Assumptions C12_relay_unbounded_never_stuck.

(* a stuck state always has a full pool that somebody holding a slot of the other pool waits for *)
Theorem C12_stuck_needs_full_pool : forall s, stuck s = true ->
  (exists i, In (PDeqWantR i) (ptasks s) /\ free_r s = Some 0%nat) \/
  (exists i, (In (PDeqWantS i) (ptasks s) \/ In (PAttWantS i) (ptasks s)) /\ free_s s = Some 0%nat).
Proof. exact stuck_needs_full_pool. Qed.
Print Assumptions C12_stuck_needs_full_pool.
