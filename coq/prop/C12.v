From SV Require Import model.Queue.
Theorem placeholder12 : True. Proof. exact I. Qed.
