(* Property C16 - queue policies conserve recipients and content.  Statements
   only; proofs in proof/Policy_lemmas.v, model in model/Policy.v.

   Every theorem holds for EVERY re.subn oracle `subn`, every `lower`, every
   generated header text (date_of / mid_of / recv_of), every envelope and every
   chain (list of policies: any length, order, repetitions) - also chains
   containing PSelf / PKeepSplit, two policies that return their input envelope
   among their outputs.  fresh_input e n0: the four object identities of the
   input envelope are different and below the allocation counter. *)
From Coq Require Import List NArith Bool Permutation.
From SV Require Import lib.Bytes model.Policy proof.Policy_lemmas.
Import ListNotations.
Open Scope N_scope.

Section C16.
  Variable rule : Type.
  Variable subn : rule -> bytes -> bytes * N.
  Variable lower : bytes -> bytes.
  Variable date_of mid_of recv_of : env -> bytes.
  Notation run := (run_policies rule subn lower date_of mid_of recv_of).

  (* the envelopes handed to store.write carry each (rewritten) recipient of the
     original exactly once (equality of multisets), each with the original sender
     and body; results.remove(current) never raises *)
Theorem C16_conservation : forall chain n0 e, fresh_input e n0 ->
    let s := run chain n0 e in
    failed s = false
    /\ Permutation (flat_map rcpts (results s)) (map (rw_chain rule subn chain) (rcpts e))
    /\ Forall (fun x => sender x = sender e /\ body x = body e) (results s).
  Proof. exact (conservation rule subn lower date_of mid_of recv_of). Qed.

  (* the Envelope objects, recipient lists, header objects and client dicts of all
     resulting envelopes are pairwise different objects *)
Theorem C16_no_sharing : forall chain n0 e, fresh_input e n0 ->
    NoDup (flat_map ids (results (run chain n0 e))).
  Proof. exact (no_sharing rule subn lower date_of mid_of recv_of). Qed.

  (* every resulting envelope keeps the original header list whole and in order;
     in front of it one Received per AddReceivedHeader of the chain; behind it
     Date / Message-Id exactly when absent (case-insensitively) at that point *)
Theorem C16_headers : forall chain n0 e x, fresh_input e n0 ->
    In x (results (run chain n0 e)) ->
    exists pre suf, hdr x = pre ++ hdr e ++ suf
      /\ map fst pre = repeat n_received (n_received_of rule chain)
      /\ map fst suf = appended rule chain (map fst (hdr e)).
  Proof. exact (headers_rule rule subn lower date_of mid_of recv_of). Qed.

  (* a new Received header is placed first: AddReceivedHeader puts its field on top
     of the whole header list (not on top of the existing Received block), and for
     every chain containing it - split as c1 ++ PReceived :: c2 at its LAST
     occurrence - every written envelope starts with the field that this last
     application put on top of h1, the header list as c1 had left it (earlier new
     Received fields, then ALL original fields whole and in their order wherever
     their own Received fields are, then what c1 appended); c2 only appends *)
Theorem C16_received_placed_first : forall chain n0 e x, fresh_input e n0 ->
    In PReceived chain -> In x (results (run chain n0 e)) ->
    (forall n e0, apply rule subn lower date_of mid_of recv_of PReceived n e0
                  = (set_hdr e0 ((n_received, recv_of e0) :: hdr e0), None, n))
    /\ exists c1 c2 v h1 suf,
      chain = c1 ++ PReceived :: c2 /\ existsb (is_received rule) c2 = false
      /\ hdr x = (n_received, v) :: h1 ++ suf
      /\ hdr_chain_ok rule c1 (hdr e) h1
      /\ map fst suf = appended rule c2 (n_received :: map fst h1)
      /\ exists pre1 suf1, h1 = pre1 ++ hdr e ++ suf1
           /\ map fst pre1 = repeat n_received (n_received_of rule c1)
           /\ map fst suf1 = appended rule c1 (map fst (hdr e)).
  Proof.
    intros chain n0 e x Hf Hin Hx. split; [reflexivity|].
    exact (received_placed_first rule subn lower date_of mid_of recv_of chain n0 e x Hf Hin Hx).
  Qed.

  (* Forward: the first rule with a non-empty result and changes > 0 wins ... *)
Theorem C16_forward_first_match : forall pre ru post r,
    Forall (fun q => hits rule subn q r = false) pre -> hits rule subn ru r = true ->
    fwd_rcpt rule subn (pre ++ ru :: post) r = fst (subn ru r).
  Proof. exact (forward_first_match rule subn). Qed.

  (* ... and a recipient matching no rule is left unchanged (in the same list object) *)
Theorem C16_forward_unmatched : forall rules r n e,
    (Forall (fun q => hits rule subn q r = false) rules -> fwd_rcpt rule subn rules r = r)
    /\ apply rule subn lower date_of mid_of recv_of (PForward rules) n e
       = (set_rcpts e (map (fwd_rcpt rule subn rules) (rcpts e)) (rid e), None, n).
  Proof. intros. split; [apply forward_unmatched|reflexivity]. Qed.

  (* "matched" is re.subn's substitution count, not "the text changed": a rule that
     matches the recipient (changes > 0) and reproduces the same text - an exemption
     in front of a catch-all - wins and stops the scan; whatever rules follow
     (also ones that would rewrite r), the result is r, as if they were not there *)
Theorem C16_forward_identity_match_stops : forall pre ru post r ch,
    Forall (fun q => hits rule subn q r = false) pre -> subn ru r = (r, ch) -> r <> [] -> 0 < ch ->
    fwd_rcpt rule subn (pre ++ ru :: post) r = r
    /\ fwd_rcpt rule subn (pre ++ ru :: post) r = fwd_rcpt rule subn (pre ++ [ru]) r.
  Proof. exact (forward_identity_match_stops rule subn). Qed.

  (* AddDateHeader / AddMessageIdHeader look at the presence of the field NAME
     (case-insensitively, anywhere in the block), not at its value: a field with
     ANY value v - in particular the empty one - makes the policy a no-op *)
Theorem C16_present_header_suppresses : forall nm v h1 h2 n e,
    hdr e = h1 ++ (nm, v) :: h2 ->
    (ieq nm n_date = true -> apply rule subn lower date_of mid_of recv_of PDate n e = (e, None, n))
    /\ (ieq nm n_mid = true -> apply rule subn lower date_of mid_of recv_of PMid n e = (e, None, n)).
  Proof. exact (present_suppresses rule subn lower date_of mid_of recv_of). Qed.

  (* added only when absent, for whole chains: in every written envelope the Date
     (Message-Id) fields are exactly the original ones, values untouched, when the
     original has one (present-but-empty included) ... *)
Theorem C16_date_mid_kept_when_present : forall chain n0 e x, fresh_input e n0 ->
    In x (results (run chain n0 e)) ->
    (has_header n_date (hdr e) = true -> named n_date (hdr x) = named n_date (hdr e))
    /\ (has_header n_mid (hdr e) = true -> named n_mid (hdr x) = named n_mid (hdr e)).
  Proof. exact (present_kept rule subn lower date_of mid_of recv_of). Qed.

  (* ... and when it has none there is exactly one iff the policy is in the chain,
     however often and wherever *)
Theorem C16_date_mid_added_once_when_absent : forall chain n0 e x, fresh_input e n0 ->
    In x (results (run chain n0 e)) ->
    (has_header n_date (hdr e) = false ->
       map fst (named n_date (hdr x)) = if existsb (is_date rule) chain then [n_date] else [])
    /\ (has_header n_mid (hdr e) = false ->
       map fst (named n_mid (hdr x)) = if existsb (is_mid rule) chain then [n_mid] else []).
  Proof. exact (absent_added_once rule subn lower date_of mid_of recv_of). Qed.

  (* the policies are stateless: one Queue / one list of policy objects handling any
     sequence of messages (same or different recipient lists, in any order) gives
     for each message exactly the outcome - envelopes in order, with sender,
     recipients, headers, body; results.remove never failing - that a new chain gives
     for that message alone, whatever came before it; and no two envelopes of the
     same or of different messages share an Envelope / recipient-list / header /
     client object.  (Generated header texts depend on the contents of the envelope,
     not on which objects hold them: the three premises.)  Hence conservation, the
     header rules and the forwarding rules above hold for every message of every
     sequence. *)
Theorem C16_policies_stateless : forall chain n ms,
    (forall d e, date_of (shift_env d e) = date_of e) ->
    (forall d e, mid_of (shift_env d e) = mid_of e) ->
    (forall d e, recv_of (shift_env d e) = recv_of e) ->
    map outcome (run_messages rule subn lower date_of mid_of recv_of chain n ms)
    = map (fun m => outcome (run chain 4 (mk_input 0 m))) ms
    /\ NoDup (flat_map ids (flat_map results (run_messages rule subn lower date_of mid_of recv_of chain n ms))).
  Proof.
    intros chain n ms Hd Hm Hr. split.
    - exact (stateless rule subn lower date_of mid_of recv_of Hd Hm Hr chain ms n).
    - exact (proj1 (messages_no_sharing rule subn lower date_of mid_of recv_of chain ms n)).
  Qed.

  (* configuration changes between messages (Forward.add_mapping on a policy in
     service, ...): a sequence of messages each with the chain as configured at its
     moment - Forward's rule list is whatever has been added so far.  Every message
     comes out as a NEW chain with exactly that configuration gives it alone (no
     rule list, compiled or otherwise, remembered from an earlier moment), its
     recipients are the originals rewritten by ITS rule sets, and no objects are
     shared; C16_policies_stateless is the case of an unchanging configuration *)
Theorem C16_configuration_snapshot : forall n cms,
    (forall d e, date_of (shift_env d e) = date_of e) ->
    (forall d e, mid_of (shift_env d e) = mid_of e) ->
    (forall d e, recv_of (shift_env d e) = recv_of e) ->
    let ss := run_configured rule subn lower date_of mid_of recv_of n cms in
    map outcome ss = map (fun cm => outcome (run (fst cm) 4 (mk_input 0 (snd cm)))) cms
    /\ Forall2 (fun cm s => failed s = false
                  /\ Permutation (flat_map rcpts (results s)) (map (rw_chain rule subn (fst cm)) (m_rcpts (snd cm)))
                  /\ Forall (fun x => sender x = m_sender (snd cm) /\ body x = m_body (snd cm)) (results s)) cms ss
    /\ NoDup (flat_map ids (flat_map results ss))
    /\ forall chain ms, run_messages rule subn lower date_of mid_of recv_of chain n ms
                        = run_configured rule subn lower date_of mid_of recv_of n (map (fun m => (chain, m)) ms).
  Proof.
    intros n cms Hd Hm Hr ss. split; [|split; [|split]].
    - exact (stateless_configured rule subn lower date_of mid_of recv_of Hd Hm Hr cms n).
    - exact (configured_conservation rule subn lower date_of mid_of recv_of cms n).
    - exact (proj1 (configured_no_sharing rule subn lower date_of mid_of recv_of cms n)).
    - intros chain ms. exact (messages_as_configured rule subn lower date_of mid_of recv_of chain ms n).
  Qed.

  (* policies returning their input among their outputs: returning [envelope]
     changes nothing; PKeepSplit really returns the input object (all theorems
     above cover chains with these policies) *)
Theorem C16_input_among_outputs : forall chain n0 e,
    run (PSelf :: chain) n0 e = run chain n0 e
    /\ (forall n r1 r2 rest, rcpts e = r1 :: r2 :: rest ->
          exists e' l n', apply rule subn lower date_of mid_of recv_of PKeepSplit n e = (e', Some l, n')
                          /\ In e' l /\ eid e' = eid e /\ rcpts e' = [r1]).
  Proof.
    intros. split; [apply self_is_noop_at_head|].
    intros. eapply keepsplit_returns_input; eassumption.
  Qed.
End C16.

Print Assumptions C16_conservation.
Print Assumptions C16_no_sharing.
Print Assumptions C16_headers.
Print Assumptions C16_received_placed_first.
Print Assumptions C16_forward_first_match.
Print Assumptions C16_forward_unmatched.
Print Assumptions C16_forward_identity_match_stops.
Print Assumptions C16_present_header_suppresses.
Print Assumptions C16_date_mid_kept_when_present.
Print Assumptions C16_date_mid_added_once_when_absent.
Print Assumptions C16_policies_stateless.
Print Assumptions C16_configuration_snapshot.
Print Assumptions C16_input_among_outputs.
