(* C15 - every queue storage backend behaves like the same simple store.
   Statements only; proofs in proof/Store_lemmas.v, Rounds_lemmas.v,
   Prog_lemmas.v, Disk_lemmas.v.

   ref_run     the reference store  id -> (envelope with the outstanding recipients, timestamp, attempts)
   wf_ops      the sequences the property quantifies over (updates/removes address live messages,
               marking rounds use distinct in-range indexes, get addresses any id)
   res_match   equality of results, load() lists compared as multisets
   R<backend>  the abstraction relation; it contains  view s id = rlookup r id  for every id *)
From Coq Require Import List NArith Bool Permutation.
From SV Require Import model.Store.
From SV Require Import proof.Rounds_lemmas proof.Prog_lemmas proof.Disk_lemmas proof.Store_lemmas.
Import ListNotations.
Open Scope N_scope.

(* ---- refinement, all operation sequences *)
Theorem C15_refines_dict : forall ops s r,
  RDict s r -> wf_ops r ops = true ->
  RDict (fst (dict_run s ops)) (fst (ref_run r ops)) /\
  Forall2 res_match (snd (dict_run s ops)) (snd (ref_run r ops)) /\
  forall id, dict_view (fst (dict_run s ops)) id = rlookup (fst (ref_run r ops)) id.
Proof.
  intros ops s r H Hwf. destruct (refines_dict ops s r H Hwf) as [H1 H2].
  split; [exact H1|]. split; [exact H2|]. apply (rd_view _ _ H1).
Qed.
Print Assumptions C15_refines_dict.

(* DictStorage over copy-on-access mappings (shelve): every method reads a
   copy, modifies it and assigns it back *)
Theorem C15_refines_dict_copying : forall ops s r,
  RCDict s r -> wf_ops r ops = true ->
  RCDict (fst (cdict_run true s ops)) (fst (ref_run r ops)) /\
  Forall2 res_match (snd (cdict_run true s ops)) (snd (ref_run r ops)) /\
  forall id, cdict_view (fst (cdict_run true s ops)) id = rlookup (fst (ref_run r ops)) id.
Proof.
  intros ops s r H Hwf. destruct (refines_dict_copying ops s r H Hwf) as [H1 H2].
  split; [exact H1|]. split; [exact H2|]. intros id. apply cdict_view_rep. exact H1.
Qed.
Print Assumptions C15_refines_dict_copying.

(* ... and without the assignment (the shipped set_recipients_delivered before
   d35) the update is lost on such a mapping *)
Theorem C15_dict_copying_noassign_refuted :
  exists ops, wf_ops [] ops = true /\
              ~ Forall2 res_match (snd (cdict_run false cdict_init ops)) (snd (ref_run [] ops)).
Proof. exact dict_copying_noassign_refuted. Qed.
Print Assumptions C15_dict_copying_noassign_refuted.

Theorem C15_frame_dict_copying : forall s r o j,
  RCDict s r -> wf_op r o = true -> ref_target r o <> Some j ->
  cdict_view (fst (cdict_step true s o)) j = cdict_view s j.
Proof.
  intros s r o j H Hwf Hj.
  apply (seq_frame cdstate (cdict_step true) RCDict cdict_view (fun _ _ => True)) with (r := r); try assumption; try exact I.
  - intros s0 r0 id H0. apply cdict_view_rep. exact H0.
  - intros s0 r0 o0 H0 H1 _. apply cdict_step_sim; assumption.
Qed.
Print Assumptions C15_frame_dict_copying.

Theorem C15_refines_redis : forall ops s r,
  RRedisO [] s r -> wf_ops r ops = true ->
  RRedisO [] (fst (redis_run s ops)) (fst (ref_run r ops)) /\
  Forall2 res_match (snd (redis_run s ops)) (snd (ref_run r ops)) /\
  forall id, redis_view (fst (redis_run s ops)) id = rlookup (fst (ref_run r ops)) id.
Proof.
  intros ops s r H Hwf. destruct (refines_redis ops s r H Hwf) as [H1 H2].
  split; [exact H1|]. split; [exact H2|]. intros id. apply (redis_view_rep []). exact H1.
Qed.
Print Assumptions C15_refines_redis.

(* redis with wait() calls anywhere in between (the queue consuming the
   announcement list or not): the storage operations still answer like the
   reference store - in particular load() with pending announcements *)
Theorem C15_refines_redis_wait : forall its orph s r,
  RRedisO orph s r -> items_wf orph r its ->
  (exists orph', RRedisO orph' (fst (redis_run_items s its)) (fst (ref_run r (ritem_ops its)))) /\
  Forall2 res_match (op_results its (snd (redis_run_items s its))) (snd (ref_run r (ritem_ops its))).
Proof. exact refines_redis_items. Qed.
Print Assumptions C15_refines_redis_wait.

(* half-written entries (a writer died between HSETNX envelope and the
   pipeline): every operation that stays clear of them still answers like the
   reference store and leaves them alone ... *)
Theorem C15_refines_redis_orphans : forall orph ops s r,
  RRedisO orph s r -> wf_ops r ops = true -> Forall (avoids orph) ops ->
  RRedisO orph (fst (redis_run s ops)) (fst (ref_run r ops)) /\
  Forall2 res_match (snd (redis_run s ops)) (snd (ref_run r ops)).
Proof. exact refines_redis_orphans. Qed.
Print Assumptions C15_refines_redis_orphans.

(* ... load() does not raise on them, changes nothing, lists every live message
   with its timestamp and each half-written entry with the current clock;
   get() of one returns its envelope with attempts 0; and the half-write itself
   only adds such an entry *)
Theorem C15_redis_load_with_orphans : forall orph s r now,
  RRedisO orph s r ->
  fst (run rexec (redis_prog (OLoad now)) s) = s /\
  exists l, snd (run rexec (redis_prog (OLoad now)) s) = RLoad l /\
            Permutation l (map (fun p => (en_ts (snd p), fst p)) r ++ map (fun p => (now, fst p)) orph).
Proof. exact redis_load_with_orphans. Qed.
Print Assumptions C15_redis_load_with_orphans.

Theorem C15_redis_orphan_entries : forall orph s r id e,
  RRedisO orph s r ->
  (alookup N.eqb orph id = Some e -> run rexec (redis_prog (OGet id)) s = (s, RGot e 0)) /\
  (rlookup r id = None -> alookup N.eqb orph id = None ->
   RRedisO (aset N.eqb orph id e) (fst (rexec s (QHsetnxEnv id e))) r).
Proof.
  intros orph s r id e H. split.
  - apply (redis_get_orphan orph s r); exact H.
  - apply redis_orphan_injection; exact H.
Qed.
Print Assumptions C15_redis_orphan_entries.

(* load() does not depend on the announcement list and leaves the store alone *)
Theorem C15_redis_load_ignores_announcements : forall s q now,
  snd (run rexec (redis_prog (OLoad now)) (mkRedis (r_hashes s) q)) = snd (run rexec (redis_prog (OLoad now)) s) /\
  fst (run rexec (redis_prog (OLoad now)) s) = s.
Proof. exact redis_load_queue_independent. Qed.
Print Assumptions C15_redis_load_ignores_announcements.

(* a successful write() announces (timestamp, id) at the end of the list and
   wait() hands the announcements out first in, first out, with that very id *)
Theorem C15_redis_announcements : forall s r,
  RRedisO [] s r ->
  (forall e ts cands tmps id, snd (redis_step s (OWrite e ts cands tmps)) = RId id ->
     r_queue (fst (redis_step s (OWrite e ts cands tmps))) = r_queue s ++ [(ts, id)]) /\
  (forall x q, r_queue s = x :: q -> run rexec redis_wait s = (mkRedis (r_hashes s) q, RLoad [x])).
Proof.
  intros s r H. split.
  - intros e ts cands tmps id. apply (redis_write_announces [] s r); [exact H|intros; reflexivity].
  - intros x q. apply redis_wait_fifo.
Qed.
Print Assumptions C15_redis_announcements.

Theorem C15_refines_cloud : forall mq ops s r,
  RCloud s r -> wf_ops r ops = true ->
  RCloud (fst (cloud_run mq s ops)) (fst (ref_run r ops)) /\
  Forall2 res_match (snd (cloud_run mq s ops)) (snd (ref_run r ops)) /\
  forall id, cloud_view (fst (cloud_run mq s ops)) id = rlookup (fst (ref_run r ops)) id.
Proof.
  intros mq ops s r H Hwf. destruct (refines_cloud mq ops s r H Hwf) as [H1 H2].
  split; [exact H1|]. split; [exact H2|]. intros id. apply cloud_view_rep. exact H1.
Qed.
Print Assumptions C15_refines_cloud.

(* Disk: for every pickle codec that round-trips and never produces an empty
   string, every positive chunk size and every behaviour of the asynchronous
   writes short of an error (short writes included), whenever the operations are handed
   enough temp names *)
Theorem C15_refines_disk :
  forall (enc_env : envelope -> bytes) dec_env (enc_meta : meta -> bytes) dec_meta chunk,
  (forall e, dec_env (enc_env e) = Some e) -> (forall m, dec_meta (enc_meta m) = Some m) ->
  (forall e, enc_env e <> []) -> (forall m, enc_meta m <> []) -> wcfg_ok chunk ->
  forall ops s r,
  RDisk enc_env enc_meta s r -> wf_ops r ops = true -> Forall tmps_ok ops ->
  let out := disk_run enc_env dec_env enc_meta dec_meta chunk s ops in
  RDisk enc_env enc_meta (fst out) (fst (ref_run r ops)) /\
  Forall2 res_match (snd out) (snd (ref_run r ops)) /\
  forall id, disk_view dec_env dec_meta (fst out) id = rlookup (fst (ref_run r ops)) id.
Proof.
  intros enc_env dec_env enc_meta dec_meta chunk A1 A2 A3 A4 A5 ops s r H Hwf Ht out.
  destruct (refines_disk enc_env dec_env enc_meta dec_meta chunk A1 A2 A3 A4 A5 ops s r H Hwf Ht) as [H1 H2].
  split; [exact H1|]. split; [exact H2|]. intros id.
  apply (disk_view_rep enc_env dec_env enc_meta dec_meta A1 A2). exact H1.
Qed.
Print Assumptions C15_refines_disk.

(* the codec hypotheses are satisfiable: the executable number codec *)
Theorem C15_refines_disk_numcodec : forall chunk ops,
  wcfg_ok chunk -> wf_ops [] ops = true -> Forall tmps_ok ops ->
  Forall2 res_match (snd (disk_run nc_enc_env nc_dec_env nc_enc_meta nc_dec_meta chunk [] ops)) (snd (ref_run [] ops)).
Proof.
  intros chunk ops Hc Hwf Ht.
  apply (refines_disk nc_enc_env nc_dec_env nc_enc_meta nc_dec_meta chunk nc_dec_enc_env nc_dec_enc_meta
           nc_enc_env_nonempty nc_enc_meta_nonempty Hc ops [] []); [apply RDisk_init|exact Hwf|exact Ht].
Qed.
Print Assumptions C15_refines_disk_numcodec.

Theorem C15_initial_states_related :
  RDict dict_init [] /\ RCDict cdict_init [] /\ RRedisO [] redis_init [] /\ (forall f, RCloud (cloud_init f) []) /\
  RDisk nc_enc_env nc_enc_meta [] [].
Proof. split; [apply RDict_init|]. split; [apply RCDict_init|]. split; [apply RRedis_init|]. split; [apply RCloud_init|apply RDisk_init]. Qed.
Print Assumptions C15_initial_states_related.

(* ---- what the reference store promises (hence every backend, by the theorems above) *)
Theorem C15_write_fresh : forall r e ts cands tmps r' id,
  ref_step r (OWrite e ts cands tmps) = (r', RId id) ->
  rlookup r id = None /\ In id cands /\ rlookup r' id = Some (mkEntry e ts 0).
Proof. exact ref_write_fresh. Qed.
Print Assumptions C15_write_fresh.

Theorem C15_attempts : forall r id tmps en,
  rlookup r id = Some en ->
  snd (ref_step r (OIncr id tmps)) = RAtt (en_att en + 1) /\
  rlookup (fst (ref_step r (OIncr id tmps))) id = Some (mkEntry (en_env en) (en_ts en) (en_att en + 1)).
Proof. exact ref_incr. Qed.
Print Assumptions C15_attempts.

Theorem C15_get : forall r id,
  snd (ref_step r (OGet id)) = match rlookup r id with Some en => RGot (en_env en) (en_att en) | None => RMissing end.
Proof. exact ref_get. Qed.
Print Assumptions C15_get.

Theorem C15_load_live : forall r now ts id,
  ref_ok r ->
  exists l, snd (ref_step r (OLoad now)) = RLoad l /\
            (In (ts, id) l <-> exists en, rlookup r id = Some en /\ en_ts en = ts).
Proof. exact ref_load_spec. Qed.
Print Assumptions C15_load_live.

Theorem C15_marked_absent : forall r id tmps en (p : bytes -> bool),
  rlookup r id = Some en ->
  let o := ODeliv id (positions p (e_rcpts (en_env en)) 0) tmps in
  snd (ref_step r o) = RUnit /\
  snd (ref_step (fst (ref_step r o)) (OGet id)) =
    RGot (with_rcpts (en_env en) (filter (fun x => negb (p x)) (e_rcpts (en_env en)))) (en_att en).
Proof. exact ref_marked_absent. Qed.
Print Assumptions C15_marked_absent.

Theorem C15_removed_gone : forall r id ops,
  rlookup (fst (ref_step r (ORemove id))) id = None /\
  (rlookup r id = None -> Forall (writes_avoid id) ops -> rlookup (fst (ref_run r ops)) id = None).
Proof. exact ref_removed_gone. Qed.
Print Assumptions C15_removed_gone.

(* ---- frame: an operation on one message leaves every other message as it was *)
Theorem C15_frame_dict : forall s r o j,
  RDict s r -> wf_op r o = true -> ref_target r o <> Some j ->
  dict_view (fst (dict_step s o)) j = dict_view s j.
Proof.
  intros s r o j H Hwf Hj.
  apply (seq_frame dstate dict_step RDict dict_view (fun _ _ => True)) with (r := r); try assumption; try exact I.
  - intros s0 r0 id H0. apply (rd_view _ _ H0).
  - intros s0 r0 o0 H0 H1 _. apply dict_step_sim; assumption.
Qed.
Print Assumptions C15_frame_dict.

Theorem C15_frame_redis : forall s r o j,
  RRedisO [] s r -> wf_op r o = true -> ref_target r o <> Some j ->
  redis_view (fst (redis_step s o)) j = redis_view s j.
Proof.
  intros s r o j H Hwf Hj.
  apply (seq_frame rstate redis_step (RRedisO []) redis_view (fun _ _ => True)) with (r := r); try assumption; try exact I.
  - intros s0 r0 id H0. apply (redis_view_rep []). exact H0.
  - intros s0 r0 o0 H0 H1 _. apply redis_step_sim; [assumption..|apply avoids_nil].
Qed.
Print Assumptions C15_frame_redis.

Theorem C15_frame_cloud : forall mq s r o j,
  RCloud s r -> wf_op r o = true -> ref_target r o <> Some j ->
  cloud_view (fst (cloud_step mq s o)) j = cloud_view s j.
Proof.
  intros mq s r o j H Hwf Hj.
  apply (seq_frame cstate (cloud_step mq) RCloud cloud_view (fun _ _ => True)) with (r := r); try assumption; try exact I.
  - intros s0 r0 id H0. apply cloud_view_rep. exact H0.
  - intros s0 r0 o0 H0 H1 _. apply cloud_step_sim; assumption.
Qed.
Print Assumptions C15_frame_cloud.

Theorem C15_frame_disk :
  forall (enc_env : envelope -> bytes) dec_env (enc_meta : meta -> bytes) dec_meta chunk,
  (forall e, dec_env (enc_env e) = Some e) -> (forall m, dec_meta (enc_meta m) = Some m) ->
  (forall e, enc_env e <> []) -> (forall m, enc_meta m <> []) -> wcfg_ok chunk ->
  forall s r o j,
  RDisk enc_env enc_meta s r -> wf_op r o = true -> tmps_ok o -> ref_target r o <> Some j ->
  disk_view dec_env dec_meta (fst (disk_step enc_env dec_env enc_meta dec_meta chunk s o)) j = disk_view dec_env dec_meta s j.
Proof.
  intros enc_env dec_env enc_meta dec_meta chunk A1 A2 A3 A4 A5 s r o j H Hwf Ht Hj.
  apply (seq_frame fs (disk_step enc_env dec_env enc_meta dec_meta chunk) (RDisk enc_env enc_meta)
           (disk_view dec_env dec_meta) (fun _ o => tmps_ok o)) with (r := r); try assumption.
  - intros s0 r0 id H0. apply (disk_view_rep enc_env dec_env enc_meta dec_meta A1 A2). exact H0.
  - intros s0 r0 o0 H0 H1 H2. apply disk_step_sim; assumption.
Qed.
Print Assumptions C15_frame_disk.

(* ---- frame under overlap: threads addressing different messages, EVERY schedule.
   Each thread is, as far as its own message and its own results go, some
   prefix of itself running alone; once it has finished it has produced exactly
   the sequential results; messages nobody addresses are untouched. *)
Theorem C15_frame_interleaved_redis : forall s0 (specs : list (N * list op)) sch,
  NoDup (map fst specs) -> Forall (fun sp => Forall (owns (fst sp)) (snd sp)) specs ->
  let out := sched rexec (th_next redis_prog) sch s0 (map (fun sp => th_start (snd sp)) specs) in
  (forall i id ops, nth_error specs i = Some (id, ops) ->
     exists n si th,
       asteps rexec (th_next redis_prog) n s0 (th_start ops) = (si, th) /\
       nth_error (snd out) i = Some th /\
       redis_view (fst out) id = redis_view si id /\
       (th_next redis_prog th = None ->
        map fst (th_done th) = ops /\ seq_run rstate rcmd rans rexec redis_prog s0 ops = (si, map snd (th_done th)))) /\
  (forall j, ~ In j (map fst specs) -> redis_view (fst out) j = redis_view s0 j).
Proof. exact frame_interleaved_redis. Qed.
Print Assumptions C15_frame_interleaved_redis.

Theorem C15_frame_interleaved_cloud : forall mq s0 (specs : list (N * list op)) sch,
  NoDup (map fst specs) -> Forall (fun sp => Forall (owns (fst sp)) (snd sp)) specs ->
  let out := sched cexec (th_next (cloud_prog mq)) sch s0 (map (fun sp => th_start (snd sp)) specs) in
  (forall i id ops, nth_error specs i = Some (id, ops) ->
     exists n si th,
       asteps cexec (th_next (cloud_prog mq)) n s0 (th_start ops) = (si, th) /\
       nth_error (snd out) i = Some th /\
       cloud_view (fst out) id = cloud_view si id /\
       (th_next (cloud_prog mq) th = None ->
        map fst (th_done th) = ops /\ seq_run cstate ccmd cans cexec (cloud_prog mq) s0 ops = (si, map snd (th_done th)))) /\
  (forall j, ~ In j (map fst specs) -> cloud_view (fst out) j = cloud_view s0 j).
Proof. exact frame_interleaved_cloud. Qed.
Print Assumptions C15_frame_interleaved_cloud.

Theorem C15_frame_interleaved_disk :
  forall (enc_env : envelope -> bytes) dec_env (enc_meta : meta -> bytes) dec_meta chunk
         s0 (specs : list dspec) sch,
  NoDup (map (fun sp => fst (fst sp)) specs) ->
  (forall i j spi spj t, i <> j -> nth_error specs i = Some spi -> nth_error specs j = Some spj ->
                         In t (snd (fst spi)) -> ~ In t (snd (fst spj))) ->
  Forall dspec_ok specs ->
  let dprog_of := disk_prog enc_env dec_env enc_meta dec_meta chunk in
  let out := sched dexec (th_next dprog_of) sch s0 (map (fun sp => th_start (snd sp)) specs) in
  (forall i id tmps ops, nth_error specs i = Some (id, tmps, ops) ->
     exists n si th,
       asteps dexec (th_next dprog_of) n s0 (th_start ops) = (si, th) /\
       nth_error (snd out) i = Some th /\
       fget (fst out) (PEnv id) = fget si (PEnv id) /\ fget (fst out) (PMeta id) = fget si (PMeta id) /\
       disk_view dec_env dec_meta (fst out) id = disk_view dec_env dec_meta si id /\
       (th_next dprog_of th = None ->
        map fst (th_done th) = ops /\ seq_run fs dcmd dans dexec dprog_of s0 ops = (si, map snd (th_done th)))) /\
  (forall q, (forall sp, In sp specs -> dfoot (fst (fst sp)) (snd (fst sp)) q = false) -> fget (fst out) q = fget s0 q).
Proof. intros. apply frame_interleaved_disk; assumption. Qed.
Print Assumptions C15_frame_interleaved_disk.

(* ---- load() and get() are read-only on every substrate, so threads that
   only load/get - overlapping anything, e.g. a write between its envelope and
   its meta step - are invisible to everybody else: state and the other threads
   are exactly those of the schedule without the readers' steps (to which the
   C15_frame_interleaved_* / C04 theorems apply) *)
Theorem C15_load_readonly : forall now,
  (forall s, fst (dict_step s (OLoad now)) = s) /\
  (forall s, fst (cdict_step true s (OLoad now)) = s) /\
  (forall s, fst (run rexec (redis_prog (OLoad now)) s) = s) /\
  (forall mq s, fst (run cexec (cloud_prog mq (OLoad now)) s) = s) /\
  (forall enc_env dec_env enc_meta dec_meta chunk s,
     fst (run dexec (disk_prog enc_env dec_env enc_meta dec_meta chunk (OLoad now)) s) = s).
Proof.
  intros now. split; [reflexivity|]. split; [reflexivity|]. split; [|split].
  - intros s. apply ro_prog_run. apply redis_read_ro. reflexivity.
  - intros mq s. apply ro_prog_run. apply cloud_read_ro. reflexivity.
  - intros. apply ro_prog_run. apply disk_read_ro. reflexivity.
Qed.
Print Assumptions C15_load_readonly.

Theorem C15_readers_invisible_disk :
  forall (enc_env : envelope -> bytes) dec_env (enc_meta : meta -> bytes) dec_meta chunk
         sch s (owners : list disk_thread) (reader_ops : list (list op)),
  Forall (Forall (fun o => is_read o = true)) reader_ops ->
  let dprog_of := disk_prog enc_env dec_env enc_meta dec_meta chunk in
  let own_sch := filter (fun i => Nat.ltb i (length owners)) sch in
  fst (sched dexec (th_next dprog_of) sch s (owners ++ map th_start reader_ops)) =
    fst (sched dexec (th_next dprog_of) own_sch s owners) /\
  firstn (length owners) (snd (sched dexec (th_next dprog_of) sch s (owners ++ map th_start reader_ops))) =
    snd (sched dexec (th_next dprog_of) own_sch s owners).
Proof. intros. apply readers_invisible_disk. assumption. Qed.
Print Assumptions C15_readers_invisible_disk.

Theorem C15_readers_invisible_redis : forall sch s (owners : list (thread rcmd rans)) (reader_ops : list (list op)),
  Forall (Forall (fun o => is_read o = true)) reader_ops ->
  let own_sch := filter (fun i => Nat.ltb i (length owners)) sch in
  fst (sched rexec (th_next redis_prog) sch s (owners ++ map th_start reader_ops)) =
    fst (sched rexec (th_next redis_prog) own_sch s owners) /\
  firstn (length owners) (snd (sched rexec (th_next redis_prog) sch s (owners ++ map th_start reader_ops))) =
    snd (sched rexec (th_next redis_prog) own_sch s owners).
Proof. exact readers_invisible_redis. Qed.
Print Assumptions C15_readers_invisible_redis.

Theorem C15_readers_invisible_cloud : forall mq sch s (owners : list (thread ccmd cans)) (reader_ops : list (list op)),
  Forall (Forall (fun o => is_read o = true)) reader_ops ->
  let own_sch := filter (fun i => Nat.ltb i (length owners)) sch in
  fst (sched cexec (th_next (cloud_prog mq)) sch s (owners ++ map th_start reader_ops)) =
    fst (sched cexec (th_next (cloud_prog mq)) own_sch s owners) /\
  firstn (length owners) (snd (sched cexec (th_next (cloud_prog mq)) sch s (owners ++ map th_start reader_ops))) =
    snd (sched cexec (th_next (cloud_prog mq)) own_sch s owners).
Proof. exact readers_invisible_cloud. Qed.
Print Assumptions C15_readers_invisible_cloud.

(* ---- marking rounds (the per-backend round function the queue model of C01/C03 imports) *)
(* sorted(...) of a set does not depend on the order the set is iterated in *)
Theorem C15_round_set_order : forall (a b : list N) (l : list bytes), Permutation a b -> round a l = round b l.
Proof. intros a b l. apply round_perm. Qed.
Print Assumptions C15_round_set_order.

(* k successive rounds on DictStorage: original minus settled, order preserved *)
Theorem C03_rounds_dict : forall (settles : list (bytes -> bool)) (l : list bytes),
  rounds_inplace settles l = Some (filter (unsettled settles) l).
Proof. intros. apply rounds_inplace_spec. Qed.
Print Assumptions C03_rounds_dict.

(* the same on disk/redis/cloud after the d5/d6 fixes *)
Theorem C03_rounds_accum : forall (settles : list (bytes -> bool)) (orig : list bytes),
  rounds_accum accum_mark accum_get settles orig [] = Some (filter (unsettled settles) orig).
Proof. intros. apply rounds_accum_spec. Qed.
Print Assumptions C03_rounds_accum.

(* the shipped flat accumulation (D6) did not: [a;b;c], round 1 settles a, round 2 settles c *)
Theorem C03_rounds_flat_refuted :
  exists (settles : list (N -> bool)) (orig : list N),
    rounds_accum flat_mark flat_get settles orig [] <> Some (filter (unsettled settles) orig).
Proof. exact rounds_flat_refuted. Qed.
Print Assumptions C03_rounds_flat_refuted.
