(* C18 - PROXY protocol headers are parsed exactly and never over-read.
   Statements only; proofs in proof/Proxy_lemmas.v, model in model/Proxy.v
   (slimta/util/proxyproto.py after the D19 repair).

   A socket is [mk_sock data sched]: the bytes the peer sends and a short-read
   schedule.  Every theorem quantifies over all schedules; the exactness
   theorems also over all payloads, the robustness theorems over all streams.
   IPv6 text conversion (libc inet_pton/inet_ntop) is the parameter
   [pton6]/[ntop6]; the exactness theorems assume [ip6_oracle] of it (printing
   gives <= 39 printable non-space ASCII characters that parse back), the
   robustness theorems assume nothing.  [C18_ip6_glibc] proves that assumption
   for the glibc algorithms written in model/Proxy.v - the functions the
   extracted model runs and the correspondence check compares with libc -
   and [C18_exact_model] is the instance for them. *)
From Coq Require Import List NArith Bool.
From SV Require Import lib.Bytes model.Proxy proof.Proxy_lemmas.
Import ListNotations.

(* Every well-formed v1 header (TCP4, TCP6, UNKNOWN with any ignored tail),
   any payload, any short-read schedule: process_pp_v1 returns the encoded
   source and destination, handle() passes the source on, and exactly the
   header has been consumed - the payload is what is left on the socket. *)
Theorem C18_v1_exact : forall pton6 ntop6, ip6_oracle pton6 ntop6 ->
  forall h payload sched, wf1 h = true ->
  exists s',
    process_pp_v1 pton6 ntop6 [] (mk_sock (enc_v1 ntop6 h ++ payload) sched) = (Ok (expect1 ntop6 h), s') /\
    handle_v1 pton6 ntop6 (mk_sock (enc_v1 ntop6 h ++ payload) sched) = (HAddr (fst (expect1 ntop6 h)), s') /\
    s_data s' = payload /\
    consumed (mk_sock (enc_v1 ntop6 h ++ payload) sched) s' = length (enc_v1 ntop6 h).
Proof. exact v1_exact. Qed.
Print Assumptions C18_v1_exact.

(* The same for v2 (TCP/UDP over IPv4/IPv6, UNIX, UNSPEC, LOCAL, with any TLV
   bytes inside the declared length); a LOCAL header ends in LocalConnection,
   i.e. handle() returns without calling the wrapped handler. *)
Theorem C18_v2_exact : forall ntop6 h payload sched, wf2 h = true ->
  exists s',
    process_pp_v2 ntop6 [] (mk_sock (enc_v2 h ++ payload) sched) = (expect2 ntop6 h, s') /\
    handle_v2 ntop6 (mk_sock (enc_v2 h ++ payload) sched)
      = (match expect2 ntop6 h with Ok (src, _) => HAddr src | _ => HLocal end, s') /\
    s_data s' = payload /\
    consumed (mk_sock (enc_v2 h ++ payload) sched) s' = length (enc_v2 h).
Proof. exact v2_exact. Qed.
Print Assumptions C18_v2_exact.

(* Version auto-detection (ProxyProtocol.handle): the 8-byte sniff selects the
   right parser, with the same result and the same exact consumption. *)
Theorem C18_autodetect : forall pton6 ntop6, ip6_oracle pton6 ntop6 ->
  (forall h payload sched, wf1 h = true ->
     exists s', process_auto pton6 ntop6 (mk_sock (enc_v1 ntop6 h ++ payload) sched) = (Ok (expect1 ntop6 h), s')
                /\ s_data s' = payload) /\
  (forall h payload sched, wf2 h = true ->
     exists s', process_auto pton6 ntop6 (mk_sock (enc_v2 h ++ payload) sched) = (expect2 ntop6 h, s')
                /\ s_data s' = payload).
Proof. intros pton6 ntop6 H6. split; [exact (auto_v1 pton6 ntop6 H6)|exact (auto_v2 pton6 ntop6)]. Qed.
Print Assumptions C18_autodetect.

(* For EVERY stream and schedule (and every IPv6 oracle) what a handler took
   is a prefix of the stream of at most 107 bytes (v1), 16 + the declared
   length (v2), and for the dispatcher whichever of the two its sniff selects. *)
Theorem C18_bounded : forall pton6 ntop6 s,
  (exists pre, s_data s = pre ++ s_data (snd (handle_v1 pton6 ntop6 s)) /\ (length pre <= 107)%nat) /\
  (exists pre, s_data s = pre ++ s_data (snd (handle_v2 ntop6 s)) /\ (length pre <= 16 + declared (s_data s))%nat) /\
  (exists pre, s_data s = pre ++ s_data (snd (handle_auto pton6 ntop6 s)) /\
               (length pre <= if starts_with PROXY_SP (s_data s) then 107 else 16 + declared (s_data s))%nat).
Proof.
  intros pton6 ntop6 s.
  split; [exact (bounded_v1 pton6 ntop6 s)|split; [exact (bounded_v2 ntop6 s)|exact (bounded_auto pton6 ntop6 s)]].
Qed.
Print Assumptions C18_bounded.

(* For EVERY stream and schedule handle() ends in one of: handler called with a
   parsed address, handler called with the invalid address (the module's
   AssertionError was caught), connection dropped for LOCAL.  No other
   exception leaves handle() and the reading loops terminate (the model's
   fuel is never exhausted).  ProxyProtocolV1 never drops. *)
Theorem C18_total : forall pton6 ntop6 s,
  match fst (handle_v1 pton6 ntop6 s) with HAddr _ | HInvalid _ => True | _ => False end /\
  settled (fst (handle_v2 ntop6 s)) /\
  settled (fst (handle_auto pton6 ntop6 s)).
Proof.
  intros pton6 ntop6 s.
  split; [exact (total_v1 pton6 ntop6 s)|split; [exact (total_v2 ntop6 s)|exact (total_auto pton6 ntop6 s)]].
Qed.
Print Assumptions C18_total.

(* inet_ntop6 / inet_pton6 as glibc 2.36 computes them (model/Proxy.v) satisfy
   the IPv6 assumption: for every 16-byte address the printed text has at most
   39 characters, all printable non-space ASCII, and parses back to the address. *)
Theorem C18_ip6_glibc : ip6_oracle glibc_pton6 glibc_ntop6.
Proof. exact glibc_ip6_oracle. Qed.
Print Assumptions C18_ip6_glibc.

(* Exactness for the executable model (no oracle left): v1 headers through
   ProxyProtocolV1 and through the auto-detecting ProxyProtocol. *)
Theorem C18_exact_model : forall h payload sched, wf1 h = true ->
  (exists s',
     handle_v1 glibc_pton6 glibc_ntop6 (mk_sock (enc_v1 glibc_ntop6 h ++ payload) sched)
       = (HAddr (fst (expect1 glibc_ntop6 h)), s') /\ s_data s' = payload) /\
  (exists s',
     handle_auto glibc_pton6 glibc_ntop6 (mk_sock (enc_v1 glibc_ntop6 h ++ payload) sched)
       = (HAddr (fst (expect1 glibc_ntop6 h)), s') /\ s_data s' = payload).
Proof.
  intros h payload sched Hwf. split.
  - destruct (v1_exact _ _ glibc_ip6_oracle h payload sched Hwf) as (s' & _ & Hh & Hd & _). exists s'. split; assumption.
  - destruct (auto_v1 _ _ glibc_ip6_oracle h payload sched Hwf) as (s' & Hp & Hd). exists s'. split; [|exact Hd].
    unfold handle_auto, finish. rewrite Hp. destruct (expect1 glibc_ntop6 h). reflexivity.
Qed.
Print Assumptions C18_exact_model.

(* The readers written as coroutines (one step per recv_into call, the places
   where gevent can switch to another connection; every per-call buffer is
   local to the suspended reader) compute exactly the big-step functions the
   theorems above are about. *)
Theorem C18_smallstep_refines : forall pton6 ntop6 s,
  run_proc (p_process_v1 pton6 ntop6 []) s = process_pp_v1 pton6 ntop6 [] s /\
  run_proc (p_process_v2 ntop6 []) s = process_pp_v2 ntop6 [] s /\
  run_proc (p_process_auto pton6 ntop6) s = process_auto pton6 ntop6 s.
Proof.
  intros pton6 ntop6 s.
  split; [apply run_p_process_v1|split; [apply run_p_process_v2|apply run_p_process_auto]].
Qed.
Print Assumptions C18_smallstep_refines.

(* Any number of connections served concurrently, any schedule of whose
   recv_into returns next (picks), any readers: connection j is always in the
   state of having made its own steps only, and once its reader has finished
   its result and its socket are those of running alone on its own byte stream
   and read sizes.  With C18_smallstep_refines every theorem above therefore
   holds per connection under every interleaving. *)
Theorem C18_connections_independent : forall picks cs j p s,
  nth_error cs j = Some (p, s) ->
  nth j (run_conns picks cs) (p, s) = iter_step (count_pick j picks) (p, s) /\
  (forall r s', nth_error (run_conns picks cs) j = Some (PDone r, s') -> run_proc p s = (r, s')).
Proof.
  intros picks cs j p s Hj. split.
  - assert (Hlen : (j < length cs)%nat) by (apply nth_error_Some; rewrite Hj; discriminate).
    rewrite (run_conns_nth picks cs j (p, s) Hlen).
    f_equal. exact (nth_error_nth cs j (p, s) Hj).
  - intros r s' Hr. exact (connections_independent picks cs j p s r s' Hj Hr).
Qed.
Print Assumptions C18_connections_independent.

(* handle() with the call of the wrapped handler as an explicit step, for every
   stream, schedule and EVERY behaviour of the wrapped handler [h] (returning or
   raising any exception, after reading any part of the payload): the coroutine
   does after the parser exactly [after_parse], and therefore ([called_once])
   the wrapped handler is called exactly once - with the address the parser
   produced (the invalid address (None, None) for a bad header), on the socket
   exactly as the parser left it - and handle() ends the way that one call
   ended: it returns if the handler returned, and the handler's exception
   propagates unchanged; for a LOCAL header there is no call and handle()
   returns. *)
Theorem C18_handler_called_once : forall pton6 ntop6 h s,
  (run_h (p_handle_v1 pton6 ntop6) h s = after_parse h (handle_v1 pton6 ntop6 s) /\
   called_once h (handle_v1 pton6 ntop6 s) (run_h (p_handle_v1 pton6 ntop6) h s)) /\
  (run_h (p_handle_v2 ntop6) h s = after_parse h (handle_v2 ntop6 s) /\
   called_once h (handle_v2 ntop6 s) (run_h (p_handle_v2 ntop6) h s)) /\
  (run_h (p_handle_auto pton6 ntop6) h s = after_parse h (handle_auto pton6 ntop6 s) /\
   called_once h (handle_auto pton6 ntop6 s) (run_h (p_handle_auto pton6 ntop6) h s)).
Proof.
  intros pton6 ntop6 h s. repeat split.
  - apply handle_v1_once.
  - rewrite handle_v1_once. apply after_parse_once.
    pose proof (total_v1 pton6 ntop6 s) as T. destruct (fst (handle_v1 pton6 ntop6 s)); cbn in *; tauto.
  - apply handle_v2_once.
  - rewrite handle_v2_once. apply after_parse_once. apply total_v2.
  - apply handle_auto_once.
  - rewrite handle_auto_once. apply after_parse_once. apply total_auto.
Qed.
Print Assumptions C18_handler_called_once.
