(* C19 - Relay connection pools stay within bounds and strand no request.

   Model: model/Pool.v (BlockingDeque; RelayPool as a transition system over lib/Sched.v whose
   events are chosen by an arbitrary schedule; SmtpRelayClient._run/_deliver/_rset at the level of
   the commands written per message).  [run es] executes ANY list of events (disabled events are
   no-ops), so every theorem below holds for all interleavings of attempt() calls, client start-up,
   polling, idle expiry, completion, connection failure, server-initiated timeouts (requeue) and
   client exit, with any number of attempts and clients, any pool size and idle timeout.
   Statements only; proofs in proof/Pool_lemmas.v. *)
From Coq Require Import List NArith Bool Permutation.
From SV Require Import lib.Sched model.Pool proof.Pool_lemmas.
Import ListNotations.
Open Scope N_scope.

(* never more clients (hence connections) than pool_size, in every reachable state; pool_size 0 /
   None means unbounded and is exempt *)
Theorem C19_bound : forall cfg (es : list pevent),
    1 <= size cfg -> nlen (pool (run (S := pool_sys cfg) es)) <= size cfg.
Proof. exact pool_bound. Qed.
Print Assumptions C19_bound.

(* a completed result is the result of the attempt's own envelope, and no attempt is answered
   twice - for clients that keep the contract (no EvAbandon) *)
Theorem C19_own_result : forall cfg (es : list pevent),
    Forall contract_ev es ->
    let s := run (S := pool_sys cfg) es in
    (forall r, In r (results s) ->
       In (mkReq (res_slot r) (res_env r)) (attempts s) /\
       forall a, In a (attempts s) -> r_slot a = res_slot r -> r_env a = res_env r) /\
    NoDup (map res_slot (results s)).
Proof. exact own_result. Qed.
Print Assumptions C19_own_result.

(* every attempt is in exactly one place: waiting in the queue, held by one client, or answered *)
Theorem C19_every_attempt_accounted : forall cfg (es : list pevent),
    Forall contract_ev es ->
    let s := run (S := pool_sys cfg) es in
    Permutation (attempts s) (items (q s) ++ inflight (pool s) ++ map res_req (results s)) /\
    NoDup (map r_slot (attempts s)).
Proof. exact every_attempt_accounted. Qed.
Print Assumptions C19_every_attempt_accounted.

(* nothing is stranded: in every quiescent state (no semaphore wake-up, idle timer or link
   callback pending) a waiting request implies a non-empty pool all of whose clients are alive and
   at work (about to poll, or delivering another request); no client sits in poll(), none is dead.
   Holds whatever the clients do (even if they break the contract). *)
Theorem C19_no_strand : forall cfg (es : list pevent),
    let s := run (S := pool_sys cfg) es in
    quiescent (S := pool_sys cfg) internal_ev s -> items (q s) <> [] ->
    pool s <> [] /\
    forall cl, In cl (pool s) -> c_st cl = Busy \/ exists r, c_st cl = Delivering r.
Proof. exact no_strand. Qed.
Print Assumptions C19_no_strand.

(* at every moment, not only at quiescence, a waiting request has a client in the pool *)
Theorem C19_pending_has_client : forall cfg (es : list pevent),
    let s := run (S := pool_sys cfg) es in items (q s) <> [] -> pool s <> [].
Proof. exact pending_has_client. Qed.
Print Assumptions C19_pending_has_client.

(* ... and the system is never stuck with a waiting request: some client event is enabled *)
Theorem C19_never_stuck : forall cfg (es : list pevent),
    let s := run (S := pool_sys cfg) es in
    items (q s) <> [] ->
    exists e, (match e with EvAttempt _ | EvAdvance _ => False | _ => True end) /\
              step (pool_sys cfg) s e <> None.
Proof. exact never_stuck. Qed.
Print Assumptions C19_never_stuck.

(* the executable quiescence test used by the correspondence check is the definition *)
Theorem C19_quiescent_decidable : forall cfg (es : list pevent),
    let s := run (S := pool_sys cfg) es in
    quiescent_b s = true <-> quiescent (S := pool_sys cfg) internal_ev s.
Proof.
  intros cfg es s. split; [apply quiescent_b_sound|].
  apply quiescent_b_complete. apply (inv_nodup _ _ (inv_all_schedules cfg es)).
Qed.
Print Assumptions C19_quiescent_decidable.

(* semaphore count = deque length: for the deque alone under any sequence of its methods (no call
   hits IndexError or blocks after removing), and for the pool's queue in every reachable state
   (so a woken popleft() never finds the deque empty) *)
Theorem C19_deque_sema :
    (forall l0 ops,
        cnt (fst (dq_run l0 ops)) = nlen (items (fst (dq_run l0 ops))) /\
        forallb (fun r => negb (out_is_bad r)) (snd (dq_run l0 ops)) = true) /\
    (forall cfg (es : list pevent),
        let s := run (S := pool_sys cfg) es in
        cnt (q s) = nlen (items (q s)) /\ crashed s = false).
Proof. split; [exact deque_sema | exact pool_sema]. Qed.
Print Assumptions C19_deque_sema.

(* SMTP client, any server behaviour, any number of messages on the connection, with and without
   PIPELINING: a reused connection carries one message at a time *)
Theorem C19_one_message_at_a_time : forall pipe reuse cs (polls : list poll_item),
    one_at_a_time None (run_wire pipe reuse cs polls) = true.
Proof. exact smtp_one_at_a_time. Qed.
Print Assumptions C19_one_message_at_a_time.

(* ... and after a failed transaction RSET is written before the next MAIL - for every failure
   kind: encoding, MAIL / all recipients / DATA / content rejected (reported with set_exception,
   WResult _ false) and all recipients rejected in mixed 4xx/5xx classes (_set_failure's
   rcpt_errors branch: reported as a dict of per-recipient errors, WResultRcpts); see
   smtp_mixed_rejection_example *)
Theorem C19_reset_after_failure : forall pipe reuse cs (polls : list poll_item),
    reset_after_failure false (run_wire pipe reuse cs polls) = true.
Proof. exact smtp_reset_after_failure. Qed.
Print Assumptions C19_reset_after_failure.

(* the SMTP client keeps the pool contract, so C19_own_result / C19_every_attempt_accounted apply
   to pools of SMTP clients *)
Theorem C19_smtp_client_keeps_contract : forall pipe reuse cs (polls : list poll_item) c,
    follows_contract HBusy (run_acts pipe reuse cs polls) = true /\
    Forall contract_ev (flat_map (evs_of_act c) (run_acts pipe reuse cs polls)).
Proof. exact smtp_client_contract. Qed.
Print Assumptions C19_smtp_client_keeps_contract.

(* the contract is necessary: one client that drops its request leaves an attempt unanswered in
   a quiescent, empty pool *)
Theorem C19_contract_is_needed :
  exists es, let s := run (S := pool_sys (mkCfg 1 None)) es in
    quiescent_b s = true /\ attempts s = [mkReq 0 7] /\
    items (q s) = [] /\ inflight (pool s) = [] /\ results s = [].
Proof. exact contract_is_needed. Qed.
Print Assumptions C19_contract_is_needed.

(* HTTP client (repaired: it always completes the pending result), any server behaviour, any
   number of requests: exchanges on its connection never overlap, and an exchange that broke off
   (refused, timed out, hung up) is followed by close() before the next request is written *)
Theorem C19_http_one_exchange_then_reset : forall reuse (polls : list hpoll_item),
    http_clean HClean (hrun_wire reuse polls) = true.
Proof. exact http_one_exchange_then_reset. Qed.
Print Assumptions C19_http_one_exchange_then_reset.

(* ... and it keeps the pool contract *)
Theorem C19_http_client_keeps_contract : forall reuse (polls : list hpoll_item) c,
    follows_contract HBusy (hrun_acts reuse polls) = true /\
    Forall contract_ev (flat_map (evs_of_act c) (hrun_acts reuse polls)).
Proof. exact http_client_contract. Qed.
Print Assumptions C19_http_client_keeps_contract.

(* the reply carried by a "connection lost" result (SmtpRelayClient._get_error_reply over the
   per-connection Client.last_error): it was issued during the SAME message's exchange, or it is the
   client's synthetic 421 - for every sequence of replies read on a connection in which nothing
   follows a failed read, an error reply is followed by a read of the same message (RSET after a
   failed transaction, cf. C19_reset_after_failure) and a 421 is followed by the loss of the
   connection.  (The replies inside all other results are the Reply objects of the message's own
   commands by construction of _deliver.) *)
Theorem C19_lost_result_reply_is_own : forall tr,
    wf_reads tr = true ->
    forall m src, In (m, src) (lost_sources error_source None tr) -> src = None \/ src = Some m.
Proof. exact lost_result_source_is_own. Qed.
Print Assumptions C19_lost_result_reply_is_own.

(* ... and the 421 test is needed: passing on ANY 4xx last_error hands message 1 the reply that
   deferred a recipient of message 0 *)
Theorem C19_only_a_421_may_be_passed_on :
  exists tr, wf_reads tr = true /\
             lost_sources error_source_any4xx None tr = [(1, Some 0)] /\
             lost_sources error_source None tr = [(1, None)].
Proof. exact any_4xx_is_foreign. Qed.
Print Assumptions C19_only_a_421_may_be_passed_on.

(* C19_bound rests on the check-then-add sections of RelayPool being atomic (EvAttempt and EvExit
   are single events of [pstep]): were add_client() - the client's constructor - allowed to yield
   between `len(pool) < pool_size` and `pool.add(client)`, two callers could both pass the check;
   with the two halves as separate events a pool of size 1 reaches 2 clients.  On the code the
   assumption is checked at run time (no greenlet switch inside _check_idle / _remove_client, none
   between _check_idle and queue.append). *)
Theorem C19_bound_needs_atomic_check_and_add :
  exists es, s_pool (run (S := split_sys 1) es) = 2.
Proof. exact split_check_and_add_exceeds. Qed.
Print Assumptions C19_bound_needs_atomic_check_and_add.
