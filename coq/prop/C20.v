(* Property C20 - envelope parsing keeps the body byte-exact and the headers
   intact.  Statements only; proofs are in proof/Envelope_lemmas.v, the model in
   model/Envelope.v.

   Vocabulary (model/Envelope.v):
     fs : list field          a header block of the property's class, as data
     wf_block fs = true       at least one field; names printable ASCII without ':';
                              values TAB / printable ASCII / 8-bit; every line <= 78
                              bytes; continuation lines begin with SP/TAB and are not
                              white-space only; each line ends CRLF or LF (per line)
     render fs                the bytes of the block
     hnorm_fields fs          the same fields with every line end CRLF
     blank_ok blank           blank = LF or CRLF (the empty line ending the block)
     codec_ok hparse hgen     the stated hypothesis about Python's `email` package
                              (BytesParser / BytesGenerator, policy SMTP): on render fs ++
                              blank the parser leaves no payload and the generator writes
                              render (hnorm_fields fs) ++ CRLF.  Tested by the
                              correspondence run, not proved. *)
From Coq Require Import List NArith Bool.
From SV Require Import lib.Bytes model.Envelope proof.Envelope_lemmas.
Import ListNotations.
Open Scope N_scope.

(* the boundary-search fact everything rests on: in H ++ blank ++ B, with H free
   of blank / white-space-only lines, the first match of \r?\n\s*?\n ends exactly
   after the blank line - whatever the body B is *)
Theorem C20_boundary : forall fs blank B,
  wf_block fs = true -> blank_ok blank ->
  search (render fs ++ blank ++ B) = Some (render fs ++ blank, B).
Proof. exact search_wf. Qed.
Print Assumptions C20_boundary.

(* parse then flatten: the body bytes after the first blank line unchanged (EVERY
   B: NUL, lone CR, leading blank lines, dot lines, 8-bit ...), the header fields
   in order with the same values, line ends CRLF *)
Theorem C20_body_exact :
  forall (hdr : Type) (hparse : bytes -> hdr * option bytes) (hgen : hdr -> bytes),
  codec_ok hparse hgen ->
  forall fs blank B sender rcpts,
  wf_block fs = true -> blank_ok blank ->
  flatten hdr hgen (parse hdr hparse sender rcpts (render fs ++ blank ++ B))
  = (render (hnorm_fields fs) ++ CRLF, B).
Proof. exact body_exact. Qed.
Print Assumptions C20_body_exact.

(* re-parsing the flattened output gives the same flattened output, and from
   then on the very same envelope *)
Theorem C20_fixed_point :
  forall (hdr : Type) (hparse : bytes -> hdr * option bytes) (hgen : hdr -> bytes),
  codec_ok hparse hgen ->
  forall fs blank B sender rcpts,
  wf_block fs = true -> blank_ok blank ->
  let e1 := parse hdr hparse sender rcpts (render fs ++ blank ++ B) in
  let e2 := parse hdr hparse sender rcpts (join (flatten hdr hgen e1)) in
  flatten hdr hgen e2 = flatten hdr hgen e1 /\
  parse hdr hparse sender rcpts (join (flatten hdr hgen e2)) = e2.
Proof. exact fixed_point. Qed.
Print Assumptions C20_fixed_point.

(* a deep copy of a pickled envelope flattens to the same bytes; copy replaces
   the recipients only by a non-empty list *)
Theorem C20_copy_pickle :
  forall (hdr : Type) (hparse : bytes -> hdr * option bytes) (hgen : hdr -> bytes),
  codec_ok hparse hgen ->
  forall fs blank B sender rcpts new_rcpts,
  wf_block fs = true -> blank_ok blank ->
  let e := parse hdr hparse sender rcpts (render fs ++ blank ++ B) in
  flatten hdr hgen (copy hdr (pickled hdr e) new_rcpts) = (render (hnorm_fields fs) ++ CRLF, B)
  /\ e_sender (copy hdr (pickled hdr e) new_rcpts) = sender
  /\ e_rcpts (copy hdr (pickled hdr e) new_rcpts) = (if null new_rcpts then rcpts else new_rcpts).
Proof. exact copy_pickle. Qed.
Print Assumptions C20_copy_pickle.

(* no encoder: every envelope (any codec, any content) with an 8-bit body is
   refused, and whatever passes is unchanged and ASCII *)
Theorem C20_7bit_refuses :
  forall (hdr : Type) (hparse : bytes -> hdr * option bytes) (hgen : hdr -> bytes) (e : envelope hdr),
  (has_8bit (e_message e) = true -> encode_7bit hdr hparse hgen None e = UnicodeErr) /\
  (forall e', encode_7bit hdr hparse hgen None e = Ok7 e' -> e' = e /\ has_8bit (e_message e') = false).
Proof. exact seven_refuses. Qed.
Print Assumptions C20_7bit_refuses.

(* with an encoder, ASSUMING the stdlib encoder's contract (recode = email's MIME
   re-encoding: on single-part messages it replaces Content-Transfer-Encoding and
   writes encb body; encb output is ASCII and decodes to the text): the converted
   envelope has exactly that header block and exactly encb B as body - ASCII,
   decoding to the text of B - and keeps sender and recipients; an ASCII body is
   left alone *)
Theorem C20_7bit_ascii :
  forall (hdr : Type) (hparse : bytes -> hdr * option bytes) (hgen : hdr -> bytes),
  codec_ok hparse hgen ->
  forall (recode encb decb text_of : bytes -> bytes) (cte : bytes) (singlepart : list field -> Prop),
  wf_field (cte_field cte) = true ->
  (forall fs B, wf_block fs = true -> singlepart fs ->
     recode (gen_fields fs ++ B) = gen_fields (set_cte cte fs) ++ encb B) ->
  (forall B, has_8bit (encb B) = false) ->
  (forall B, decb (encb B) = text_of B) ->
  forall fs blank B sender rcpts,
  wf_block fs = true -> singlepart fs -> blank_ok blank ->
  let e := parse hdr hparse sender rcpts (render fs ++ blank ++ B) in
  exists e', encode_7bit hdr hparse hgen (Some recode) e = Ok7 e'
    /\ e_sender e' = sender /\ e_rcpts e' = rcpts
    /\ (has_8bit B = false -> e' = e)
    /\ (has_8bit B = true ->
          flatten hdr hgen e' = (gen_fields (set_cte cte fs), encb B)
          /\ has_8bit (e_message e') = false
          /\ decb (e_message e') = text_of B).
Proof. exact seven_ascii. Qed.
Print Assumptions C20_7bit_ascii.

(* the codec hypothesis is not vacuous: the executable class codec of the model
   (parse_block / gen_fields, what the extracted model runs) satisfies it *)
Theorem C20_class_codec_ok : codec_ok hparse_c hgen_c.
Proof. exact codec_c_ok. Qed.
Print Assumptions C20_class_codec_ok.

(* Envelope._msg_generator at header granularity (first attempt with policy SMTP,
   on failure a second attempt with refold_source='none' on a FRESH buffer): for
   every pair of fold functions and every header list, what is returned is every
   stored header exactly once, in order, all rendered by one policy, then the blank
   line - on the first-attempt path and on the fallback path; it raises only when
   both policies cannot fold some header *)
Theorem C20_fallback_no_duplication :
  forall (src : Type) (fold1 fold2 : src -> option bytes) (hs : list src),
  msg_generator src fold1 fold2 hs =
  match render_all src fold1 hs with
  | Some b => GenOk (b ++ CRLF)
  | None => match render_all src fold2 hs with
            | Some b => GenOk (b ++ CRLF)
            | None => GenRaises
            end
  end.
Proof. exact no_duplication. Qed.
Print Assumptions C20_fallback_no_duplication.

(* header blocks that may hold over-long lines (xwf_block: the class without the
   78-byte bound), ASSUMING email's parser stores the fields of such a block
   (parser_ok_x): the body is exact, and the generated header block is the fields as
   email folds them when every fold succeeds, the fields as received (CRLF) when one
   raises - never a field twice *)
Theorem C20_fallback_flatten :
  forall (hparse : bytes -> list field * option bytes) (fold_smtp : field -> option bytes),
  parser_ok_x hparse ->
  forall fs blank B sender rcpts, xwf_block fs = true -> blank_ok blank ->
  let e := parse (list field) hparse sender rcpts (render fs ++ blank ++ B) in
  e_message e = B /\ e_headers e = fs /\
  msg_generator field fold_smtp (fun f => Some (fold_raw f)) (e_headers e) =
    match render_all field fold_smtp fs with
    | Some b => GenOk (b ++ CRLF)
    | None => GenOk (render (hnorm_fields fs) ++ CRLF)
    end.
Proof. exact fallback_flatten. Qed.
Print Assumptions C20_fallback_flatten.

(* Sequences of operations on ONE Envelope object (flatten, encode_7bit with / without /
   with a failing encoder, copy, pickle round trip, parse again, in-place header edits),
   any length, any order: every flatten() returns the generator's rendering of the
   headers as the earlier operations left them, and the current message - the object
   remembers nothing else (no cached header block, no "already handled" flag) *)
Theorem C20_flatten_reflects_current_state :
  forall (hdr : Type) (hparse : bytes -> hdr * option bytes) (hgen : hdr -> bytes)
         (hedit : N -> hdr -> option hdr) (ops : list op) (e : envelope hdr) (k : nat),
  nth_error ops k = Some OFlatten ->
  nth_error (trace hdr hparse hgen hedit ops e) k =
    Some (ObsFlat (hgen (e_headers (state_at hdr hparse hgen hedit k ops e)))
                  (e_message (state_at hdr hparse hgen hedit k ops e))).
Proof. exact flatten_reflects_current_state. Qed.
Print Assumptions C20_flatten_reflects_current_state.

(* in particular: flatten, edit the headers object in place, flatten again - the second
   flatten shows the edited headers *)
Theorem C20_flatten_after_edit :
  forall (hdr : Type) (hparse : bytes -> hdr * option bytes) (hgen : hdr -> bytes)
         (hedit : N -> hdr -> option hdr) (pre : list op) (j : N) (h' : hdr) (e : envelope hdr),
  let s := state_at hdr hparse hgen hedit (length pre) pre e in
  hedit j (e_headers s) = Some h' ->
  nth_error (trace hdr hparse hgen hedit (pre ++ [OFlatten; OEdit j; OFlatten]) e) (length pre + 2)
  = Some (ObsFlat (hgen h') (e_message s)).
Proof. exact flatten_after_edit. Qed.
Print Assumptions C20_flatten_after_edit.

(* encode_7bit() without an encoder refuses at EVERY call at which the body is 8-bit -
   also the second call after a refusal, after a failed encoder, on a copy or an
   unpickled envelope - and leaves the envelope as it was *)
Theorem C20_7bit_refusal_every_call :
  forall (hdr : Type) (hparse : bytes -> hdr * option bytes) (hgen : hdr -> bytes)
         (hedit : N -> hdr -> option hdr) (ops : list op) (e : envelope hdr) (k : nat),
  nth_error ops k = Some (OEncode None) ->
  has_8bit (e_message (state_at hdr hparse hgen hedit k ops e)) = true ->
  nth_error (trace hdr hparse hgen hedit ops e) k = Some ObsRefused
  /\ effect hdr hparse hgen hedit (OEncode None) (state_at hdr hparse hgen hedit k ops e)
     = state_at hdr hparse hgen hedit k ops e.
Proof. exact refusal_every_call. Qed.
Print Assumptions C20_7bit_refusal_every_call.

(* a call with an encoder that returns normally either found an ASCII body (nothing
   changed) or really converted: the envelope is the re-parse of the encoder's output *)
Theorem C20_7bit_done_means_converted :
  forall (hdr : Type) (hparse : bytes -> hdr * option bytes) (hgen : hdr -> bytes)
         (hedit : N -> hdr -> option hdr) rc (e e' : envelope hdr),
  step hdr hparse hgen hedit (OEncode rc) e = (e', ObsDone) ->
  (has_8bit (e_message e) = false /\ e' = e)
  \/ (has_8bit (e_message e) = true /\ exists f d, rc = Some f /\ f (join (flatten hdr hgen e)) = Some d
        /\ e' = parse hdr hparse (e_sender e) (e_rcpts e) d).
Proof. exact encode_done. Qed.
Print Assumptions C20_7bit_done_means_converted.
