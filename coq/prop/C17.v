From SV Require Import model.Reply.
Theorem placeholder : True. Proof. exact I. Qed.
Print Assumptions placeholder.
