(* C17 - replies survive the wire: encode/parse round trip and exact consumption.
   Statements only; proofs are in proof/Reply_lemmas.v.  udigit/uspace are the
   tables of gen/UnicodeTables.v, regenerated from the running Python's `re`. *)
From Coq Require Import List NArith Bool.
From SV Require Import lib.Bytes model.Reply gen.UnicodeTables proof.Bytes_lemmas proof.Reply_lemmas proof.Unicode_lemmas.
Import ListNotations.
Open Scope N_scope.

(* A reply built with Reply(code, text) -- code 2xx..5xx, text any valid Unicode
   string that is empty or does not begin with white space -- written with
   Reply.send, followed by arbitrary bytes t, delivered in ANY segmentation
   (part of it possibly already in recv_buffer), is parsed back by Reply.recv to
   the same code and the same text (line breaks normalised to CRLF); exactly the
   reply's bytes are consumed: what is left in recv_buffer plus the unread
   chunks is t. *)
Theorem C17_roundtrip : forall code v t buf chunks,
  code_2xx_5xx code -> valid_text v -> ns_head uspace v = true -> nonempty_chunks chunks ->
  buf ++ concat chunks = wire_of (new_reply udigit uspace code v) ++ t ->
  exists r' buf' chunks',
    reply_recv udigit uspace buf chunks = GotReply r' buf' chunks' /\
    r_code r' = code /\
    get_message r' = norm (get_message (new_reply udigit uspace code v)) /\
    buf' ++ concat chunks' = t /\ nonempty_chunks chunks'.
Proof.
  exact (reply_roundtrip udigit uspace udigit_46 udigit_48 uspace_32 uspace_10 uspace_13 digit_space_disjoint).
Qed.
Print Assumptions C17_roundtrip.

(* n pipelined replies are returned one by one, in order, nothing lost between them *)
Theorem C17_sequence : forall rs t buf chunks,
  Forall (good_reply uspace) rs -> nonempty_chunks chunks ->
  buf ++ concat chunks = concat (map (wire1 udigit uspace) rs) ++ t ->
  exists b' ch', recv_n udigit uspace (length rs) buf chunks = Some (map (shown udigit uspace) rs, b', ch')
                 /\ b' ++ concat ch' = t.
Proof.
  exact (sequence_roundtrip udigit uspace udigit_46 udigit_48 uspace_32 uspace_10 uspace_13 digit_space_disjoint).
Qed.
Print Assumptions C17_sequence.

(* The parser's result depends only on the concatenated stream, never on how it
   was cut into recv() results (incremental = batch), for every outcome. *)
Theorem C17_segmentation_independent : forall chunks code msgs buf,
  match recv_loop code msgs buf chunks with
  | ROk c body b' ch' => recv_loop code msgs (buf ++ concat chunks) [] = ROk c body (b' ++ concat ch') []
  | RBad b' ch' => recv_loop code msgs (buf ++ concat chunks) [] = RBad (b' ++ concat ch') []
  | RLost => nonempty_chunks chunks -> recv_loop code msgs (buf ++ concat chunks) [] = RLost
  end.
Proof. exact inc_batch. Qed.
Print Assumptions C17_segmentation_independent.

(* Byte level (IO.send_reply / IO.recv_reply), any three-digit code, any message bytes *)
Theorem C17_exact_consumption : forall code m t buf chunks, is_code code -> nonempty_chunks chunks ->
  buf ++ concat chunks = send_reply code m ++ t ->
  exists buf' chunks', recv_reply buf chunks = ROk code (norm m) buf' chunks' /\ buf' ++ concat chunks' = t.
Proof. exact send_recv_inc. Qed.
Print Assumptions C17_exact_consumption.

(* The enhanced status code shown by a reply always has the class of its code *)
Theorem C17_esc_class : forall r e, get_esc r = Some e ->
  hd 0 e = code_class r /\ is245 (code_class r) = true.
Proof. exact esc_class. Qed.
Print Assumptions C17_esc_class.

(* Never a partial reply: whatever was returned consumed exactly a run of complete
   reply lines with one and the same code, continuation marks on all but the last *)
Theorem C17_ok_is_wellformed : forall buf chunks c body b' ch',
  recv_reply buf chunks = ROk c body b' ch' ->
  exists pre txts, buf ++ concat chunks = unraw pre ++ b' ++ concat ch' /\
                   wf_reply_lines c pre txts /\ body = join CRLF txts.
Proof. exact ok_is_wellformed. Qed.
Print Assumptions C17_ok_is_wellformed.

(* Malformed shapes raise the bad-reply error *)
Theorem C17_nonreply_line_is_badreply : forall raw s, nolf raw -> parse_reply_line raw = None ->
  recv_loop None [] (raw ++ 10 :: s) [] = RBad s [].
Proof. exact bad_line. Qed.
Print Assumptions C17_nonreply_line_is_badreply.

Theorem C17_code_mismatch_is_badreply : forall c1 c2 l1 l2 sep2 s, is_code c1 -> is_code c2 -> c1 <> c2 ->
  nolf l1 -> nolf l2 -> is_sep sep2 = true ->
  exists rest, recv_loop None [] ((c1 ++ 45 :: l1 ++ [13]) ++ 10 :: (c2 ++ sep2 :: l2 ++ [13]) ++ 10 :: s) [] = RBad rest [].
Proof. exact code_mismatch. Qed.
Print Assumptions C17_code_mismatch_is_badreply.

Theorem C17_invalid_utf8_is_badreply : forall buf chunks c body b' ch',
  recv_reply buf chunks = ROk c body b' ch' -> utf8_dec body = None ->
  reply_recv udigit uspace buf chunks = BadReply b' ch'.
Proof. intros buf chunks c body b' ch' H U. unfold reply_recv. rewrite H, U. reflexivity. Qed.
Print Assumptions C17_invalid_utf8_is_badreply.

(* UTF-8 codec of the model is a codec *)
Theorem C17_utf8_roundtrip : forall t, valid_text t -> utf8_dec (utf8_enc t) = Some t.
Proof. exact utf8_dec_enc. Qed.
Print Assumptions C17_utf8_roundtrip.

(* Constructing a reply never raises on account of its text.  reply.py has TWO
   patterns: the message setter peels what message_esc_pattern matches and hands
   group(1) to the enhanced_status_code setter, which raises ValueError unless
   esc_pattern matches that string.  reply_ctor / set_message_chk / reply_recv_chk
   model that chain statement by statement; new_reply / reply_recv (used by the
   theorems above) store the captured pieces directly.  The two agree for EVERY
   code and text: whatever the message pattern captures, the ESC setter accepts,
   with the same pieces -- Reply(code, text) raises only for a code that
   code_pattern refuses, and Reply.recv never raises anything but BadReply /
   ConnectionLost on account of the text a peer sent. *)
Theorem C17_construction_total : forall code v,
  reply_ctor udigit uspace code v =
  if ctor_code_ok udigit code then CtorOk (new_reply udigit uspace code v) else CtorBadCode.
Proof. exact (ctor_total udigit uspace udigit_46). Qed.
Print Assumptions C17_construction_total.

Theorem C17_esc_patterns_agree : forall v k subj det rest,
  match_esc udigit uspace v = Some (k, subj, det, rest) ->
  match_esc_pattern udigit (k :: 46 :: subj ++ 46 :: det) = Some (k, subj, det).
Proof. exact (patterns_agree udigit uspace udigit_46). Qed.
Print Assumptions C17_esc_patterns_agree.

Theorem C17_recv_construction_total : forall buf chunks,
  reply_recv_chk udigit uspace buf chunks = Some (reply_recv udigit uspace buf chunks).
Proof. exact (recv_chk_total udigit uspace udigit_46). Qed.
Print Assumptions C17_recv_construction_total.

(* The enhanced-status class follows the CURRENT code, however the object was put
   together.  rops_run applies any list of setter operations (reply.code = ..,
   reply.message = .., reply.enhanced_status_code = .. / None / False; a refused
   value raises and changes nothing) to a fresh Reply().  The ESC setter stores what
   it was given; the getter takes the class from the code at read time.  So after ANY
   sequence of operations: (1) an ESC, if shown, has the class digit of the code the
   object has now; (2) if the object has a code 2xx..5xx, its ESC is not switched
   off (False: the receiving side would show its default ESC) and the texts assigned
   were valid Unicode, empty or not starting with white space, then writing it with
   Reply.send and reading it back with Reply.recv -- any segmentation, anything
   pipelined behind it -- gives the same code and the text the object showed when
   it was sent (line breaks normalised), consuming exactly its bytes. *)
Theorem C17_esc_class_follows_code : forall ops,
  let r := rops_run udigit uspace ops in
  (forall e, get_esc r = Some e -> hd 0 e = code_class r /\ is245 (code_class r) = true) /\
  (Forall (rop_ok udigit uspace) ops -> code_2xx_5xx (r_code r) -> r_esc r <> EscFalse ->
   forall t buf chunks, nonempty_chunks chunks -> buf ++ concat chunks = wire_of r ++ t ->
   exists r' buf' chunks',
     reply_recv udigit uspace buf chunks = GotReply r' buf' chunks' /\
     r_code r' = r_code r /\ get_message r' = norm (get_message r) /\
     buf' ++ concat chunks' = t /\ nonempty_chunks chunks').
Proof.
  intros ops r. split; [intros e; apply ops_esc_class|].
  intros Hok Hc Hf t buf chunks Hne Hs.
  exact (ops_roundtrip udigit uspace udigit_46 udigit_48 uspace_32 uspace_10 uspace_13 digit_space_disjoint udigit_245 ops t buf chunks Hok Hc Hf Hne Hs).
Qed.
Print Assumptions C17_esc_class_follows_code.

(* Writes and copies interleaved with the setters in any way, on ONE object.
   ROSend observes (Reply.send / IO.send_reply encodes reply.code and reply.message as
   they are at that moment and keeps nothing on the object); ROCopy o is Reply.copy(o):
   code, message and ESC assigned directly from o, no setter runs.  rops_sent lists the
   objects as they stand at the sends, rops_wire is everything written.  (1) the k-th
   write is the state reached by exactly the operations before it -- nothing of an
   earlier write or an earlier content survives; (2) an ESC shown at a write has the
   class of the code the object has at that write; (3) if every written state has a
   code 2xx..5xx and its ESC is not switched off, the receiving side reads the writes
   back one by one, in order, as the code and text of the object AT EACH WRITE, from
   any segmentation, consuming exactly what was written. *)
Theorem C17_send_reflects_current_state : forall ops,
  let sent := rops_sent udigit uspace fresh_reply ops in
  (forall pre post, ops = pre ++ ROSend :: post ->
     sent = rops_sent udigit uspace fresh_reply pre ++ rops_run udigit uspace pre ::
            rops_sent udigit uspace (rops_run udigit uspace pre) post) /\
  (forall r e, In r sent -> get_esc r = Some e -> hd 0 e = code_class r) /\
  (Forall (rop_ok udigit uspace) ops -> Forall sendable sent ->
   forall t buf chunks, nonempty_chunks chunks -> buf ++ concat chunks = rops_wire udigit uspace ops ++ t ->
   exists b' ch', recv_n udigit uspace (length sent) buf chunks = Some (map shown_of sent, b', ch') /\
                  b' ++ concat ch' = t) /\
  (* (4) writes that FAIL.  send_reply raises UnicodeEncodeError (send_chk = None: a code
     outside ASCII, a lone surrogate anywhere in the text -- first, middle or last line) before
     it puts a single byte into the send buffer: rops_out, the send buffer of the one IO all
     the writes go to, is exactly the encodings of the states whose write succeeded, for ANY
     operations; and when those states are well formed the peer reads exactly them back. *)
  (let W := filter can_encode sent in
   rops_out udigit uspace fresh_reply ops = concat (map wire_of W) /\
   (Forall (reply_inv udigit uspace) W -> Forall sendable W ->
    forall t buf chunks, nonempty_chunks chunks ->
      buf ++ concat chunks = rops_out udigit uspace fresh_reply ops ++ t ->
      exists b' ch', recv_n udigit uspace (length W) buf chunks = Some (map shown_of W, b', ch') /\
                     b' ++ concat ch' = t)).
Proof.
  intros ops sent. split; [intros pre post E; subst ops sent; apply sent_at|].
  split; [intros r e _ H; apply (esc_class r e H)|].
  split.
  - intros Hok Hsd t buf chunks Hne Hs.
    exact (sends_roundtrip udigit uspace udigit_46 udigit_48 uspace_32 uspace_10 uspace_13 digit_space_disjoint udigit_245 ops t buf chunks Hok Hsd Hne Hs).
  - split; [apply rops_out_eq|]. intros Hi Hsd t buf chunks Hne Hs.
    exact (out_roundtrip udigit uspace udigit_46 udigit_48 uspace_32 uspace_10 uspace_13 digit_space_disjoint udigit_245 ops t buf chunks Hi Hsd Hne Hs).
Qed.
Print Assumptions C17_send_reflects_current_state.

(* recv_reply keeps no state between calls but recv_buffer (the model's recv_reply is a
   function of the buffer and of what the socket still delivers, nothing else).  After a
   bad reply -- a line that is not a reply line, another code inside a multi-line reply,
   invalid UTF-8 -- at least one byte has been consumed (never the same refusal for ever),
   what is left in recv_buffer plus the unread input is a suffix of the stream, and ANY
   library-written replies that follow are returned exactly, in order, nothing of the
   refused reply glued in front. *)
Theorem C17_state_is_the_buffer : forall buf chunks b' ch',
  nonempty_chunks chunks ->
  reply_recv udigit uspace buf chunks = BadReply b' ch' ->
  (exists pre, pre <> [] /\ buf ++ concat chunks = pre ++ b' ++ concat ch') /\
  nonempty_chunks ch' /\
  forall rs t, Forall (good_reply uspace) rs -> b' ++ concat ch' = concat (map (wire1 udigit uspace) rs) ++ t ->
    exists b'' ch'', recv_n udigit uspace (length rs) b' ch' = Some (map (shown udigit uspace) rs, b'', ch'') /\
                     b'' ++ concat ch'' = t.
Proof.
  exact (bad_then_replies udigit uspace udigit_46 udigit_48 uspace_32 uspace_10 uspace_13 digit_space_disjoint).
Qed.
Print Assumptions C17_state_is_the_buffer.

(* The reply code on the wire is three ASCII digits.  reply_line_pattern is a BYTES pattern
   ([1-5]\d\d on bytes: ASCII only), so (1) whatever Reply.recv returns has a code of
   three ASCII digits, the first 1..5; (2) a line with a byte outside ASCII in one of the
   three code positions -- a UTF-8 encoded fullwidth / Arabic-Indic / Devanagari /
   mathematical digit, which the STR patterns of reply.py would call a digit -- is not a
   reply line: bad reply, the line consumed, what follows left in the buffer. *)
Theorem C17_reply_code_is_ascii :
  (forall buf chunks r b' ch', reply_recv udigit uspace buf chunks = GotReply r b' ch' -> is_code (r_code r)) /\
  (forall raw d1 d2 d3 rest s, nolf raw -> strip_cr raw = d1 :: d2 :: d3 :: rest ->
     ((128 <=? d1) || (128 <=? d2) || (128 <=? d3)) = true ->
     recv_loop None [] (raw ++ 10 :: s) [] = RBad s []).
Proof.
  split; [exact (recv_code_ascii udigit uspace)|].
  intros raw d1 d2 d3 rest s Hn E H. apply bad_line; [exact Hn|exact (non_ascii_code_line raw d1 d2 d3 rest E H)].
Qed.
Print Assumptions C17_reply_code_is_ascii.
