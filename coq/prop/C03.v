(* C03 - settled recipients are never attempted again; one attempt in flight per message. *)
From Coq Require Import List NArith Bool.
From SV Require Import model.Queue proof.Queue_base proof.Queue_S proof.Queue_L proof.Queue_examples.
Import ListNotations.
Open Scope N_scope.

(* One attempt in flight: in EVERY reachable state (any schedule, no assumption) at most one
   delivery attempt (relay call, its retry bookkeeping, or a dispatched read) exists per id. *)
Theorem C03_single_flight : forall es i, (live_count i (run es init) <= 1)%nat.
Proof. exact single_flight. Qed.
Print Assumptions C03_single_flight.

Theorem C03_no_two_relay_calls : forall es i l1 l2 l3 s1 r1 n1 s2 r2 n2,
  s_tasks (run es init) = l1 ++ TAttempt i s1 r1 n1 :: l2 ++ TAttempt i s2 r2 n2 :: l3 -> False.
Proof. exact no_two_attempts. Qed.
Print Assumptions C03_no_two_relay_calls.

(* Settled recipients are not attempted again.  Attempts are started only by enqueue() and by
   the dispatched read of a stored message ... *)
Theorem C03_attempts_started_by : forall s e a, In a (g_atts (step s e)) ->
  In a (g_atts s) \/
  (exists i snd rcpts rest, e = EEnqDone i /\ take_task (is_enq i) (s_tasks s) = Some (TEnq i snd rcpts, rest) /\
      a = mkAtt i rcpts 0 (s_clock s) CEnqueue) \/
  (exists i c rest m, e = EGet i /\ take_task (is_dequeue i) (s_tasks s) = Some (TDequeue i c, rest) /\
      st_get (s_store s) i = Some m /\ a = mkAtt i (m_rcpts m) (m_attempts m) (s_clock s) c).
Proof. exact attempts_started_by. Qed.
Print Assumptions C03_attempts_started_by.

(* ... and under the relay contract and fair announcements, in both cases every recipient
   of the attempt is unsettled (neither delivered nor failed for good) at that moment, in
   every reachable state, after any number of partial-delivery rounds. *)
Theorem C03_no_resend_enqueue : forall es i snd rcpts rest, ok_run es init ->
  let s := run es init in
  take_task (is_enq i) (s_tasks s) = Some (TEnq i snd rcpts, rest) ->
  forall r, In r rcpts -> unsettled_in s i r.
Proof. exact attempt_from_enqueue_unsettled. Qed.
Print Assumptions C03_no_resend_enqueue.

Theorem C03_no_resend_dequeue : forall es i c rest m, ok_run es init ->
  let s := run es init in
  take_task (is_dequeue i) (s_tasks s) = Some (TDequeue i c, rest) -> st_get (s_store s) i = Some m ->
  forall r, In r (m_rcpts m) -> unsettled_in s i r.
Proof. exact attempt_from_storage_unsettled. Qed.
Print Assumptions C03_no_resend_dequeue.

(* the fairness hypothesis is needed: an announcement racing the lazy removal of a delivered
   message makes the queue attempt the delivered recipient again *)
Theorem C03_unfair_announcement_refuted :
  let s := run unfair_sched init in
  In (0, 1) (g_deliv s) /\ exists l1 l2, s_tasks s = l1 ++ TAttempt 0 true [1] 0 :: l2.
Proof. exact unfair_announce_resend. Qed.
Print Assumptions C03_unfair_announcement_refuted.

(* Storage side: that k successive marking rounds leave exactly the unsettled recipients, order
   preserved, on every backend, is C03_rounds_dict / C03_rounds_accum in prop/C15.v. *)
