(* C04 - a crash at any point never loses an acknowledged message (disk queue).
   Statements only; proofs in proof/Crash_lemmas.v (and Disk_lemmas.v,
   Prog_lemmas.v, Store_lemmas.v).

   File system model and DiskStorage programs: model/Disk.v.  Process death =
   the file system after ANY schedule `sch` (every prefix of every interleaving
   of the threads is a schedule).  A thread = all operations on one message, in
   order; different threads address different messages and are handed different
   temp names.  `recover_get` / `recover_load` = get() / load() of a fresh
   DiskStorage on the surviving directories.  The pickle codec is any pair of
   functions that round-trips and never yields the empty string.
   (C04_queue_resumes - the fresh Queue's timetable - needs the queue model and
   is stated with C12/C01.) *)
From Coq Require Import List NArith Bool Lia.
From SV Require Import model.Store.
From SV Require Import proof.Prog_lemmas proof.Disk_lemmas proof.Store_lemmas proof.Crash_lemmas.
Import ListNotations.
Open Scope N_scope.

Section C04.
  Variable enc_env : envelope -> bytes.
  Variable dec_env : bytes -> option envelope.
  Variable enc_meta : meta -> bytes.
  Variable dec_meta : bytes -> option meta.
  Variable chunk : wcfg.
  Hypothesis dec_enc_env : forall e, dec_env (enc_env e) = Some e.
  Hypothesis dec_enc_meta : forall m, dec_meta (enc_meta m) = Some m.
  Hypothesis enc_env_nonempty : forall e, enc_env e <> [].
  Hypothesis enc_meta_nonempty : forall m, enc_meta m <> [].
  Hypothesis chunk_pos : wcfg_ok chunk.

  Notation dprog_of := (disk_prog enc_env dec_env enc_meta dec_meta chunk).
  Notation crashed sch s0 specs := (sched dexec (th_next dprog_of) sch s0 (map (fun sp : dspec => th_start (snd sp)) specs)).

  (* For EVERY set of threads, EVERY schedule and EVERY prefix: each thread's
     completed operations returned what the reference store returns, its meta
     file is absent or complete, and what a fresh instance sees of its message
     is the reference entry after the completed operations - or, while an
     update is in flight, possibly already the entry after that update
     (attempts: last committed or +1; delivered marks: committed or committed +
     requested; timestamp: old or new).  Files nobody addresses are untouched. *)
  Theorem C04_crash_safe : forall s0 (specs : list dspec) sch,
    NoDup (map (fun sp => fst (fst sp)) specs) ->
    (forall i j spi spj t, i <> j -> nth_error specs i = Some spi -> nth_error specs j = Some spj ->
                           In t (snd (fst spi)) -> ~ In t (snd (fst spj))) ->
    Forall (cspec_ok s0) specs ->
    let out := crashed sch s0 specs in
    (forall i id tmps ops, nth_error specs i = Some (id, tmps, ops) ->
       exists th, nth_error (snd out) i = Some th /\ crash_ok dec_env enc_meta dec_meta id (fst out) th) /\
    (forall q, (forall sp, In sp specs -> dfoot (fst (fst sp)) (snd (fst sp)) q = false) -> fget (fst out) q = fget s0 q).
  Proof. intros. apply crash_safe; assumption. Qed.

  (* the property's headline *)
  Theorem C04_acked_not_lost : forall s0 (specs : list dspec) sch,
    NoDup (map (fun sp => fst (fst sp)) specs) ->
    (forall i j spi spj t, i <> j -> nth_error specs i = Some spi -> nth_error specs j = Some spj ->
                           In t (snd (fst spi)) -> ~ In t (snd (fst spj))) ->
    Forall (cspec_ok s0) specs -> metas_ok dec_meta s0 ->
    let out := crashed sch s0 specs in
    forall i id tmps ops th, nth_error specs i = Some (id, tmps, ops) -> nth_error (snd out) i = Some th ->
    forall pre post e ts c t,
      th_done th = pre ++ (OWrite e ts c t, RId id) :: post ->          (* write() returned the id *)
      forallb (fun o => negb (is_remove o)) (map fst post) = true ->   (* no remove() completed since *)
      (forall o p, th_cur th = Some (o, p) -> is_remove o = false) ->  (* none in flight *)
      exists en, disk_view dec_env dec_meta (fst out) id = Some en /\
                 e_sender (en_env en) = e_sender e /\ e_content (en_env en) = e_content e /\
                 recover_get dec_env dec_meta (fst out) id = RGot (en_env en) (en_att en) /\
                 exists l, recover_load enc_env dec_env enc_meta dec_meta chunk (fst out) = RLoad l /\ In (en_ts en, id) l.
  Proof. intros. eapply acked_not_lost; eassumption. Qed.

  (* load() of the fresh instance never raises in a reachable crash state and
     lists exactly the ids that have an env file and a meta file *)
  Theorem C04_load_never_blocked : forall s0 (specs : list dspec) sch,
    NoDup (map (fun sp => fst (fst sp)) specs) ->
    (forall i j spi spj t, i <> j -> nth_error specs i = Some spi -> nth_error specs j = Some spj ->
                           In t (snd (fst spi)) -> ~ In t (snd (fst spj))) ->
    Forall (cspec_ok s0) specs -> metas_ok dec_meta s0 ->
    let s := fst (crashed sch s0 specs) in
    exists l, recover_load enc_env dec_env enc_meta dec_meta chunk s = RLoad l /\ NoDup l /\
              forall ts id, In (ts, id) l <->
                fget s (PEnv id) <> None /\ exists b m, fget s (PMeta id) = Some b /\ dec_meta b = Some m /\ m_ts m = ts.
  Proof. intros. apply recover_load_spec. apply crash_metas_ok; assumption. Qed.

  (* a missing meta file, a stray temp file, a half-removed pair - whatever
     happens to files other than the two of message id - never changes what is
     recovered for id *)
  Theorem C04_partial_files_harmless : forall s s' id,
    fget s' (PEnv id) = fget s (PEnv id) -> fget s' (PMeta id) = fget s (PMeta id) ->
    recover_get dec_env dec_meta s' id = recover_get dec_env dec_meta s id /\
    disk_view dec_env dec_meta s' id = disk_view dec_env dec_meta s id /\
    (metas_ok dec_meta s -> metas_ok dec_meta s' ->
     forall ts, (exists l, recover_load enc_env dec_env enc_meta dec_meta chunk s' = RLoad l /\ In (ts, id) l) <->
                (exists l, recover_load enc_env dec_env enc_meta dec_meta chunk s = RLoad l /\ In (ts, id) l)).
  Proof. intros. apply partial_files_harmless; assumption. Qed.

  (* temp -> rename atomicity of AioFile.dump: stopped after any number of its
     commands, everything but the temp file and the target is untouched and the
     target holds what it held before or the complete data (then the temp name
     is gone); at the end it holds the complete data *)
  Theorem C04_dump_atomic : forall data p t r s n,
    data <> [] -> p <> PTmp t -> fget s (PTmp t) = None ->
    let st := asteps dexec prog_next n s (dump chunk data p t (Ret r)) in
    (forall q, q <> PTmp t -> q <> p -> fget (fst st) q = fget s q) /\
    (fget (fst st) p = fget s p \/ (fget (fst st) p = Some data /\ fget (fst st) (PTmp t) = None)) /\
    match snd st with
    | Ret _ => fget (fst st) p = Some data /\ fget (fst st) (PTmp t) = None
    | Do _ _ => True
    end.
  Proof. intros. apply dump_atomic; assumption. Qed.

  (* Abort with unwinding: at any point every operation in flight gets an
     exception instead of its next command and its except/finally clauses run
     (cleanup_of: the `finally: os.close(fd)` of AioFile.dump).  The file system
     afterwards is the one a kill at that point leaves, so every statement
     above about `fst (crashed sch s0 specs)` holds for the aborted state too. *)
  Theorem C04_abort_equals_crash : forall s0 (specs : list dspec) sch,
    let out := crashed sch s0 specs in
    abort_all (fst out) (snd out) = fst out /\
    (forall th c, In th (snd out) -> In c (th_cleanup th) -> exists t, c = CClose t).
  Proof.
    intros s0 specs sch out. split; [apply abort_equals_crash|].
    intros th c _ Hc. unfold th_cleanup in Hc. destruct (th_cur th) as [[o p]|]; [|destruct Hc].
    eapply cleanup_closes. exact Hc.
  Qed.
End C04.

(* Short writes and write errors.  The theorems above hold for every behaviour
   of the asynchronous writes that never reports an error (wcfg_ok: an
   aio_write may store fewer bytes than asked, any number of times - the loop
   continues at offset + ret).  And whatever the writes do, errors included:
   AioFile.dump stopped after any number of commands has left everything but
   its temp file and its target alone, the target holds what it held before or
   the complete data, and if dump ends with the IOError the target is untouched
   - a truncated file is never published. *)
Theorem C04_dump_complete_despite_short_writes : forall (cfg : wcfg) data p t r s n,
  w_chunk cfg <> O -> data <> [] -> p <> PTmp t -> fget s (PTmp t) = None ->
  let st := asteps dexec prog_next n s (dump cfg data p t (Ret r)) in
  (forall q, q <> PTmp t -> q <> p -> fget (fst st) q = fget s q) /\
  (fget (fst st) p = fget s p \/ (fget (fst st) p = Some data /\ fget (fst st) (PTmp t) = None)) /\
  match snd st with
  | Ret x => (x = r /\ fget (fst st) p = Some data /\ fget (fst st) (PTmp t) = None) \/
             (x = REmptyWrite /\ fget (fst st) p = fget s p)
  | Do _ _ => True
  end.
Proof. intros. apply dump_complete_despite_short_writes; assumption. Qed.
Print Assumptions C04_dump_complete_despite_short_writes.

Print Assumptions C04_crash_safe.
Print Assumptions C04_acked_not_lost.
Print Assumptions C04_load_never_blocked.
Print Assumptions C04_partial_files_harmless.
Print Assumptions C04_dump_atomic.
Print Assumptions C04_abort_equals_crash.

(* the hypotheses are satisfiable: the executable number codec, two concrete threads *)
Theorem C04_numcodec_instance : forall sch,
  let specs : list dspec :=
    [(1, [1; 2; 3], [OWrite (mkEnv [97] [[98]; [99]] [100; 101]) 5 [1] [1; 2]; OIncr 1 [3]; ODeliv 1 [0] [1]]);
     (2, [4; 5], [OWrite (mkEnv [] [[98]] [102]) 6 [2] [4; 5]; OSetTs 2 9 [4]; ORemove 2])] in
  let cfg := mkW 4 (fun t off n => Some (Nat.div2 (S n))) in      (* every write of >= 2 bytes is short *)
  let out := sched dexec (th_next (disk_prog nc_enc_env nc_dec_env nc_enc_meta nc_dec_meta cfg)) sch []
                   (map (fun sp : dspec => th_start (snd sp)) specs) in
  exists l, recover_load nc_enc_env nc_dec_env nc_enc_meta nc_dec_meta cfg (fst out) = RLoad l.
Proof.
  intros sch specs cfg out.
  assert (Hnd : NoDup (map (fun sp : dspec => fst (fst sp)) specs)).
  { cbn. repeat constructor; cbn; intuition discriminate. }
  assert (Htd : forall i j (spi spj : dspec) t, i <> j -> nth_error specs i = Some spi -> nth_error specs j = Some spj ->
                                 In t (snd (fst spi)) -> ~ In t (snd (fst spj))).
  { intros i j spi spj t Hne Hi Hj Ht Ht'.
    destruct i as [|[|i]]; destruct j as [|[|j]]; cbn in Hi, Hj; try congruence;
      try (destruct i; discriminate); try (destruct j; discriminate);
      inversion Hi; inversion Hj; subst; cbn in Ht, Ht'; intuition (subst; discriminate). }
  assert (Hok : Forall (cspec_ok []) specs).
  { constructor; [|constructor; [|constructor]]; unfold cspec_ok; (split; [reflexivity|]); (split; [reflexivity|]);
      (split; [intros; reflexivity|]); (split; [vm_compute; reflexivity|]);
      repeat (apply Forall_cons;
              [split; [cbn; reflexivity|split; [intros t Ht; cbn in Ht |- *; tauto|cbn; first [lia|exact I]]]|]);
      apply Forall_nil. }
  assert (Hcfg : wcfg_ok cfg) by (split; [discriminate|intros t off n; discriminate]).
  destruct (C04_load_never_blocked nc_enc_env nc_dec_env nc_enc_meta nc_dec_meta cfg nc_dec_enc_env nc_dec_enc_meta
              nc_enc_env_nonempty nc_enc_meta_nonempty Hcfg [] specs sch Hnd Htd Hok) as (l & El & _).
  { intros id b E. discriminate. }
  exists l. exact El.
Qed.
Print Assumptions C04_numcodec_instance.
