(* C13 - Failed mail yields exactly one bounce to the sender and bounces never loop.
   Statements only; proofs in proof/Bounce_lemmas.v; model in model/Bounce.v. *)
From Coq Require Import List NArith Bool Permutation.
From SV Require Import lib.Val lib.Bytes model.Reply model.Bounce proof.Bounce_lemmas.
Import ListNotations.
Open Scope N_scope.

(* Queue._split_by_reply, for ALL lists of (recipient, failure reply): the
   groups are a partition of the failed recipients by reply equality
   (Reply.__eq__ = equal (code, message)), one group per distinct reply,
   recipients in their original order, groups in order of first appearance. *)
Theorem C13_groups_partition : forall fails : list (text * freply),
  let gs := split_by_reply fails in
  (forall r l, In (r, l) gs -> l = with_reply r fails /\ l <> []) /\
  NoDup (gkeys gs) /\
  (forall rc r, In (rc, r) fails -> exists r0 l, In (r0, l) gs /\ freply_eqb r r0 = true) /\
  map fst gs = firsts (map snd fails) /\
  Permutation (map fst fails) (concat (map snd gs)).
Proof. exact groups_partition. Qed.
Print Assumptions C13_groups_partition.

(* Which bounces one failed attempt creates (sender non-empty): exactly one per
   group of permanently failed recipients and - when backoff gives up - one
   per group of transiently failed recipients, with the retry marker. *)
Theorem C13_dispatch_bounces : forall udigit uspace e o bo,
  e_sender e <> [] ->
  bounces_of (dispatch udigit uspace e o bo) = spec_bounces udigit uspace e o bo.
Proof. exact dispatch_bounces. Qed.
Print Assumptions C13_dispatch_bounces.

(* Bounce(envelope, reply[, headers_only]) with the default templates. *)
Theorem C13_bounce_shape : forall e r ho u b,
  bounce_new default_hp default_fp e r ho u = Some b ->
  b_sender b = [] /\ b_rcpts b = [e_sender e] /\
  exists sb cb m mb di pre,
    enc_utf8 (e_sender e) = Some sb /\ enc_utf8 (r_code (fr r)) = Some cb /\
    msg_opt r = Some m /\ enc_utf8 m = Some mb /\ delivery_info e r = Some di /\
    b_hdr b ++ pre = top_header sb (boundary_of u) /\
    b_msg b = pre ++
      text_part (boundary_of u) (join rcpt_join (map enc_xmlref (e_rcpts e))) cb mb di (ctype_of ho) ++
      e_hdr e ++ (if ho then [] else e_body e) ++ closing (boundary_of u) /\
    (no_lf (e_sender e) = true -> no_lf u = true -> pre = []).
Proof. exact bounce_shape. Qed.
Print Assumptions C13_bounce_shape.

(* D24, made explicit: a reply whose message is None never yields a bounce,
   whatever the templates. *)
Theorem C13_none_message_no_bounce : forall hp fp e r ho u,
  fr_none r = true -> bounce_new hp fp e r ho u = None.
Proof. exact none_message_no_bounce. Qed.
Print Assumptions C13_none_message_no_bounce.

(* The null-sender guard: no outcome of an attempt of a message without sender
   spawns a bounce. *)
Theorem C13_no_sender_no_bounce : forall udigit uspace e o bo,
  e_sender e = [] -> bounces_of (dispatch udigit uspace e o bo) = [].
Proof. exact no_sender_no_bounce. Qed.
Print Assumptions C13_no_sender_no_bounce.

(* Over any run (any list of failure events on any messages, any outcomes,
   backoff answers, enqueue failures): every message beyond the originals is a
   bounce (null sender) whose parent is an original with a sender; hence
   #messages = #originals + #bounces of originals, and a bounce is never
   bounced. *)
Theorem C13_no_loop : forall udigit uspace c origs evs,
  factory_null (c_factory c) ->
  exists bs, msgs (run_events udigit uspace c origs evs) = map orig_msg origs ++ bs /\
             Forall (bounce_of_original origs) bs.
Proof. intros udigit uspace c origs evs H. exact (no_loop udigit uspace c origs H evs). Qed.
Print Assumptions C13_no_loop.

(* Messages come into existence only through queue.enqueue, and every bounce
   is enqueued on the configured bounce queue. *)
Theorem C13_via_enqueue : forall udigit uspace c origs evs,
  let st := run_events udigit uspace c origs evs in
  msgs st = enq_ok (trace st) /\
  (forall q e p ok, In (TEnqueue q e (Some p) ok) (trace st) -> q = c_sepq c).
Proof. intros udigit uspace c origs evs. exact (via_enqueue udigit uspace c origs evs). Qed.
Print Assumptions C13_via_enqueue.

(* The relay may report per-recipient results as a mapping in any key order
   (Relay.attempt promises none).  Permuting the mapping does not change
   whether _handle_partial_relay raises, and the groups built from the
   transient and from the permanent failures are the same up to the order of
   the groups and of the recipients inside a group: same number of groups,
   every group has a counterpart with an equal reply and the same recipients. *)
Theorem C13_groups_invariant_under_mapping_order : forall rcpts items items' dl tf pf,
  Permutation items items' ->
  classify rcpts items [] [] [] = Some (dl, tf, pf) ->
  exists dl' tf' pf',
    classify rcpts items' [] [] [] = Some (dl', tf', pf') /\
    groups_equiv (split_by_reply tf) (split_by_reply tf') /\
    groups_equiv (split_by_reply pf) (split_by_reply pf').
Proof. exact groups_invariant_under_mapping_order. Qed.
Print Assumptions C13_groups_invariant_under_mapping_order.

(* Totality of the rendering: for EVERY reply text, sender and client name /
   address that are Unicode text (any characters, 1- to 4-byte in UTF-8; the
   only exclusion is a lone surrogate, which Python cannot encode either), a
   str message (D24 excluded) and an ASCII code, the bounce IS built, is
   addressed to the original sender and quotes code and reply text, UTF-8
   encoded, in front of the embedded original. *)
Theorem C13_bounce_built_for_every_reply_text : forall e r ho u,
  env_texts_ok e -> reply_texts_ok r ->
  exists b pre di,
    bounce_new default_hp default_fp e r ho u = Some b /\
    b_sender b = [] /\ b_rcpts b = [e_sender e] /\
    b_msg b = pre ++
      text_part (boundary_of u) (join rcpt_join (map enc_xmlref (e_rcpts e)))
                (utf8_enc (r_code (fr r))) (utf8_enc (get_message (fr r))) di (ctype_of ho) ++
      e_hdr e ++ (if ho then [] else e_body e) ++ closing (boundary_of u).
Proof. exact bounce_built. Qed.
Print Assumptions C13_bounce_built_for_every_reply_text.
