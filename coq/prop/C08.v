(* C08 - nothing crosses the STARTTLS boundary; AUTH only when permitted.
   Statements only; proofs in proof/Tls_lemmas.v; model in model/Tls.v (which extends
   model/Server.v).  `mechs` (pysasl's mechanism table), the environment `nv` (validator
   verdicts, handoff results, handshake outcome), the configuration, the fuel (number of lines
   looked at) and the wire (the chunks the plain socket and the TLS socket deliver, i.e. every
   byte string pipelined anywhere) are universally quantified in every theorem.
   A session run is the list of its steps (state before, output, state after), one step per
   line taken from recv_buffer (command line, AUTH answer line, line of message content). *)
From Coq Require Import List NArith Bool.
From SV Require Import lib.Bytes model.Reply model.Server model.Tls proof.Tls_lemmas.
Import ListNotations.
Open Scope N_scope.

(* Server: every line consumed while the session is encrypted - command, AUTH answer, message
   content - consists only of bytes that were read from the TLS socket, and whatever is left in
   recv_buffer of an encrypted session was read from the TLS socket.
   Client: every reply parsed while the client is encrypted was built from such bytes only. *)
Theorem C08_no_plaintext_after_tls :
  (forall mechs nv fuel cfg w x, In x (t_session mechs fuel cfg nv w) ->
     to_enc (snd (fst x)) = t_enc (pre_of x) /\
     (to_enc (snd (fst x)) = true -> all_tls (to_line (snd (fst x))) = true) /\
     (t_enc (post_of x) = true -> all_tls (t_buf (post_of x)) = true)) /\
  (forall hs w ops,
     Forall (fun o => ko_enc o = true -> all_tls (ko_used o) = true) (k_run hs (k_init w) ops)).
Proof. split; [exact no_plaintext_after_tls_server|exact client_no_plaintext_after_tls]. Qed.
Print Assumptions C08_no_plaintext_after_tls.

(* The step that turns a session encrypted leaves the just-greeted state: no EHLO identity, no
   transaction in Server and no envelope in SmtpSession, STARTTLS not offered, recv_buffer empty;
   STARTTLS is never offered on an encrypted session (immediate TLS included); and in that state
   MAIL, RCPT, DATA, AUTH and STARTTLS reach no handler and change nothing. *)
Theorem C08_state_after_tls :
  (forall mechs nv fuel cfg w x, In x (t_session mechs fuel cfg nv w) ->
     (t_enc (pre_of x) = false -> t_enc (post_of x) = true ->
        s_ehlo (sv (t_st (post_of x))) = None /\ s_mail (sv (t_st (post_of x))) = false /\
        s_rcpt (sv (t_st (post_of x))) = false /\ x_starttls (ex (t_st (post_of x))) = false /\
        e_env (ed (t_st (post_of x))) = None /\ e_tls (ed (t_st (post_of x))) = true /\
        t_buf (post_of x) = [] /\ t_mode (post_of x) = MCmd /\ In (TCall true EvTls) (ev_of x)) /\
     (t_enc (post_of x) = true -> x_starttls (ex (t_st (post_of x))) = false)) /\
  (forall mechs nv st l, greeted st ->
     match classify l with CMail | CRcpt | CData | CAuth | CStarttls => True | _ => False end ->
     sr_st (t_exec_cmd mechs nv st l) = st /\ sr_events (t_exec_cmd mechs nv st l) = [] /\
     sr_mode (t_exec_cmd mechs nv st l) = MCmd).
Proof. split; [exact state_after_tls|exact greeted_refuses]. Qed.
Print Assumptions C08_state_after_tls.

(* Known finding c08:edge-ehlo-identity-survives-starttls (the suite pins it):
   SmtpSession.ehlo_as keeps the name given in clear text ... *)
Theorem C08_edge_ehlo_survives_refuted : exists mechs nv fuel cfg w x,
  In x (t_session mechs fuel cfg nv w) /\ t_enc (pre_of x) = false /\ t_enc (post_of x) = true /\
  e_ehlo (ed (t_st (post_of x))) <> None.
Proof. exact edge_ehlo_survives. Qed.
Print Assumptions C08_edge_ehlo_survives_refuted.

(* ... but in every reachable state, whenever Server has an EHLO identity (the precondition of
   MAIL and AUTH) SmtpSession holds the same one: the stale name never gets into a transaction. *)
Theorem C08_edge_identity_partial : forall mechs nv fuel cfg w x a,
  In x (t_session mechs fuel cfg nv w) ->
  s_ehlo (sv (t_st (post_of x))) = Some a -> e_ehlo (ed (t_st (post_of x))) = Some a.
Proof. intros mechs nv fuel cfg w x a Hx. exact (edge_identity_fresh mechs nv fuel cfg w x Hx a). Qed.
Print Assumptions C08_edge_identity_partial.

(* "Before EHLO" means: before a greeting the APPLICATION accepted.  In any session, if Server has an
   EHLO identity `a` after some step, then in that step or an earlier one the EHLO or HELO handler
   was called with `a` and left the reply at 250 (a greeting rejected by the handler - 550, 450,
   421, an exception - never creates or changes the identity; a rejected EHLO after an accepted one
   keeps the old identity).  In particular, when the application accepts no greeting there is never
   an identity, before or after the handshake, immediate TLS included - so by C08_auth_gating /
   C08_state_after_tls AUTH, MAIL and STARTTLS are refused throughout. *)
Theorem C08_identity_only_from_accepted_greeting :
  (forall mechs nv fuel cfg w pre x post a,
     t_session mechs fuel cfg nv w = pre ++ x :: post ->
     s_ehlo (sv (t_st (post_of x))) = Some a ->
     exists y, In y (pre ++ [x]) /\ hello_ev nv a (ev_of y)) /\
  (forall mechs nv fuel cfg w x,
     (forall k a, (k = KEhlo \/ k = KHelo) -> apply_verdict (nv_vf nv k a) 250 <> Some 250) ->
     In x (t_session mechs fuel cfg nv w) -> s_ehlo (sv (t_st (post_of x))) = None).
Proof. split; [exact session_ehlo|exact rejected_greetings_no_identity]. Qed.
Print Assumptions C08_identity_only_from_accepted_greeting.

(* AUTH is refused (one 5xx reply, no handler, no challenge, nothing changed) before EHLO, after
   a successful AUTH, inside a transaction, and for a plain-text mechanism on an unencrypted
   session; and in every session every call of the AUTH handler happened in a state that passes
   all of these gates, with the encryption flag of that state. *)
Theorem C08_auth_gating :
  (forall mechs nv st arg,
     s_ehlo (sv st) = None \/ s_authed (sv st) = true \/ s_mail (sv st) = true ->
     refused st (t_command_AUTH mechs nv st arg)) /\
  (forall mechs nv st arg n m,
     mech_named arg n -> mechs n = Some m -> m_insecure m = true -> s_encrypted (sv st) = false ->
     refused st (t_command_AUTH mechs nv st arg)) /\
  (forall mechs nv fuel cfg w x enc c code,
     In x (t_session mechs fuel cfg nv w) -> In (TAuth enc c code) (ev_of x) ->
     enc = t_enc (pre_of x) /\ exists m, gate (t_st (pre_of x)) m).
Proof. split; [exact auth_refused_state|split; [exact auth_refused_insecure|exact tauth_gated]]. Qed.
Print Assumptions C08_auth_gating.

(* Every AUTH command line and every answer line of an AUTH exchange either reaches the
   application (one handler call; what happens then is the application's decision) or gets exactly
   one reply, 334 or 5xx, no handler is called and the session continues (never 421, never an
   exception); a bare AUTH, an unparsable argument and an unknown mechanism are refused with 5xx. *)
Theorem C08_malformed_auth_replies :
  (forall mechs nv ts ts' o,
     t_step mechs nv ts = (ts', o) -> to_fin o <> TLost -> is_auth_step ts (to_line o) ->
     (exists enc c code, to_events o = [TAuth enc c code]) \/
     (to_events o = [] /\ to_fin o = TContinue /\
      exists c, to_replies o = [c] /\ (c = 334 \/ err5 c))) /\
  (forall mechs nv st, refused st (t_command_AUTH mechs nv st None)) /\
  (forall mechs nv st arg,
     parse_auth_arg (arg_bytes arg) = PBad \/ (exists n, mech_named arg n /\ mechs n = None) ->
     refused st (t_command_AUTH mechs nv st arg)).
Proof. split; [exact step_auth_shape|split; [exact auth_bare|exact auth_refused_unknown]]. Qed.
Print Assumptions C08_malformed_auth_replies.

(* If a session is authenticated after some step, then in that step or an earlier one the AUTH
   handler returned with the reply still 235; SmtpSession.auth changes only in such a step, to the
   identity of the credentials that handler was given. *)
Theorem C08_authed_only_on_235 :
  (forall mechs nv fuel cfg w pre x post,
     t_session mechs fuel cfg nv w = pre ++ x :: post ->
     s_authed (sv (t_st (post_of x))) = true ->
     exists y, In y (pre ++ [x]) /\ has_235 (ev_of y)) /\
  (forall mechs nv fuel cfg w x, In x (t_session mechs fuel cfg nv w) ->
     e_auth (ed (t_st (post_of x))) = e_auth (ed (t_st (pre_of x))) \/
     exists enc c, In (TAuth enc c (Some 235)) (ev_of x) /\
                   e_auth (ed (t_st (post_of x))) = Some (cr_cid c)).
Proof. split; [exact session_authed|exact eauth_only_on_235]. Qed.
Print Assumptions C08_authed_only_on_235.

(* The base64 the code uses decodes what it encodes, and what it encodes is ONE line of any length
   (no CR, LF or blank; 4 characters per 3 bytes): a SASL response never spills into a second
   line; an exchange in which the client sends the
   SASL responses rs (base64, the first one possibly with the AUTH command) ends exactly like the
   mechanism run on rs themselves, paired with the challenges it issued: the credentials given to
   the handler are the mechanism's result on the client's bytes; for PLAIN these are the three
   UTF-8 fields of the client's message, whatever code points they encode. *)
Theorem C08_credentials_exact :
  (forall s, Forall byte_ok s -> b64_dec (b64_enc s) = Some s) /\
  (forall s, Forall line_safe (b64_enc s) /\ length (b64_enc s) = Nat.mul 4 (Nat.div (Nat.add (length s) 2) 3)) /\
  (forall nv st m rs resps, Forall (Forall byte_ok) rs ->
     feed nv st (auth_turn nv st m resps) (map b64_enc rs) = spec_result nv st m (mech_run m resps rs)) /\
  (forall nv st m d r0 rs, m_attempt m [] = MChal d -> Forall byte_ok r0 -> Forall (Forall byte_ok) rs ->
     feed nv st (auth_response nv st m [] d (b64_enc r0)) (map b64_enc rs)
     = spec_result nv st m (mech_run m [] (r0 :: rs))) /\
  (forall nv st c enc c' code, In (TAuth enc c' code) (sr_events (auth_finish nv st c)) -> c' = c) /\
  (forall ch zid cid sec rest,
     no_nul zid -> no_nul cid -> no_nul sec -> cid <> [] ->
     is_utf8 zid = true -> is_utf8 cid = true -> is_utf8 sec = true ->
     plain_attempt ((ch, zid ++ 0 :: cid ++ 0 :: sec) :: rest) =
     MCreds {| cr_kind := 0; cr_cid := cid; cr_secret := sec;
               cr_zid := match zid with [] => cid | _ => zid end |}).
Proof.
  split; [exact b64_roundtrip|]. split; [intro s; split; [apply b64_enc_one_line|apply b64_enc_length]|].
  split; [exact feed_exact|]. split; [exact feed_exact_initial|].
  split; [exact finish_event|exact plain_exact].
Qed.
Print Assumptions C08_credentials_exact.

(* An AUTH exchange is a function of the AUTH line and of the answer lines of THIS exchange only.
   The session state has no slot in which an earlier AUTH attempt could leave anything: what the
   AUTH command does (replies, 334 payload, handler call with its credentials, next mode) is the same in
   any two states that agree on the five gate bits (AUTH offered, EHLO identity present, authenticated,
   transaction open, encrypted), whatever happened before - in particular whatever an earlier, refused
   AUTH line carried as its initial response, in clear text or not - and likewise every answer line
   (given the mechanism, the challenge and the responses of this exchange); the state it leaves is
   the state before it, changed only by a 235 the handler kept. *)
Theorem C08_auth_exchange_independent_of_earlier_attempts :
  (forall mechs nv st1 st2 arg, gate_view st1 = gate_view st2 ->
     auth_view (t_command_AUTH mechs nv st1 arg) = auth_view (t_command_AUTH mechs nv st2 arg)) /\
  (forall nv st1 st2 m resps chal resp, s_encrypted (sv st1) = s_encrypted (sv st2) ->
     auth_view (auth_response nv st1 m resps chal resp) = auth_view (auth_response nv st2 m resps chal resp)) /\
  (forall mechs nv st arg,
     sr_st (t_command_AUTH mechs nv st arg) = st \/
     exists c, In (TAuth (s_encrypted (sv st)) c (Some 235)) (sr_events (t_command_AUTH mechs nv st arg)) /\
               sr_st (t_command_AUTH mechs nv st arg) =
               {| sv := set_authed true (sv st); ex := ex st; ed := set_e_auth (Some (cr_cid c)) (ed st) |}).
Proof. split; [exact auth_command_independent|split; [exact view_response|exact auth_command_state]]. Qed.
Print Assumptions C08_auth_exchange_independent_of_earlier_attempts.
