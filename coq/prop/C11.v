(* C11 - a relay reports success only for recipients the next hop accepted.
   Statements only; proofs in proof/RelayClient_lemmas.v; model in model/RelayClient.v
   (the code after fixes d7, d14, d15, d18, d20, d28, d29 and the reply-line fix). *)
From Coq Require Import List NArith Bool.
From SV Require Import lib.Bytes gen.UnicodeTables model.RelayClient proof.RelayClient_lemmas.
Import ListNotations.
Open Scope N_scope.

(* ---------------- SMTP / LMTP relay client: every script, every configuration, any number of
   requests on the connection, any number of recipients ---------------- *)

(* envelope.recipients may hold the same address several times; the result mapping is keyed by
   address.  own msg i j: positions i and j hold the same address. *)

(* THE per-recipient statement: what the mapping holds for the address at position i is justified
   by the replies to the occurrences of that same address and by the message replies only
   (RJust: delivered / failed with the class of an error reply to an own occurrence), never by a
   reply given to another address; the mapping has an entry for every position. *)
Theorem C11_result_from_own_replies : forall sc cfg msgs m l i t,
  lookup_res (results (run_client sc cfg msgs)) m = Some (MMap l) -> nth_error l i = Some t ->
  exists msg, msg_at msgs m = Some msg /\ length l = length (m_rcpts msg) /\ RJust sc cfg m msg i t.
Proof. exact smtp_result_from_own_replies. Qed.
Print Assumptions C11_result_from_own_replies.

Theorem C11_failed_own_class : forall sc cfg msgs m l i c,
  lookup_res (results (run_client sc cfg msgs)) m = Some (MMap l) -> nth_error l i = Some (TFailed c) ->
  exists msg j, msg_at msgs m = Some msg /\ own msg i j /\ occ_failed sc m j c.
Proof. exact smtp_failed_own_class. Qed.
Print Assumptions C11_failed_own_class.

(* An address is reported delivered only if MAIL was answered 2xx, DATA 2xx/3xx and
   SMTP: every RCPT given for it and end-of-data were answered 2xx;
   LMTP: one RCPT given for it was answered 2xx and the data reply owned by that RCPT was 2xx.
   Guard: the reply alphabet of the property (no 3xx where the protocol defines none, at the
   occurrences of this address); its complement is the known finding
   c11:3xx-at-rcpt-or-eod-counted-as-accepted.  No assumption about duplicate recipients. *)
Theorem C11_success_sound_smtp_partial : forall sc cfg msgs m msg i,
  msg_at msgs m = Some msg -> no_r3_own sc cfg m msg i ->
  smtp_final sc cfg msgs m i = FDelivered ->
  reply sc (Mail m) = R2 /\ (reply sc (Data m) = R2 \/ reply sc (Data m) = R3) /\
  if c_lmtp cfg
  then exists j, own msg i j /\ reply sc (Rcpt m (N.of_nat j)) = R2 /\ reply sc (Eod m (N.of_nat j)) = R2
  else (forall j, own msg i j -> reply sc (Rcpt m (N.of_nat j)) = R2) /\ reply sc (Eod m 0) = R2.
Proof. exact smtp_success_sound. Qed.
Print Assumptions C11_success_sound_smtp_partial.

(* pairwise distinct recipients: the statement about position i alone *)
Theorem C11_success_sound_smtp_nodup : forall sc cfg msgs m msg i,
  msg_at msgs m = Some msg -> NoDup (m_addrs msg) ->
  reply sc (Mail m) <> R3 -> reply sc (Rcpt m (N.of_nat i)) <> R3 ->
  reply sc (Eod m (eodix cfg (N.of_nat i))) <> R3 ->
  smtp_final sc cfg msgs m i = FDelivered ->
  reply sc (Mail m) = R2 /\ reply sc (Rcpt m (N.of_nat i)) = R2 /\
  (reply sc (Data m) = R2 \/ reply sc (Data m) = R3) /\
  reply sc (Eod m (eodix cfg (N.of_nat i))) = R2.
Proof. exact smtp_success_sound_nodup. Qed.
Print Assumptions C11_success_sound_smtp_nodup.

(* without the guard: a 3xx reply to end-of-data counts as acceptance (Reply.is_error) *)
Theorem C11_success_sound_smtp_refuted :
  exists sc cfg msgs m i,
    smtp_final sc cfg msgs m i = FDelivered /\ reply sc (Eod m (eodix cfg (N.of_nat i))) = R3.
Proof. exact smtp_success_sound_3xx_refuted. Qed.
Print Assumptions C11_success_sound_smtp_refuted.

(* what holds for every script, in the client's own terms (Reply.is_error) *)
Theorem C11_success_sound_smtp_is_error : forall sc cfg msgs m i,
  smtp_final sc cfg msgs m i = FDelivered ->
  exists msg, msg_at msgs m = Some msg /\
    nonerr sc (Mail m) /\ nonerr sc (Data m) /\
    if c_lmtp cfg
    then (exists j, own msg i j /\ reply sc (Rcpt m (N.of_nat j)) = R2 /\ nonerr sc (Eod m (N.of_nat j))) \/
         (forall j, own msg i j -> reply sc (Rcpt m (N.of_nat j)) = R3)
    else (forall j, own msg i j -> nonerr sc (Rcpt m (N.of_nat j))) /\ nonerr sc (Eod m 0).
Proof. exact smtp_success_sound_gen. Qed.
Print Assumptions C11_success_sound_smtp_is_error.

(* a permanent failure is reported only on a 5xx reply at a stage of this connection/request
   (or 8-bit body that cannot be converted, AUTH configured but not offered, an address that cannot
   be encoded); a transient one only on a 4xx, malformed reply / bad reply code, disconnect, stall
   or failed connect *)
Theorem C11_classification_smtp : forall sc cfg msgs m i,
  (smtp_final sc cfg msgs m i = FPermanent -> PermCause sc cfg msgs m) /\
  (smtp_final sc cfg msgs m i = FTransient -> TransCause sc cfg m).
Proof. exact smtp_classification. Qed.
Print Assumptions C11_classification_smtp.

(* "if" directions: an address all of whose RCPTs were rejected (or MAIL / DATA rejected) is reported
   with the class of the rejection when the script holds no cause of the other class *)
Theorem C11_classification_smtp_5xx : forall sc cfg msgs m msg i,
  msg_at msgs m = Some msg -> (i < length (m_rcpts msg))%nat ->
  ~ TransCause sc cfg m ->
  ((forall j, own msg i j -> rcpt_err sc (Rcpt m (N.of_nat j))) \/ rcpt_err sc (Mail m) \/ rcpt_err sc (Data m)) ->
  smtp_final sc cfg msgs m i <> FQueued ->
  smtp_final sc cfg msgs m i = FPermanent.
Proof. exact smtp_5xx_permanent. Qed.
Print Assumptions C11_classification_smtp_5xx.

Theorem C11_classification_smtp_4xx : forall sc cfg msgs m msg i,
  msg_at msgs m = Some msg -> (i < length (m_rcpts msg))%nat ->
  ~ PermCause sc cfg msgs m ->
  ((forall j, own msg i j -> rcpt_err sc (Rcpt m (N.of_nat j))) \/ rcpt_err sc (Mail m) \/ rcpt_err sc (Data m)) ->
  smtp_final sc cfg msgs m i <> FQueued ->
  smtp_final sc cfg msgs m i = FTransient.
Proof. exact smtp_4xx_transient. Qed.
Print Assumptions C11_classification_smtp_4xx.

Theorem C11_rejected_not_delivered : forall sc cfg msgs m msg i,
  msg_at msgs m = Some msg ->
  ((forall j, own msg i j -> rcpt_err sc (Rcpt m (N.of_nat j))) \/ rcpt_err sc (Mail m) \/ rcpt_err sc (Data m)) ->
  smtp_final sc cfg msgs m i <> FDelivered.
Proof. exact smtp_rejected_not_delivered. Qed.
Print Assumptions C11_rejected_not_delivered.

(* the attempt ends, for every recipient of every request, in a result or a relay error (or the
   request is back on the pool queue): never a foreign exception, never a hang, never a missing
   table entry - for every script (bad reply codes included) and every envelope (addresses that
   cannot be encoded included) *)
Theorem C11_total_smtp : forall sc cfg msgs m msg i,
  msg_at msgs m = Some msg -> (i < length (m_rcpts msg))%nat ->
  let f := smtp_final sc cfg msgs m i in
  f = FDelivered \/ f = FPermanent \/ f = FTransient \/ f = FQueued.
Proof. exact smtp_total. Qed.
Print Assumptions C11_total_smtp.

(* a foreign exception is only possible for an envelope without recipients (rcpttos[0]) *)
Theorem C11_total_smtp_other_cause : forall sc cfg msgs m i,
  smtp_final sc cfg msgs m i = FOther -> ForeignCause msgs m.
Proof. exact smtp_other_cause. Qed.
Print Assumptions C11_total_smtp_other_cause.

(* a broken connection is a transient failure of the request being worked on, whatever error
   replies (500 to EHLO, 5xx for another recipient, a rejected earlier request) were seen before:
   if the connection run ends with BadReply/ConnectionLost, a timeout or a socket error while the
   current request has no result yet, every recipient of that request is reported transient *)
Theorem C11_hangup_transient : forall sc cfg msgs e s i,
  msgs <> [] ->
  (r_connect cfg ;;; r_handshake sc cfg ;;; run_loop sc cfg msgs 0) st0 = (inr e, s) ->
  (e = ASmtp \/ e = ATimeout \/ e = ASock) ->
  lookup_res (results s) (cur s) = None ->
  smtp_final sc cfg msgs (cur s) i = FTransient.
Proof. exact smtp_hangup_transient. Qed.
Print Assumptions C11_hangup_transient.

(* RelayPool.attempt over successive connections returns the result of one of them *)
Theorem C11_attempt_conns : forall cfg scs msg r,
  attempt_conns cfg scs msg = Some r ->
  exists sc, In sc scs /\ lookup_res (results (run_client sc cfg [msg])) 0 = Some r.
Proof. exact attempt_conns_sound. Qed.
Print Assumptions C11_attempt_conns.

(* ---------------- pipe relays ---------------- *)
Theorem C11_success_sound_pipe : forall k per ps i,
  pipe_final (pipe_attempt k per ps) i = FDelivered ->
  exists so se, nth_error ps (if per then i else 0%nat) = Some (Exited 0 so se).
Proof. exact pipe_success_sound. Qed.
Print Assumptions C11_success_sound_pipe.

Theorem C11_classification_pipe : forall k (per : bool) ps (i : nat),
  let j := if per then i else 0%nat in
  (forall st so se, (forall j', (j' < j)%nat -> nth_error ps j' <> Some TimedOut) ->
     nth_error ps j = Some (Exited st so se) -> st <> 0 ->
     pipe_final (pipe_attempt k per ps) i = of_cls (raise_error k st so se)) /\
  (forall j', (j' <= j)%nat -> nth_error ps j' = Some TimedOut -> (i < length ps)%nat \/ per = false ->
     pipe_final (pipe_attempt k per ps) i = FTransient).
Proof. exact pipe_classification. Qed.
Print Assumptions C11_classification_pipe.

Theorem C11_classification_pipe_tempfail : forall k st so se,
  k <> KPipe -> raise_error k st so se = if st =? 75 then Trans else Perm.
Proof. exact raise_error_status. Qed.
Print Assumptions C11_classification_pipe_tempfail.

Theorem C11_total_pipe : forall k per ps i,
  (i < length ps)%nat -> good_final (pipe_final (pipe_attempt k per ps) i).
Proof. exact pipe_total. Qed.
Print Assumptions C11_total_pipe.

(* ---------------- HTTP relay ---------------- *)
Theorem C11_success_sound_http : forall d,
  http_final (http_attempt d) = FDelivered ->
  exists status h, d = HResp status h /\ 200 <= status < 300.
Proof. exact http_success_sound. Qed.
Print Assumptions C11_success_sound_http.

Theorem C11_classification_http :
  http_final (http_attempt HRefused) = FTransient /\
  http_final (http_attempt HSilent) = FTransient /\
  http_final (http_attempt HBroken) = FTransient /\
  (forall status h, ~ (200 <= status < 300) -> http_final (http_attempt (HResp status h)) <> FDelivered) /\
  (forall status code cmd e, ~ (200 <= status < 300) -> 500 <= code <= 599 ->
     http_final (http_attempt (HResp status (HCode code cmd e))) = FPermanent) /\
  (forall status code cmd e, ~ (200 <= status < 300) -> 400 <= code <= 499 ->
     http_final (http_attempt (HResp status (HCode code cmd e))) = FTransient).
Proof. exact http_classification. Qed.
Print Assumptions C11_classification_http.

Theorem C11_total_http : forall d, good_final (http_final (http_attempt d)).
Proof. exact http_total. Qed.
Print Assumptions C11_total_http.

(* ---------------- MX relay ---------------- *)
Theorem C11_classification_mx : forall rcpt0 forced mx a attempts,
  (~ In 64 rcpt0 -> mx_attempt rcpt0 forced mx a attempts = MxPerm) /\
  (In 64 rcpt0 -> forced = false -> mx = DnsFail -> mx_attempt rcpt0 forced mx a attempts = MxTrans) /\
  (In 64 rcpt0 -> forced = false -> mx = DnsNotFound -> a = DnsFail ->
     mx_attempt rcpt0 forced mx a attempts = MxTrans) /\
  (In 64 rcpt0 -> forced = false -> mx = DnsNotFound -> a = DnsNotFound ->
     mx_attempt rcpt0 forced mx a attempts = MxPerm) /\
  (In 64 rcpt0 -> forced = false -> mx = DnsOk [] -> mx_attempt rcpt0 forced mx a attempts = MxPerm).
Proof. exact mx_classification. Qed.
Print Assumptions C11_classification_mx.

Theorem C11_mx_destination : forall rcpt0 mx a attempts d,
  mx_attempt rcpt0 false mx a attempts = MxRelay d ->
  (exists l, mx = DnsOk l /\ l <> [] /\
     nth_error (map (fun r => DHost (snd r)) (mx_sort l))
               (N.to_nat (attempts mod N.of_nat (length l))) = Some d /\
     sorted_prio (mx_sort l) /\ (forall x, In x (mx_sort l) <-> In x l)) \/
  (mx = DnsNotFound /\ exists l, a = DnsOk l /\ l <> [] /\ d = DDomain).
Proof. exact mx_destination. Qed.
Print Assumptions C11_mx_destination.

(* ---------------- the failure class follows the reply CODE ---------------- *)
(* SmtpRelayError.factory is handed the whole reply (code + text, whose enhanced status code may
   contradict the code: "550 4.2.1 ...", "451 5.7.1 ..."); the class depends on the code only *)
Theorem C11_classification_by_code_only : forall c e e',
  factory_reply c e = factory_reply c e' /\
  (factory_reply c e = Perm <-> (c = C5 \/ c = C500)) /\
  (factory_reply c e = Trans <-> (c = C2 \/ c = C3 \/ c = C4)).
Proof. exact factory_by_code_only. Qed.
Print Assumptions C11_classification_by_code_only.

Theorem C11_failed_class_by_code : forall sc cfg msgs m l i c,
  lookup_res (results (run_client sc cfg msgs)) m = Some (MMap l) -> nth_error l i = Some (TFailed c) ->
  exists msg j stg cl, msg_at msgs m = Some msg /\ own msg i j /\
    (stg = Rcpt m (N.of_nat j) \/ stg = Eod m (N.of_nat j)) /\
    read_reply (reply sc stg) = inl cl /\ is_error cl = true /\
    (c = Perm <-> (cl = C5 \/ cl = C500)).
Proof. exact smtp_failed_class_by_code. Qed.
Print Assumptions C11_failed_class_by_code.

(* ---------------- MxSmtpRelay as an object (MxRecord cache), over all attempt sequences ---------------- *)
(* after any history of attempts on one relay: the resolver is asked exactly when no fresh record is
   cached; a resolver error is transient and leaves the record as it was, so the next attempt asks
   again; a transient result only comes from an error of this very attempt and a permanent one only
   from this attempt's own "nothing there" answer - an error never turns into a permanent failure;
   a fresh cached record (successful lookup within its TTL) is used as it is *)
Theorem C11_mx_error_not_cached : forall steps st d,
  s_domain st = Some d ->
  let cache := mx_cache_after steps in
  let r := match dget cache d with Some r => r | None => mxrec0 end in
  let '(o, asked, cache') := mx_attempt_st cache st in
  asked = mx_expired r (s_now st) /\
  (asked = true -> mx_resolve st = inr tt ->
     o = MxTrans /\ dget cache' d = Some r /\ forall now', s_now st <= now' -> mx_expired r now' = true) /\
  (o = MxTrans -> asked = true /\ mx_resolve st = inr tt) /\
  (o = MxPerm -> asked = true /\ exists e, mx_resolve st = inl (None, e) \/ mx_resolve st = inl (Some [], e)) /\
  (asked = false -> o = mx_finish r (s_attempts st) /\ exists dst, o = MxRelay dst).
Proof. exact mx_error_not_cached. Qed.
Print Assumptions C11_mx_error_not_cached.

(* ---------------- reply codes: only the class of the code counts ---------------- *)
(* every well-formed reply code n is read as the outcome of its class (500 kept apart only because
   EHLO compares it literally); all theorems above quantify over every script stage -> outcome, hence
   over every assignment of codes: an error reply is permanent iff its code is 5xx *)
Theorem C11_classification_by_class_of_code : forall n c,
  read_reply (outcome_of_code n) = inl c ->
  (is_error c = true <-> 400 <= n <= 599) /\
  (factory c = Perm <-> 500 <= n <= 599) /\
  (is_error c = true -> factory c = Trans <-> 400 <= n <= 499).
Proof. exact class_of_code_only. Qed.
Print Assumptions C11_classification_by_class_of_code.

(* PipeRelay: a permanent failure only if the program output (stdout, else stderr, right-stripped)
   BEGINS with "5." digit ...; what later lines look like never matters *)
Theorem C11_pipe_permanent_begins_with_5 : forall st so se,
  raise_error KPipe st so se = Perm ->
  let so' := rstrip_b so in let se' := rstrip_b se in
  let msg := match so' with [] => (match se' with [] => default_msg | _ => se' end) | _ => so' end in
  exists d rest, u8r msg = 53 :: 46 :: d :: rest /\ udigit d = true.
Proof. exact pipe_permanent_begins_with_5. Qed.
Print Assumptions C11_pipe_permanent_begins_with_5.
