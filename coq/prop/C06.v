(* C06 -- a relay hop preserves sender, recipients and content end to end.

   Statements only; proofs are in proof/Hop_lemmas.v, the model in model/Hop.v
   (find_outside_quotes after the repair of defect D16, see
   /verif/fixes/d16-quoted-pair-in-address.diff).

   Vocabulary
     exts                         Extensions.extensions: ordered (NAME, parameter) pairs
     build_mail e a size auth     the bytes Client.mailfrom(a, size, auth) hands to send_command when
                                  the server advertised e (None = UnicodeEncodeError);  build_rcpt e a
     server_line stream           IO.recv_command on the stream, then the address part of
                                  Server._command_MAIL / _command_RCPT:  LMail (AOk address params) rest
     wf_mailbox u a / wf_sender   RFC 5321 Mailbox (dot-string or quoted-string local part, domain or
                                  address literal); u = UTF8-non-ascii allowed (SMTPUTF8 advertised);
                                  wf_sender also accepts the null sender (empty text)
     mail_params e size auth      [(SIZE, decimal n)] if size given and SIZE advertised, then
                                  [(AUTH, <> | xtext)] if auth given and AUTH advertised
     build_string / parse_string  Extensions.build_string / parse_string
     b64enc / b64dec              base64.b64encode / binascii.a2b_base64
     build_headers, http_addresses  HttpRelayClient._build_headers; WsgiEdge._get_sender/_get_recipients
                                  on the environ a WSGI server makes of those headers, repeated
                                  headers merged with `sep`
     smtp_hop / http_hop          the composition: relay client -> wire -> edge -> Envelope handed to the queue
   Imported theorems: DATA framing is C05 (Data_lemmas.roundtrip), envelope parse/flatten is C20
   (Envelope_lemmas.parse_wf, with C20's hypothesis codec_ok about Python's email package), the reply
   wire is C17 (Reply_lemmas.send_recv_inc / reply_roundtrip). *)
From Coq Require Import List NArith Bool.
From SV Require Import lib.Bytes gen.UnicodeTables model.Hop proof.Hop_lemmas.
From SV Require model.Reply model.Data model.Envelope.
From SV Require proof.Reply_lemmas proof.Unicode_lemmas.
Import ListNotations.
Open Scope N_scope.

(* MAIL FROM: for every valid reverse-path and every combination of advertised extensions and of the
   optional SIZE / AUTH arguments, the line the client writes (followed by anything) is read by the
   server as the MAIL command with exactly that address and exactly those parameters, nothing else
   consumed. *)
Theorem C06_mail_roundtrip : forall (e : exts) (a : text) (size : option N) (auth : option (option text)),
  wf_sender (ext_mem X_SMTPUTF8 e) a = true -> auth_ok e auth ->
  exists line, build_mail e a size auth = Some line /\
    forall t, server_line (send_command line ++ t) = LMail (AOk a (mail_params e size auth)) t.
Proof. exact mail_roundtrip. Qed.
Print Assumptions C06_mail_roundtrip.

Theorem C06_rcpt_roundtrip : forall (e : exts) (a : text),
  wf_mailbox (ext_mem X_SMTPUTF8 e) a = true ->
  exists line, build_rcpt e a = Some line /\
    forall t, server_line (send_command line ++ t) = LRcpt (AOk a []) t.
Proof. exact rcpt_roundtrip. Qed.
Print Assumptions C06_rcpt_roundtrip.

(* the SIZE value is the decimal numeral of the number given *)
Theorem C06_size_decimal : forall n, dec_val (dec_of_N n) = n.
Proof. exact dec_val_of_N. Qed.
Print Assumptions C06_size_decimal.

(* D16: with the scanner as it was (no quoted-pair handling) the valid mailbox d16_witness
   ( DQUOTE a BACKSLASH DQUOTE b > c DQUOTE @ x ) written by the client is read by the server as
   DQUOTE a BACKSLASH DQUOTE b  with two junk parameters (C, X); the repaired scanner returns it whole *)
Theorem C06_quoted_pair_needs_escape :
  wf_mailbox false d16_witness = true /\
  build_mail [] d16_witness None None = Some (C_MAIL ++ 32 :: d16_arg) /\
  parse_mail_d16 d16_arg = AOk [34; 97; 92; 34; 98] [([67], PTrue); ([88], PTrue)] /\
  parse_mail d16_arg = AOk d16_witness [].
Proof. exact d16_unrepaired. Qed.
Print Assumptions C06_quoted_pair_needs_escape.

(* EHLO text: names [A-Z0-9][A-Z0-9-]*, pairwise different; parameters absent or non-empty, without
   line feed, not beginning or ending with white space; first line not empty, without line feed *)
Theorem C06_ext_roundtrip : forall (h : text) (e : exts),
  header_ok h -> wf_exts e -> parse_string [] (build_string h e) = (h, e).
Proof. exact ext_roundtrip. Qed.
Print Assumptions C06_ext_roundtrip.

(* ... and over the wire: the 250 reply to EHLO written by IO.send_reply, followed by anything, in any
   segmentation: the client ends up with exactly the advertised extensions *)
Theorem C06_ext_over_the_wire : forall greeting adv t buf chunks,
  header_ok greeting -> Reply_lemmas.valid_text greeting -> wf_exts adv -> exts_text_ok adv ->
  Reply_lemmas.nonempty_chunks chunks ->
  buf ++ concat chunks = ehlo_reply_wire greeting adv ++ t ->
  client_exts false greeting adv buf chunks = Some adv.
Proof. exact client_exts_ok. Qed.
Print Assumptions C06_ext_over_the_wire.

Theorem C06_base64_roundtrip : forall s, Forall (fun b => b < 256) s -> b64dec (b64enc s) = B64Ok s.
Proof. exact b64_roundtrip. Qed.
Print Assumptions C06_base64_roundtrip.

(* HTTP: sender and 1..n recipients (any valid Unicode text, recipients not empty) through one
   base64 header each, merged by the WSGI server with ANY separator the edge's split pattern
   matches (white space, "," or ";", white space), split and decoded: same sender, same recipients, same order *)
Theorem C06_http_envelope_roundtrip : forall sep ehlo sender rcpts h b,
  sep_ok sep -> forallb Reply.valid_cp sender = true -> rcpts <> [] -> Forall rcpt_text rcpts ->
  exists hs, build_headers ehlo sender rcpts h b = Some hs /\
             http_addresses sep hs = (DOk sender, RcOk rcpts).
Proof. exact http_envelope_roundtrip. Qed.
Print Assumptions C06_http_envelope_roundtrip.

(* THE HOP, SMTP/LMTP.  For every envelope (header block fs of C20's class, blank line, ANY body B),
   every set ce of extensions the client works with (after EHLO what was advertised -- previous theorem --,
   after the HELO fallback none), every valid sender and recipient list, every segmentation of the DATA
   stream: unless 8BITMIME is missing and the body is 8-bit (then the relay refuses, C20_7bit_refuses),
   the envelope handed to the edge's queue has the same sender, the same recipients in the same order,
   the same header block and the body of C05: B, followed by CRLF iff the message did not end with CRLF. *)
Theorem C06_hop :
  forall (hdr : Type) (hparse : bytes -> hdr * option bytes) (hgen : hdr -> bytes),
  Envelope.codec_ok hparse hgen ->
  forall ce fs blank B sender rcpts t buf chunks,
  Envelope.wf_block fs = true -> Envelope.blank_ok blank ->
  wf_sender (ext_mem X_SMTPUTF8 ce) sender = true ->
  Forall (fun r => wf_mailbox (ext_mem X_SMTPUTF8 ce) r = true) rcpts ->
  (ext_mem X_8BITMIME ce = false -> Envelope.has_8bit B = false) ->
  let e := Envelope.parse hdr hparse sender rcpts (Envelope.render fs ++ blank ++ B) in
  Forall (fun c => c <> []) chunks ->
  buf ++ concat chunks = data_wire hdr hgen e ++ t ->
  Envelope.flatten hdr hgen e = (Envelope.gen_fields fs, B) /\
  exists e', smtp_hop hdr hparse ce e buf chunks = Delivered e' /\
    Envelope.e_sender e' = sender /\ Envelope.e_rcpts e' = rcpts /\
    Envelope.flatten hdr hgen e' = (Envelope.gen_fields fs, body_received fs B) /\
    Envelope.join (Envelope.flatten hdr hgen e') = Data.expected (Envelope.join (Envelope.flatten hdr hgen e)).
Proof. exact smtp_hop_ok. Qed.
Print Assumptions C06_hop.

(* THE HOP, HTTP: flatten() of the received envelope is exactly flatten() of the sent one *)
Theorem C06_hop_http :
  forall (hdr : Type) (hparse : bytes -> hdr * option bytes) (hgen : hdr -> bytes),
  Envelope.codec_ok hparse hgen ->
  forall sep ehlo fs blank B sender rcpts,
  Envelope.wf_block fs = true -> Envelope.blank_ok blank -> sep_ok sep ->
  forallb Reply.valid_cp sender = true -> rcpts <> [] -> Forall rcpt_text rcpts ->
  let e := Envelope.parse hdr hparse sender rcpts (Envelope.render fs ++ blank ++ B) in
  exists e', http_hop hdr hparse hgen sep ehlo e = Delivered e' /\
    Envelope.e_sender e' = sender /\ Envelope.e_rcpts e' = rcpts /\
    Envelope.flatten hdr hgen e' = Envelope.flatten hdr hgen e.
Proof. exact http_hop_ok. Qed.
Print Assumptions C06_hop_http.

(* the reply code the edge gave is what the relay reports.
   SMTP: the edge's final Reply(code, text) crosses the wire unchanged (C17) *)
Theorem C06_code_reported : forall code v t buf chunks,
  Reply_lemmas.code_2xx_5xx code -> Reply_lemmas.valid_text v -> Reply_lemmas.ns_head uspace v = true ->
  Reply_lemmas.nonempty_chunks chunks ->
  buf ++ concat chunks = Reply.wire_of (Reply.new_reply udigit uspace code v) ++ t ->
  exists r' buf' chunks',
    Reply.reply_recv udigit uspace buf chunks = Reply.GotReply r' buf' chunks' /\ Reply.r_code r' = code.
Proof.
  intros code v t buf chunks H1 H2 H3 H4 H5.
  destruct (Reply_lemmas.reply_roundtrip udigit uspace Unicode_lemmas.udigit_46 Unicode_lemmas.udigit_48
              Unicode_lemmas.uspace_32 Unicode_lemmas.uspace_10 Unicode_lemmas.uspace_13
              Unicode_lemmas.digit_space_disjoint code v t buf chunks H1 H2 H3 H4 H5)
    as [r' [b' [c' [E [Hc _]]]]].
  exists r', b', c'. split; assumption.
Qed.
Print Assumptions C06_code_reported.

(* HTTP: the X-Smtp-Reply header the WSGI edge builds for Reply(code, msg) -- any three-digit code
   1xx..5xx, any message -- is parsed by the relay to the same code, and with the HTTP status the edge
   chooses attempt() reports success for 2xx, a permanent error for 5xx, a transient one otherwise,
   carrying that code *)
Theorem C06_code_reported_http : forall code msg, code3 code ->
  parse_reply_header (build_reply_header code msg) = RHCode code /\
  process_response (http_status code) (build_reply_header code msg) = report_of code.
Proof. intros code msg H. split; [apply reply_header_code, H|apply http_code_reported, H]. Qed.
Print Assumptions C06_code_reported_http.

(* ... for ALL codes 100..599 and all message texts: whatever HTTP status the edge picks for the code (204 for
   2xx, 503 for 4xx, 401 for 535, 500 for everything else), the code attempt() reports or raises is the edge's
   own code, and it is a success exactly for 2xx *)
Theorem C06_edge_code_reported_http : forall code msg, code3 code ->
  report_code (process_response (http_status code) (build_reply_header code msg)) = Some code /\
  report_is_success (process_response (http_status code) (build_reply_header code msg)) = starts_with [50] code.
Proof. exact http_reported_code. Qed.
Print Assumptions C06_edge_code_reported_http.
