(* C10 - the pipelining client pairs every reply with the command that caused it.

   Setting (model/Client.v): `run ops (init lmtp exts0 chunks)` executes an arbitrary
   sequence of API calls of Client (lmtp = false) or LmtpClient (lmtp = true) whose
   extensions were pre-populated with exts0, on a socket that will deliver `chunks`.
   The server's script is a list of well-formed replies (any three-digit code 1xx-5xx,
   1..n lines, valid UTF-8); the byte stream is `wire script ++ extra` cut into
   arbitrary non-empty chunks.  Reply objects are numbered in creation order;
   `length (s_objs st) <= length script` says the server scripted a reply for every
   reply-owing command the client issued (object j is owed script[j]: the j-th reply
   the server sends answers the j-th reply-owing command it receives).
   PIPELINING is whatever exts0 and the scripted EHLO/LHLO replies make it. *)
From Coq Require Import String.
From Coq Require Import List NArith Bool Arith Sorting.Sorted.
From SV Require Import lib.Val lib.Bytes model.Reply model.Client proof.Client_lemmas.
Import ListNotations.
Local Open Scope nat_scope.

(* Every call either returned its own new Reply object(s) or raised before anything
   was queued or sent (UnicodeEncodeError / NotImplementedError); the objects handed
   out are, in order, objects 0..n-1; the first f of them (f = n - |reply_queue|) hold
   exactly the server's replies 0..f-1 - each object its own -, the others are still
   empty and are exactly the reply_queue, in order (FIFO). *)
Theorem C10_pairing :
  forall udigit uspace script extra lmtp exts0 ops chunks st results,
  forallb wf_reply script = true ->
  Forall (fun c => c <> []) chunks ->
  concat chunks = wire script ++ extra ->
  run udigit uspace ops (init lmtp exts0 chunks) = (st, results) ->
  length (s_objs st) <= length script ->
  let n := length (s_objs st) in
  let f := n - length (s_queue st) in
  flat_map result_ids results = seq 0 n /\
  Forall result_ok results /\
  s_queue st = seq f (n - f) /\
  forall j, j < n ->
    o_r (nth j (s_objs st) dummy_obj) =
      if j <? f then filled udigit uspace (o_kind (nth j (s_objs st) dummy_obj)) (nth j script dflt)
      else unfilled (o_kind (nth j (s_objs st) dummy_obj)).
Proof. intros. eapply clw_pairing; eassumption. Qed.
Print Assumptions C10_pairing.

(* What has been taken from the stream is exactly the f replies owed and read:
   everything behind them - replies to commands still pipelined, unsolicited bytes -
   is still in recv_buffer / unread on the socket; the connection was never read to EOF. *)
Theorem C10_no_overread :
  forall udigit uspace script extra lmtp exts0 ops chunks st results,
  forallb wf_reply script = true ->
  Forall (fun c => c <> []) chunks ->
  concat chunks = wire script ++ extra ->
  run udigit uspace ops (init lmtp exts0 chunks) = (st, results) ->
  length (s_objs st) <= length script ->
  s_rbuf st ++ concat (s_chunks st) =
    wire (skipn (length (s_objs st) - length (s_queue st)) script) ++ extra /\
  Forall (fun c => c <> []) (s_chunks st) /\ s_dead st = false.
Proof. intros. eapply clw_no_overread; eassumption. Qed.
Print Assumptions C10_no_overread.

(* LMTP: after any call sequence, send_data / send_empty_data returns one new Reply
   object per recipient of the transaction whose RCPT reply (script[its object]) has
   class 2, in the order of the rcptto calls, as the consecutive new objects n, n+1, ...
   (which by C10_pairing receive the next replies of the stream in that order), and
   clears the recipient list.  Every entry of the recipient list is (address, object)
   of a call rcptto(address) that returned that object; entries are in call order. *)
Theorem C10_lmtp_pairing :
  forall udigit uspace script extra exts0 ops chunks st results o st' res,
  forallb wf_reply script = true ->
  Forall (fun c => c <> []) chunks ->
  concat chunks = wire script ++ extra ->
  run udigit uspace ops (init true exts0 chunks) = (st, results) ->
  (o = OSendEmpty \/ exists payload, o = OSendData payload) ->
  step udigit uspace o st = (st', res) ->
  length (s_objs st') <= length script ->
  let n := length (s_objs st) in
  let acc := filter (fun p => class2 (fst (nth (snd p) script dflt))) (s_rcpttos st) in
  res = RPairs (number n (map fst acc)) /\
  length (s_objs st') = n + length acc /\
  s_rcpttos st' = [] /\
  StronglySorted lt (map snd (s_rcpttos st)) /\
  Forall (fun p => from_call ops results p /\ snd p < n /\
                   o_cmd (nth (snd p) (s_objs st) dummy_obj) = bs "RCPT") (s_rcpttos st).
Proof. intros. eapply clw_lmtp_pairing; eassumption. Qed.
Print Assumptions C10_lmtp_pairing.

(* The parser fact the three theorems rest on (C17-style round trip): a reply the
   server wrote, followed by anything, delivered in any segmentation, is returned as
   such and exactly its bytes are consumed. *)
Theorem C10_reply_consumed_exactly :
  forall code lines rest buf chunks,
  code3 code -> lines <> [] -> forallb no_lf lines = true ->
  Forall (fun c => c <> []) chunks ->
  buf ++ concat chunks = emit_lines code lines ++ rest ->
  exists buf' chunks',
    recv_reply buf chunks = ROk code (join CRLF lines) buf' chunks' /\
    buf' ++ concat chunks' = rest /\ Forall (fun c => c <> []) chunks'.
Proof. intros. eapply cl_recv_reply_wire; eassumption. Qed.
Print Assumptions C10_reply_consumed_exactly.

(* The formal face of the D21 fix: a call that raises (under the same hypotheses it
   can only be UnicodeEncodeError from a non-encodable identifier/address or
   NotImplementedError) leaves the whole client state - reply_queue, send buffer,
   recipients - exactly as it was: no reply slot exists without its command. *)
Theorem C10_raise_is_noop :
  forall udigit uspace script extra lmtp exts0 ops chunks st results o st' e,
  forallb wf_reply script = true ->
  Forall (fun c => c <> []) chunks ->
  concat chunks = wire script ++ extra ->
  run udigit uspace ops (init lmtp exts0 chunks) = (st, results) ->
  step udigit uspace o st = (st', RExn e) ->
  length (s_objs st') <= length script ->
  st' = st /\ (e = XEncode \/ e = XNotImpl).
Proof. intros. eapply clw_raise_is_noop; eassumption. Qed.
Print Assumptions C10_raise_is_noop.

(* ---- undecodable replies (ISO-8859-1 text, truncated multi-byte sequences, lone
   continuation bytes, overlongs): `script_ok` = every scripted reply is well-formed or
   well-formed-but-not-UTF-8 (`bad_utf8`). ---- *)

(* BadReply for such a reply is raised AFTER the reply has been consumed: whatever the
   segmentation, the buffer continues exactly behind it. *)
Theorem C10_bad_reply_consumed :
  forall udigit uspace old r rest buf chunks,
  bad_utf8 r = true ->
  Forall (fun c => c <> []) chunks ->
  buf ++ concat chunks = wire1 r ++ rest ->
  exists buf' chunks',
    recv_into udigit uspace old buf chunks = FBadReply buf' chunks' /\
    buf' ++ concat chunks' = rest /\ Forall (fun c => c <> []) chunks'.
Proof. intros. eapply cl_recv_into_bad; eassumption. Qed.
Print Assumptions C10_bad_reply_consumed.

(* Pairing when the conversation goes on after a BadReply: an undecodable reply costs the
   call that was reading it a BadReply and leaves exactly its own slot (object j, script[j]
   not well-formed) empty; every other object j < f holds exactly the server's j-th reply,
   the objects handed out are increasing object numbers, the unread ones are the
   reply_queue in order, the stream continues right behind reply f-1, EOF is never read.
   (No call raises AttributeError: result_ok_gen excludes it.) *)
Theorem C10_pairing_with_bad_replies :
  forall udigit uspace script extra lmtp exts0 ops chunks st results,
  forallb script_ok script = true ->
  Forall (fun c => c <> []) chunks ->
  concat chunks = wire script ++ extra ->
  run udigit uspace ops (init lmtp exts0 chunks) = (st, results) ->
  length (s_objs st) <= length script ->
  let n := length (s_objs st) in
  let f := n - length (s_queue st) in
  StronglySorted lt (flat_map result_ids results) /\
  Forall (fun i => i < n) (flat_map result_ids results) /\
  Forall result_ok_gen results /\
  s_queue st = seq f (n - f) /\
  (forall j, j < n ->
    o_r (nth j (s_objs st) dummy_obj) =
      if (j <? f) && wf_reply (nth j script dflt)
      then filled udigit uspace (o_kind (nth j (s_objs st) dummy_obj)) (nth j script dflt)
      else unfilled (o_kind (nth j (s_objs st) dummy_obj))) /\
  s_rbuf st ++ concat (s_chunks st) = wire (skipn f script) ++ extra /\
  Forall (fun c => c <> []) (s_chunks st) /\ s_dead st = false.
Proof. intros. eapply cl_pairing_gen; eassumption. Qed.
Print Assumptions C10_pairing_with_bad_replies.

(* With such scripts a raising call is still a no-op when it raises before the wire; the
   only exception raised after the wire is the BadReply of an undecodable reply. *)
Theorem C10_raise_partial :
  forall udigit uspace script extra lmtp exts0 ops chunks st results o st' e,
  forallb script_ok script = true ->
  Forall (fun c => c <> []) chunks ->
  concat chunks = wire script ++ extra ->
  run udigit uspace ops (init lmtp exts0 chunks) = (st, results) ->
  step udigit uspace o st = (st', RExn e) ->
  length (s_objs st') <= length script ->
  (e = XEncode \/ e = XNotImpl) /\ st' = st \/
  e = XBadReply /\ (exists j, j < length script /\ wf_reply (nth j script dflt) = false).
Proof. intros. eapply cl_raise_gen; eassumption. Qed.
Print Assumptions C10_raise_partial.

(* The statement the former known finding c10:lmtp-data-after-bad-rcpt-reply refuted, true since
   fix d40 (`if rcptto_reply.code and rcptto_reply.code.startswith('2')`): LmtpClient.send_data /
   send_empty_data after ANY history and for ANY script (undecodable replies included) queue
   exactly one end-of-data slot per recipient of the transaction whose RCPT reply is a filled 2xx
   - a recipient whose RCPT reply was a BadReply holds an empty Reply and gets none -, in the order
   of the rcptto calls, as the consecutive new objects n, n+1, ..., and clear the recipient list.
   They never raise AttributeError; the only exception possible is the BadReply of an undecodable
   reply that one of their two flushes had to read (before any slot was queued: nothing changed but
   the replies read; or after: slots queued, list cleared). *)
Theorem C10_lmtp_data_never_fails_on_unanswered_rcpt :
  forall udigit uspace script extra exts0 ops chunks st results o st' res,
  forallb script_ok script = true ->
  Forall (fun c => c <> []) chunks ->
  concat chunks = wire script ++ extra ->
  run udigit uspace ops (init true exts0 chunks) = (st, results) ->
  (o = OSendEmpty \/ exists payload, o = OSendData payload) ->
  step udigit uspace o st = (st', res) ->
  length (s_objs st') <= length script ->
  let n := length (s_objs st) in
  let acc := filter (fun p => wf_reply (nth (snd p) script dflt) &&
                              class2 (fst (nth (snd p) script dflt))) (s_rcpttos st) in
  (res = RPairs (number n (map fst acc)) /\
   length (s_objs st') = n + length acc /\ s_rcpttos st' = []) \/
  (res = RExn XBadReply /\
   ((s_rcpttos st' = s_rcpttos st /\ length (s_objs st') = n) \/
    (s_rcpttos st' = [] /\ length (s_objs st') = n + length acc))).
Proof. intros. eapply cl_lmtp_pairing_gen; eassumption. Qed.
Print Assumptions C10_lmtp_data_never_fails_on_unanswered_rcpt.
