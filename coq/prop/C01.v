(* C01 - accepted mail is never lost: every recipient reaches a final disposition. *)
From Coq Require Import List NArith Bool.
From SV Require Import model.Queue proof.Queue_base proof.Queue_T proof.Queue_L proof.Queue_examples.
Import ListNotations.
Open Scope N_scope.

(* Safety core, for every schedule that respects the relay contract (per-recipient results
   cover every recipient) and fair storage announcements: every accepted recipient is
   delivered, or failed for good with a bounce exactly when its message has a sender, or is
   still outstanding in storage. *)
Theorem C01_no_loss : forall es i r sf, ok_run es init ->
  let s := run es init in
  In (i, r, sf) (g_acc s) ->
  In (i, r) (g_deliv s) \/ In (i, r, sf) (g_fail s) \/ exists m, st_get (s_store s) i = Some m /\ In r (m_rcpts m).
Proof. exact no_loss. Qed.
Print Assumptions C01_no_loss.

(* ... and while it is outstanding the message is in the timetable or being worked on
   (no assumption needed), so it keeps being retried *)
Theorem C01_outstanding_is_tracked : forall es i,
  let s := run es init in
  st_get (s_store s) i <> None ->
  In i (qids_of (s_queued s)) \/ In i (all_ids (s_tasks s)).
Proof. exact not_forgotten. Qed.
Print Assumptions C01_outstanding_is_tracked.

(* A message is removed from storage only when every one of its recipients has a final
   disposition. *)
Theorem C01_removed_only_final : forall es i t rest, ok_run es init ->
  let s := run es init in
  take_task (is_rm i) (s_tasks s) = Some (t, rest) ->
  forall r sf, In (i, r, sf) (g_acc s) -> In (i, r) (g_deliv s) \/ In (i, r, sf) (g_fail s).
Proof. exact removed_only_when_settled. Qed.
Print Assumptions C01_removed_only_final.

(* the hypotheses are satisfiable by a non-trivial schedule (two partial-delivery rounds) *)
Theorem C01_example_schedule_ok : ok_run ex_sched init /\
  let s := run ex_sched init in
  g_deliv s = [(0, 2); (0, 1)] /\ g_fail s = [(0, 3, true)] /\ s_store s = [].
Proof. split; [exact ex_sched_ok|]. destruct ex_sched_result as [A [B [C _]]]. auto. Qed.
Print Assumptions C01_example_schedule_ok.

(* the contract is needed: a per-recipient result that is neither a success nor a relay error
   loses that recipient (what the pipe relay did before D7 was fixed) *)
Theorem C01_contract_needed_refuted :
  let s := run junk_sched init in
  In (0, 2, true) (g_acc s) /\ ~ In (0, 2) (g_deliv s) /\ (forall b, ~ In (0, 2, b) (g_fail s)) /\ st_get (s_store s) 0 = None.
Proof. exact junk_result_loses. Qed.
Print Assumptions C01_contract_needed_refuted.
