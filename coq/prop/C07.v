(* C07 - the SMTP server enforces command order and resets transaction state.
   Statements only; proofs in proof/Server_lemmas.v; model in model/Server.v
   (Server.handle/_command_* + SmtpSession as in the current /repo: fixes d12, d25, d2b, d11, d16, AUTH clear-text gate).

   `run_session cfg vb items` = (one `out` for the connection/banner, then one per command
   line the server read; final state; how handle() ended).  Quantification: every
   configuration, every banner verdict, every list of items; an item is a parsed command
   line (any word, any argument bytes) together with the application's decisions for every
   callback that line can reach (any verdict: keep / any code / raise an Exception, a
   gevent.Timeout or a GreenletExit-like BaseException), the queue result,
   the message content, the AUTH and TLS oracle results. *)
From Coq Require Import List NArith Bool.
From SV Require Import lib.Bytes model.Server proof.Server_lemmas.
Import ListNotations.
Open Scope N_scope.

(* For all command sequences and all decisions of the application, the ordered trace of
   handler callbacks (with their arguments and resulting reply codes) and queue handoffs is
   accepted by the protocol-order automaton `aut_step`: greeting accepted < EHLO/HELO accepted
   < MAIL accepted < RCPT accepted (>= 1) < DATA < content callback; resets by accepted
   EHLO/HELO/RSET and by the content callback; the handoff carries exactly the sender and
   recipients accepted since the last reset; nothing follows a callback that raised or
   answered 221/421. *)
Theorem C07_callbacks_in_order : forall cfg vb items,
  accepts (trace (fst (fst (run_session cfg vb items)))) = true.
Proof. exact callbacks_in_order. Qed.
Print Assumptions C07_callbacks_in_order.

(* In every reachable session state: a malformed command line, or one whose callback the
   automaton does not allow at this point, gets exactly one reply, that reply is 4xx/5xx,
   and no callback is invoked. *)
Theorem C07_error_no_callback : forall cfg vb pre outs st a it,
  run_session cfg vb pre = (outs, st, Continue) ->
  aut_run a_init (trace outs) = Some a ->
  malformed (it_line it) = true \/ out_of_order a (it_line it) = true ->
  o_events (snd (step st it)) = [] /\
  exists c, o_replies (snd (step st it)) = [c] /\ 400 <= c /\ c < 600.
Proof. exact error_no_callback. Qed.
Print Assumptions C07_error_no_callback.

(* From ANY state: after an RSET/EHLO/HELO answered 250, and after every DATA whose content
   was transferred (354 sent; accepted, rejected, too big, queue error, 421 ...), the server's
   have_mailfrom/have_rcptto are false and the edge session's envelope is None - provided no
   callback of that command raised (then the session is over, see C07_raising_callback). *)
Theorem C07_reset : forall st it,
  raised (snd (step st it)) = false ->
  (resets (it_line it) = true /\ o_replies (snd (step st it)) = [250]) \/
  (classify (it_line it) = CData /\ In 354 (o_replies (snd (step st it)))) ->
  s_mail (sv (fst (step st it))) = false /\ s_rcpt (sv (fst (step st it))) = false /\
  e_env (ed (fst (step st it))) = None.
Proof. exact reset_after_command. Qed.
Print Assumptions C07_reset.

(* Between commands the server's flags and the edge's envelope describe the same transaction. *)
Theorem C07_server_edge_agree : forall cfg vb items outs st,
  run_session cfg vb items = (outs, st, Continue) ->
  s_mail (sv st) = is_some (e_env (ed st)) /\ s_rcpt (sv st) = has_rcpt (e_env (ed st)).
Proof. exact server_edge_agree. Qed.
Print Assumptions C07_server_edge_agree.

(* The connection start gets one reply; the i-th command line read gets `inter ++ [c]`:
   one final reply c, preceded only by 354 (DATA accepted), by one 334 per AUTH challenge
   round, or by the 220 of a STARTTLS whose handshake then fails (c = 421, session closed).
   The single documented exception (`killed_shape`, second disjunct of `shape`/`banner_shape`):
   a callback of that line is killed by a GreenletExit-like BaseException (one of the line's
   decisions is VRaise FKill): only the intermediates already written, the session is over.
   Any other raising callback - Exception subclass, gevent.Timeout - is answered (421).
   Lines after the end of the session get nothing. *)
Theorem C07_one_reply_per_command : forall cfg vb items outs st f,
  run_session cfg vb items = (outs, st, f) ->
  exists o0 os, outs = o0 :: os /\
    banner_shape vb o0 /\
    Forall2 shape (firstn (length os) items) os /\
    (length os <= length items)%nat /\
    (f = Continue -> length os = length items).
Proof. exact one_reply_per_command. Qed.
Print Assumptions C07_one_reply_per_command.

(* A 221/421 reply is the last reply of the session: nothing is read or answered after it. *)
Theorem C07_close_codes_end_session : forall cfg vb items outs st f pre o post c,
  run_session cfg vb items = (outs, st, f) ->
  outs = pre ++ o :: post ->
  In c (o_replies o) -> is_close c = true ->
  post = [] /\ f <> Continue /\ exists before, o_replies o = before ++ [c].
Proof. exact close_codes_end_session. Qed.
Print Assumptions C07_close_codes_end_session.

(* ... and the server closes a session on its own only with a 221/421 as last reply. *)
Theorem C07_closed_only_by_close_code : forall cfg vb items outs st,
  run_session cfg vb items = (outs, st, Closed) ->
  exists pre o before c, outs = pre ++ [o] /\ o_replies o = before ++ [c] /\ is_close c = true.
Proof. exact closed_only_by_close_code. Qed.
Print Assumptions C07_closed_only_by_close_code.

(* Whatever a callback raises, the session ends with that command; an Exception subclass or a
   gevent.Timeout (a BaseException) leaking out of the application's callback is answered with a
   final 421; only a kill (GreenletExit family) goes unanswered. *)
Theorem C07_raising_callback : forall st it,
  raised (snd (step st it)) = true ->
  o_fin (snd (step st it)) <> Continue /\
  ((exists inter, o_replies (snd (step st it)) = inter ++ [421]) \/
   (has_kill it = true /\ o_fin (snd (step st it)) = Crashed)).
Proof. exact raising_callback. Qed.
Print Assumptions C07_raising_callback.
