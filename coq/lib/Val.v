(* Universal value type exchanged between the harness and the model.
   VN: a natural number; VB: a list of numbers (bytes of a byte string or code
   points of a text); VL: a list of values.  Definitions only. *)
From Coq Require Import List NArith Bool String.
Import ListNotations.
Open Scope N_scope.

Inductive val : Type :=
| VN (n : N)
| VB (b : list N)
| VL (l : list val).

Definition vbool (b : bool) : val := VN (if b then 1 else 0).
Definition vopt (o : option val) : val :=
  match o with None => VL [] | Some v => VL [v] end.
Definition verr : val := VL [VN 99; VN 99; VN 99].   (* ill-typed input to an entry *)

Definition get_n (v : val) : N := match v with VN n => n | _ => 0 end.
Definition get_b (v : val) : list N := match v with VB b => b | _ => [] end.
Definition get_l (v : val) : list val := match v with VL l => l | _ => [] end.
Definition get_bool (v : val) : bool := negb (N.eqb (get_n v) 0).

Fixpoint list_N_eqb (a b : list N) : bool :=
  match a, b with
  | [], [] => true
  | x :: a', y :: b' => N.eqb x y && list_N_eqb a' b'
  | _, _ => false
  end.

Fixpoint val_eqb (a b : val) {struct a} : bool :=
  match a, b with
  | VN x, VN y => N.eqb x y
  | VB x, VB y => list_N_eqb x y
  | VL x, VL y =>
      (fix go (x : list val) (y : list val) {struct x} : bool :=
         match x, y with
         | [], [] => true
         | v :: x', w :: y' => val_eqb v w && go x' y'
         | _, _ => false
         end) x y
  | _, _ => false
  end.

Definition entry := (string * (val -> val))%type.

Fixpoint find_entry (es : list entry) (name : string) : option (val -> val) :=
  match es with
  | [] => None
  | (n, f) :: es' => if String.eqb n name then Some f else find_entry es' name
  end.

Definition dispatch (es : list entry) (name : string) (v : val) : val :=
  match find_entry es name with
  | Some f => f v
  | None => VL [VN 98; VN 98; VN 98]
  end.
