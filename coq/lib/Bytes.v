(* Byte strings as lists of N (each < 256 when they come from the wire) and the
   line primitives the code builds with Python's `re`.  Definitions only;
   lemmas live in proof/Bytes_lemmas.v. *)
From Coq Require Import List NArith Bool.
Import ListNotations.
Open Scope N_scope.

Definition byte := N.
Definition bytes := list N.

Definition CR : N := 13.
Definition LF : N := 10.
Definition CRLF : bytes := [13; 10].

Definition is_digit (b : N) : bool := (48 <=? b) && (b <=? 57).
Definition is_upper (b : N) : bool := (65 <=? b) && (b <=? 90).
Definition is_lower (b : N) : bool := (97 <=? b) && (b <=? 122).
Definition is_alpha (b : N) : bool := is_upper b || is_lower b.
(* Python bytes-pattern \s : [ \t\n\r\f\v] *)
Definition is_ws (b : N) : bool :=
  (b =? 32) || (b =? 9) || (b =? 10) || (b =? 13) || (b =? 12) || (b =? 11).
Definition to_upper (b : N) : N := if is_lower b then b - 32 else b.

Fixpoint beqb (a b : bytes) : bool :=
  match a, b with
  | [], [] => true
  | x :: a', y :: b' => (x =? y) && beqb a' b'
  | _, _ => false
  end.

Fixpoint starts_with (p s : bytes) : bool :=
  match p, s with
  | [], _ => true
  | x :: p', y :: s' => (x =? y) && starts_with p' s'
  | _ :: _, [] => false
  end.

(* Remove exactly one trailing CR, if there is one: the effect of `\r?` after
   a non-greedy `(.*?)` in front of `\n`. *)
Fixpoint strip_cr (l : bytes) : bytes :=
  match l with
  | [] => []
  | [x] => if x =? 13 then [] else [x]
  | x :: l' => x :: strip_cr l'
  end.

(* Split at every LF.  Result: the complete raw lines, each *without* its LF
   (but with its CR if any), and the unterminated tail.
   unraw lines ++ tail = input. *)
Fixpoint split_lf (s : bytes) : list bytes * bytes :=
  match s with
  | [] => ([], [])
  | b :: s' =>
      let '(ls, t) := split_lf s' in
      if b =? 10 then ([] :: ls, t)
      else match ls with
           | [] => ([], b :: t)
           | l :: ls' => ((b :: l) :: ls', t)
           end
  end.

(* First line of s: Some (raw line without LF, rest after LF) *)
Fixpoint take_line (s : bytes) : option (bytes * bytes) :=
  match s with
  | [] => None
  | b :: s' =>
      if b =? 10 then Some ([], s')
      else match take_line s' with
           | Some (l, r) => Some (b :: l, r)
           | None => None
           end
  end.

Definition unraw (ls : list bytes) : bytes := concat (map (fun l => l ++ [10]) ls).

Fixpoint join (sep : bytes) (ls : list bytes) : bytes :=
  match ls with
  | [] => []
  | [l] => l
  | l :: ls' => l ++ sep ++ join sep ls'
  end.

(* decimal *)
Fixpoint dec_val_acc (acc : N) (ds : bytes) : N :=
  match ds with
  | [] => acc
  | d :: ds' => dec_val_acc (acc * 10 + (d - 48)) ds'
  end.
Definition dec_val (ds : bytes) : N := dec_val_acc 0 ds.

Definition all_b (p : N -> bool) (l : bytes) : bool := forallb p l.
