(* Association-list finite maps over a key type with a boolean equality.
   Definitions only; lemmas live in proof/Assoc_lemmas.v.
   `aset` puts the binding in front after deleting every older binding of the
   key, so the key list of a map built with aset/adel never has duplicates. *)
From Coq Require Import List Bool.
Import ListNotations.

Section Assoc.
  Variables (K V : Type).
  Variable keqb : K -> K -> bool.

  Definition amap := list (K * V).

  Fixpoint alookup (m : amap) (k : K) : option V :=
    match m with
    | [] => None
    | (k', v) :: m' => if keqb k' k then Some v else alookup m' k
    end.

  Fixpoint adel (m : amap) (k : K) : amap :=
    match m with
    | [] => []
    | (k', v) :: m' => if keqb k' k then adel m' k else (k', v) :: adel m' k
    end.

  Definition aset (m : amap) (k : K) (v : V) : amap := (k, v) :: adel m k.

  Definition amem (m : amap) (k : K) : bool :=
    match alookup m k with Some _ => true | None => false end.

  Definition akeys (m : amap) : list K := map fst m.
End Assoc.

Arguments alookup {K V} keqb m k.
Arguments adel {K V} keqb m k.
Arguments aset {K V} keqb m k v.
Arguments amem {K V} keqb m k.
Arguments akeys {K V} m.
