(* Generic interleaving framework (shared; no property theorems).

   A system is a state type, an event type, an initial state and a partial
   step function: [step s e = None] means "event e is not enabled in s".
   A *schedule* is a list of events chosen by an arbitrary scheduler /
   environment; [run] executes a schedule, skipping events that are not
   enabled (a disabled event is a no-op), so a theorem quantified over all
   event lists is a theorem over all interleavings of the enabled events.
   [run_strict] insists that every event is enabled (used to validate traces
   observed on the implementation: every observed event must be a transition
   of the model).

   Main tool: [inv_run] / [inv_reachable] --
     Inv init -> (forall s e s', Inv s -> step s e = Some s' -> Inv s')
     -> forall es, Inv (run es init). *)
From Coq Require Import List.
Import ListNotations.

Record sys : Type := mkSys {
  state : Type;
  event : Type;
  init : state;
  step : state -> event -> option state
}.

Section Sys.
  Variable S : sys.

  Definition enabled (s : state S) (e : event S) : Prop := step S s e <> None.

  (* one scheduler choice: take the step if it is enabled, otherwise nothing happens *)
  Definition exec (s : state S) (e : event S) : state S :=
    match step S s e with Some s' => s' | None => s end.

  Definition run_from (s : state S) (es : list (event S)) : state S := fold_left exec es s.
  Definition run (es : list (event S)) : state S := run_from (init S) es.

  (* every event must be enabled; None as soon as one is not *)
  Fixpoint run_strict_from (s : state S) (es : list (event S)) : option (state S) :=
    match es with
    | [] => Some s
    | e :: es' => match step S s e with
                  | Some s' => run_strict_from s' es'
                  | None => None
                  end
    end.
  Definition run_strict (es : list (event S)) : option (state S) := run_strict_from (init S) es.

  Inductive reachable : state S -> Prop :=
  | reach_init : reachable (init S)
  | reach_step : forall s e s', reachable s -> step S s e = Some s' -> reachable s'.

  (* a state is quiescent w.r.t. a class of events when none of them is enabled *)
  Definition quiescent (internal : event S -> Prop) (s : state S) : Prop :=
    forall e, internal e -> step S s e = None.

  Lemma run_from_app : forall es1 es2 s,
      run_from s (es1 ++ es2) = run_from (run_from s es1) es2.
  Proof. intros. unfold run_from. apply fold_left_app. Qed.

  Lemma run_snoc : forall es e, run (es ++ [e]) = exec (run es) e.
  Proof. intros. unfold run. rewrite run_from_app. reflexivity. Qed.

  Section Invariant.
    Variable Inv : state S -> Prop.
    Hypothesis inv_step : forall s e s', Inv s -> step S s e = Some s' -> Inv s'.

    Lemma inv_exec : forall s e, Inv s -> Inv (exec s e).
    Proof.
      intros s e H. unfold exec. destruct (step S s e) eqn:E; [eapply inv_step; eauto | exact H].
    Qed.

    Lemma inv_run_from : forall es s, Inv s -> Inv (run_from s es).
    Proof.
      induction es as [|e es IH]; intros s H; cbn; [exact H|].
      apply IH. apply inv_exec. exact H.
    Qed.

    Lemma inv_run : Inv (init S) -> forall es, Inv (run es).
    Proof. intros H es. apply inv_run_from. exact H. Qed.

    Lemma inv_reachable : Inv (init S) -> forall s, reachable s -> Inv s.
    Proof. intros H s R. induction R; [exact H | eapply inv_step; eauto]. Qed.

    Lemma inv_run_strict_from : forall es s s', Inv s -> run_strict_from s es = Some s' -> Inv s'.
    Proof.
      induction es as [|e es IH]; intros s s' H E; cbn in E.
      - inversion E; subst; exact H.
      - destruct (step S s e) eqn:E1; [|discriminate]. eapply IH; [|exact E]. eapply inv_step; eauto.
    Qed.
  End Invariant.

  (* invariants restricted to schedules whose events all satisfy a predicate
     (e.g. "the environment respects a contract") *)
  Section GuardedInvariant.
    Variable P : event S -> Prop.
    Variable Inv : state S -> Prop.
    Hypothesis inv_step : forall s e s', P e -> Inv s -> step S s e = Some s' -> Inv s'.

    Lemma inv_run_from_guarded : forall es s, Forall P es -> Inv s -> Inv (run_from s es).
    Proof.
      induction es as [|e es IH]; intros s F H; cbn; [exact H|].
      inversion F; subst. apply IH; [assumption|].
      unfold exec. destruct (step S s e) eqn:E; [eapply inv_step; eauto | exact H].
    Qed.

    Lemma inv_run_guarded : Inv (init S) -> forall es, Forall P es -> Inv (run es).
    Proof. intros H es F. apply inv_run_from_guarded; assumption. Qed.
  End GuardedInvariant.

  (* run = reachable *)
  Lemma run_reachable : forall es, reachable (run es).
  Proof.
    intros es. apply inv_run; [|constructor].
    intros s e s' R E. econstructor; eauto.
  Qed.

  Lemma reachable_run : forall s, reachable s -> exists es, run es = s.
  Proof.
    intros s R. induction R as [|s e s' R [es IH] E].
    - exists []. reflexivity.
    - exists (es ++ [e]). rewrite run_snoc, IH. unfold exec. rewrite E. reflexivity.
  Qed.

  Lemma run_strict_from_run : forall es s s', run_strict_from s es = Some s' -> run_from s es = s'.
  Proof.
    induction es as [|e es IH]; intros s s' E; cbn in *.
    - inversion E; reflexivity.
    - destruct (step S s e) eqn:E1; [|discriminate].
      replace (exec s e) with s0 by (unfold exec; rewrite E1; reflexivity). apply IH; exact E.
  Qed.

  Lemma run_strict_reachable : forall es s, run_strict es = Some s -> reachable s.
  Proof.
    intros es s E. apply run_strict_from_run in E. unfold run_strict in E.
    change (run es = s) in E. rewrite <- E. apply run_reachable.
  Qed.
End Sys.

Arguments enabled {S}. Arguments exec {S}. Arguments run_from {S}. Arguments run {S}.
Arguments run_strict_from {S}. Arguments run_strict {S}. Arguments reachable {S}.
Arguments quiescent {S}.
