#!/bin/bash
# tools/final_seed_sweep.sh [seed names...]   (default: all of seeded/*)
# The procedure of the brief, literally: apply the seeded change to /repo itself (git apply), run the
# REGISTERED check of the property it breaks (no VERIF_DEV, no VERIF_REPO), restore /repo straight
# afterwards.  Only run while nothing else is using /repo or building in /verif.
cd /verif || exit 2
[ -n "$(git -C /repo status --porcelain)" ] && { echo "/repo is not clean"; exit 2; }
NAMES="$@"; [ -z "$NAMES" ] && NAMES=$(ls seeded | sort -t- -k1,1 -k2,2n)
for N in $NAMES; do
  P=${N%%-*}
  HOW=git-apply
  PATCH=/verif/seeded/$N/patch.diff
  # a seed written against an earlier /repo HEAD whose lines were since rewritten by fix: commits is
  # kept as delivered; patch_head.diff is the same change ported by hand to the current HEAD
  [ -f /verif/seeded/$N/patch_head.diff ] && PATCH=/verif/seeded/$N/patch_head.diff && HOW=git-apply-ported
  if ! git -C /repo apply $PATCH 2>/dev/null; then
    if (cd /repo && patch -p1 -F3 --no-backup-if-mismatch < $PATCH 2>&1 | grep -q "offset -\?[0-9][0-9]"); then
      git -C /repo checkout -q -- .; git -C /repo clean -fdq; echo "$N $P applies-only-with-a-large-offset (wrong site): needs patch_head.diff"; continue
    elif [ -n "$(git -C /repo status --porcelain)" ]; then HOW=patch-F3
    else git -C /repo checkout -q -- .; git -C /repo clean -fdq; echo "$N $P does-not-apply"; python3 - $N <<'PY'
import json,sys
f='/verif/seeded/%s/meta.json'%sys.argv[1]; m=json.load(open(f)); m['final_sweep']=dict(result='patch no longer applies to /repo HEAD (later fix: commits rewrote those lines); last evaluated result stands'); json.dump(m,open(f,'w'),indent=1)
PY
      continue
    fi
  fi
  find /repo -name '*.orig' -o -name '*.rej' | xargs -r rm -f
  VERIF_EVIDENCE_DIR=/tmp/verif-evidence-sweep timeout 1800 ./check $P --tier quick > /tmp/sweep-$N.out 2>&1; RC=$?
  git -C /repo checkout -q -- .; git -C /repo clean -fdq
  KEYS=$(for f in $(grep "^VIOLATION" /tmp/sweep-$N.out | sed 's/.*replay=\([^ ]*\).*/\1/'); do python3 -c "import json,sys;d=json.load(open('/verif/'+sys.argv[1]));print(d.get('key') or d.get('kind'))" $f; done | sort -u | tr '\n' ',')
  echo "$N $P rc=$RC $HOW $KEYS"
  python3 - $N $RC "$HOW" "$KEYS" <<'PY'
import json,sys,subprocess
n,rc,how,keys=sys.argv[1:5]
f='/verif/seeded/%s/meta.json'%n; m=json.load(open(f))
m['final_sweep']=dict(applied_to='/repo itself ('+how+'), restored with git checkout -- . straight afterwards', repo_head=subprocess.run(['git','-C','/repo','rev-parse','--short','HEAD'],capture_output=True,text=True).stdout.strip(),
                      check='./check %s --tier quick'%n.split('-')[0], exit=int(rc), keys=keys)
json.dump(m,open(f,'w'),indent=1)
PY
done
[ -n "$(git -C /repo status --porcelain)" ] && echo "WARNING: /repo not clean after the sweep"
