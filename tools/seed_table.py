#!/usr/bin/env python3
"""Prints the DESIGN.md §11 table from seeded/*/meta.json (and rewrites the section in DESIGN.md with --write)."""
import json, glob, os, sys, re
V = '/verif'
rows = []
for f in sorted(glob.glob(V + '/seeded/*/meta.json'), key=lambda p: (os.path.basename(os.path.dirname(p)).split('-')[0], int(os.path.basename(os.path.dirname(p)).split('-')[1]))):
    m = json.load(open(f))
    ok = m.get('patch_applies') == 'ok' and '449 passed' in m.get('suite_with_patch', '') and m.get('demo_exit_with_patch') not in (0, None) and m.get('demo_exit_without_patch') == 0
    caught = []
    for c in m.get('checks', []):
        if c['exit'] == 1:
            keys = [k for k in c['keys'].split(',') if k]
            concrete = [k for k in keys if k not in ('mismatch', 'obligation', 'None')]
            caught.append('%s: %s%s' % (c['check'], ', '.join('`%s`' % k for k in concrete[:3]) or '(model/impl correspondence or theorem broke)',
                                         '' if concrete else ' no-failing-input-found'))
        elif c['exit'] == 0:
            caught.append('%s: not noticed' % c['check'])
        else:
            caught.append('%s: CHECK-BROKEN (%s)' % (c['check'], c['exit']))
    idea = re.sub(r'^C\d\d-\d+\s*[-—–]+\s*', '', m.get('idea', ''))
    fs = m.get('final_sweep') or {}
    if 'exit' in fs:
        keys = [k for k in fs.get('keys', '').split(',') if k]
        conc = [k for k in keys if k not in ('mismatch', 'obligation', 'None', 'no-failing-input-found')]
        sweep = 'exit %d%s' % (fs['exit'], (': ' + ', '.join('`%s`' % k for k in conc[:2])) if conc else (' no-failing-input-found' if fs['exit'] == 1 else ' (not noticed by its own property; see previous column)'))
        if 'patch_head.diff' in os.listdir(os.path.dirname(f)):
            sweep += ' (patch ported to HEAD: patch_head.diff)'
    else:
        sweep = fs.get('result', '')
    rows.append('| %s | %s | %s | %s | %s | %s |' % (m['seed'], idea.replace('|', '/'), 'yes' if ok else 'NO', '; '.join(caught).replace('|', '/'), sweep.replace('|', '/'), m.get('first_round', '').replace('|', '/')))
table = '| seed | change | verified (suite 449/17, demo fails with / passes without) | result of `./check` on the patched scratch tree (quick tier; own property and neighbours) | final sweep: patch applied to /repo itself, registered `./check <own property>`, /repo restored | history |\n|---|---|---|---|---|---|\n' + '\n'.join(rows)
if '--write' in sys.argv:
    p = V + '/DESIGN.md'
    s = open(p).read()
    a = s.index('<!-- SEED-TABLE-BEGIN -->') + len('<!-- SEED-TABLE-BEGIN -->')
    b = s.index('<!-- SEED-TABLE-END -->')
    open(p, 'w').write(s[:a] + '\n' + table + '\n' + s[b:])
else:
    print(table)
