#!/usr/bin/env python3
"""Writes /verif/MANIFEST.json from tools/manifest_checks.json (per-property texts)."""
import json, os
V = '/verif'
checks_src = json.load(open(os.path.join(V, 'tools', 'manifest_checks.json')))
props = [json.loads(l)['id'] for l in open(os.path.join(V, 'properties.jsonl'))]
checks = []
na = []
for pid in props:
    c = checks_src.get(pid)
    if c and not c.get('not_applicable'):
        checks.append(dict(
            property_id=pid,
            quick_cmd='./check %s --tier quick' % pid,
            thorough_cmd='./check %s --tier thorough' % pid,
            evidence_file='evidence/%s.json' % pid,
            replay_cmd_template='./check %s --replay {path}' % pid,
            engine='coq-proof+correspondence',
            level_claimed=dict(category='proof', text=c['text'], design_ref=c.get('design_ref', 'DESIGN.md §7 ' + pid)),
            level_note=c['note'],
            technique=c.get('technique', 'Coq theorems over a hand-written Gallina model + differential correspondence check (extracted model vs real code)'),
        ))
    else:
        na.append(dict(property_id=pid, reason=(c or {}).get('reason', 'check not built yet in this round; no claim is made')))
m = dict(
    version=1,
    setup_cmd='./build.sh',
    hooks=dict(guard='SLIMTA_VERIF_HOOKS', enable='no hooks exist: the harness observes /repo from outside (module-namespace patches, fake sockets/stores); nothing to enable',
               baseline_off_cmd='cd /repo && /venv/bin/python -m pytest -ra -q -p no:cacheprovider --timeout=900 --continue-on-collection-errors',
               source_commits=[], add_only=True),
    engines=[dict(name='coq-proof+correspondence', path='check', serves_properties=[c['property_id'] for c in checks],
                  kind_free_text='Coq 8.16 theorems over hand-written executable Gallina models (coq/), extracted to OCaml (ocaml/driver) and compared with the real Python code on generated/exhaustive cases by harness/props/*.py; property oracle on the implementation for replays')],
    checks=checks,
    notes='See DESIGN.md. Exit codes of ./check: 0 held, 1 VIOLATION, 2 CHECK-BROKEN (machinery fault, never a VIOLATION line). known_findings.json lists recorded/fixed defects.',
    not_applicable=na,
)
json.dump(m, open(os.path.join(V, 'MANIFEST.json'), 'w'), indent=1)
print('checks:', [c['property_id'] for c in checks], 'na:', len(na))
