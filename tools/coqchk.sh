#!/bin/bash
# Re-checks every property file (and everything it depends on) with Coq's independent checker
# and records the axioms it reports.  Slow (minutes, GBs); run once per round, not per check.
cd /verif/coq || exit 2
MODS=$(ls prop/*.vo | sed 's#prop/\(.*\)\.vo#SV.prop.\1#')
( ulimit -s unlimited; flock -s /verif/.build.lock timeout 7200 coqchk -silent -o -Q . SV $MODS ) > /verif/evidence/coqchk.txt 2>&1
rc=$?
echo "coqchk exit=$rc" >> /verif/evidence/coqchk.txt
tail -25 /verif/evidence/coqchk.txt
exit $rc
