#!/bin/bash
# tools/eval_seed.sh <seed-dir> <seed-name> <prop-id> [more prop ids]
# Verifies a seeded property-breaking change (suite still 449/17, demo fails with / passes
# without) in a scratch worktree, runs our checks against it, records seeded/<name>/meta.json.
set -u
SEED=$1; NAME=$2; shift 2
WT=/tmp/seedeval-$NAME
OUT=/verif/seeded/$NAME
mkdir -p $OUT
cp $SEED/patch.diff $SEED/demo.py $OUT/ 2>/dev/null
[ -f $SEED/notes.md ] && cp $SEED/notes.md $OUT/
git -C /repo worktree remove --force $WT >/dev/null 2>&1
git -C /repo worktree add -f $WT HEAD -q || exit 9
APPLY=ok; BASE=HEAD
if git -C $WT apply $SEED/patch.diff 2>/dev/null; then :
elif (cd $WT && patch -p1 -F3 -s --no-backup-if-mismatch < $SEED/patch.diff >/dev/null 2>&1); then APPLY=ok; BASE="HEAD (patch -F3: context moved by later fix commits)"
else
  git -C $WT checkout -q -- . 2>/dev/null
  # the seed was written against an earlier /repo HEAD (later fix: commits touched the same lines)
  if [ -n "${SEED_BASE:-}" ]; then
    git -C /repo worktree remove --force $WT >/dev/null 2>&1
    git -C /repo worktree add -f $WT $SEED_BASE -q || exit 9
    BASE=$SEED_BASE
    git -C $WT apply $SEED/patch.diff || APPLY=failed
  else
    APPLY=failed
  fi
fi
find $WT -name '*.orig' -o -name '*.rej' | xargs -r rm -f
SUITE=$(cd $WT && /venv/bin/python -m pytest -q -p no:cacheprovider --timeout=900 --continue-on-collection-errors test 2>&1 | tail -1)
(cd /tmp && PYTHONPATH=$WT PYTHONWARNINGS=ignore timeout 300 /venv/bin/python $SEED/demo.py >/tmp/seedeval-$NAME.demo1 2>&1); D1=$?
(cd /tmp && PYTHONPATH=/repo PYTHONWARNINGS=ignore timeout 300 /venv/bin/python $SEED/demo.py >/tmp/seedeval-$NAME.demo0 2>&1); D0=$?
RES="["
for P in "$@"; do
  (cd /verif && VERIF_DEV=1 VERIF_REPO=$WT timeout 1800 ./check $P > /tmp/seedeval-$NAME.$P.out 2>&1); RC=$?
  VL=$(grep -c "^VIOLATION" /tmp/seedeval-$NAME.$P.out)
  KEYS=$(for f in $(grep "^VIOLATION" /tmp/seedeval-$NAME.$P.out | sed 's/.*replay=\([^ ]*\).*/\1/'); do python3 -c "import json,sys;d=json.load(open('/verif/'+sys.argv[1]));print(d.get('key') or d.get('kind'))" $f; done | sort -u | tr '\n' ',' )
  NOFAIL=$(grep -c "no-failing-input-found" /tmp/seedeval-$NAME.$P.out)
  RES="$RES{\"check\":\"$P\",\"exit\":$RC,\"violation_lines\":$VL,\"keys\":\"$KEYS\",\"no_failing_input_found\":$NOFAIL},"
done
RES="${RES%,}]"
git -C /repo worktree remove --force $WT >/dev/null 2>&1
python3 - "$OUT" "$NAME" "$APPLY" "$SUITE" "$D1" "$D0" "$RES" "$BASE" <<'PY'
import json,sys
out,name,apply,suite,d1,d0,res=sys.argv[1:8]
meta=dict(seed=name, patch_applies=apply, suite_with_patch=suite, demo_exit_with_patch=int(d1), demo_exit_without_patch=int(d0), checks=json.loads(res),
          base=sys.argv[8], ran='git worktree of /repo <base> + patch; pytest suite; demo.py with PYTHONPATH=<patched tree> and =/repo; VERIF_REPO=<patched tree> ./check <id> (quick tier)')
import re, time, subprocess
try:
    old=json.load(open(out+'/meta.json'))
except Exception:
    old={}
hist=old.get('history', [])
hist.append(dict(repo_head=subprocess.run(['git','-C','/repo','rev-parse','--short','HEAD'],capture_output=True,text=True).stdout.strip(),
                 verif_head=subprocess.run(['git','-C','/verif','rev-parse','--short','HEAD'],capture_output=True,text=True).stdout.strip(),
                 checks=meta['checks']))
meta={**old, **meta, 'history': hist}
meta['breaks_property']=name.split('-')[0]
try:
    notes=open(out+'/notes.md').read()
    meta['idea']=notes.splitlines()[0].lstrip('# ').strip()
    m=re.search(r'^#+\s*What it needs[^\n]*\n(.*?)(?=^#+\s|\Z)', notes, re.S|re.M|re.I)
    if not m:
        m=re.search(r'(?:what it )?needs,?(?: in order)? to manifest[^\n]*?[:*]+\s*(.*?)(?=\n\s*\n|\Z)', notes, re.S|re.I)
    if m:
        meta['needs_to_manifest']=' '.join(m.group(1).split())[:900]
except Exception:
    pass
json.dump(meta, open(out+'/meta.json','w'), indent=1)
print(json.dumps(meta))
PY
