#!/usr/bin/env python
"""C14 translator: blocking call site -> enclosing `with Timeout(...)` scope.

    timeouts_ast.py OUT.v            write the Coq table (coq/gen/TimeoutTable.v)
    timeouts_ast.py --json [FILE]    write the same table as JSON (stdout if no FILE)

Parses, with Python's `ast`, the CURRENT source under $VERIF_REPO (default
/repo) of

    slimta/relay/smtp/client.py      SmtpRelayClient
    slimta/relay/smtp/lmtpclient.py  LmtpRelayClient   (inherits SmtpRelayClient)
    slimta/smtp/server.py            Server
    slimta/relay/pipe.py             PipeRelay, MaildropRelay, DovecotLdaRelay
    slimta/relay/http.py             HttpRelayClient

and emits, for every method (inherited methods are flattened into the
subclass), one `site` per call that is not known to be pure: the kind of the
call, the lexically enclosing `with Timeout(<expr>)` (innermost) or none, and
line numbers.  Calls to other scanned methods are emitted as KCall sites so
that the Coq side (model/Timeouts.v: `exposed`, `site_guarded`) can resolve
helpers: a helper's unscoped site is guarded iff every call path to it passes
through a scope.

FAIL-CLOSED.  Every `ast.Call` inside a scanned method must be classified by
one of the explicit tables below; anything else (unknown callee, unknown method
on an I/O object, nested def/lambda/await/yield, unknown decorator, a `with`
item that is not Timeout, a Timeout object used outside `with`) is exit 1.
A timeout expression that is not one of the configured-timeout attributes is
emitted as `TOther "<expr>"`, which the Coq side treats as NOT a guard.
Attribute loads (properties) are not calls and are not examined (stated limit).
A site inside an `except` handler that can catch Timeout (bare, Timeout, BaseException,
or a tuple containing one) or inside a `finally` is emitted with the pseudo scope
`TExpired` unless a `with Timeout(...)` is opened inside the handler: it runs after a
timer may have fired, so no enclosing or inherited scope bounds it.
"""
import ast
import json
import os
import sys

REPO = os.environ.get('VERIF_REPO') or '/repo'

# class label -> (file, base class label or None)
CLASSES = [
    ('SmtpRelayClient', 'slimta/relay/smtp/client.py', None),
    ('LmtpRelayClient', 'slimta/relay/smtp/lmtpclient.py', 'SmtpRelayClient'),
    ('Server', 'slimta/smtp/server.py', None),
    ('PipeRelay', 'slimta/relay/pipe.py', None),
    ('MaildropRelay', 'slimta/relay/pipe.py', 'PipeRelay'),
    ('DovecotLdaRelay', 'slimta/relay/pipe.py', 'PipeRelay'),
    ('HttpRelayClient', 'slimta/relay/http.py', None),
]

TIMEOUT_EXPRS = {
    'self.connect_timeout': 'TConnect',
    'self.command_timeout': 'TCommand',
    'self.data_timeout': 'TData',
    'self.timeout': 'TSingle',
    'self.relay.timeout': 'TSingle',
    'self.idle_timeout': 'TIdle',
}

ALLOWED_DECORATORS = ('current_command', 'property')

# ---- calls on I/O objects: explicit, anything else under these roots is an error
CLIENT_METHODS = {   # self.client.<m>   (slimta.smtp.client.Client / LmtpClient)
    'get_banner': 'KExchange', 'ehlo': 'KExchange', 'helo': 'KExchange', 'lhlo': 'KExchange',
    'starttls': 'KExchange', 'auth': 'KExchange', 'rset': 'KExchange', 'mailfrom': 'KExchange',
    'rcptto': 'KExchange', 'data': 'KExchange', 'send_data': 'KExchange',
    'send_empty_data': 'KExchange', 'get_reply': 'KExchange', 'quit': 'KExchange',
    'custom_command': 'KExchange', '_flush_pipeline': 'KExchange',
    'encrypt': 'KHandshake',
    'has_reply_waiting': 'KPoll',     # bounded by its own wait_read(fd, <const>, Timeout()); verified below
}
IO_METHODS = {       # self.io.<m> / self.client.io.<m>   (slimta.smtp.io.IO)
    'recv_command': 'KRead', 'recv_line': 'KRead', 'recv_reply': 'KRead',
    'buffered_recv': 'KRead', 'raw_recv': 'KRead',
    'flush_send': 'KWrite', 'raw_send': 'KWrite',
    'encrypt_socket_server': 'KHandshake', 'encrypt_socket_client': 'KHandshake',
    'send_reply': None, 'send_command': None, 'buffered_send': None,   # buffer only
    'close': 'KClose',
}
CONN_METHODS = {     # self.conn.<m>   (http.client.HTTPConnection)
    'putrequest': None, 'putheader': None,                              # buffer only
    'endheaders': 'KExchange', 'send': 'KExchange', 'getresponse': 'KExchange',
    'request': 'KExchange', 'connect': 'KConnect',
    'close': 'KClose',
}
TYPED_METHODS = {    # local variables whose type is inferred from their assignment
    'DataReader': {'recv': 'KRead', 'recv_piece': 'KRead'},
    'Popen': {'communicate': 'KProc', 'wait': 'KProc',                  # wait for the child
              'terminate': None, 'kill': None, 'poll': None, 'send_signal': None},   # return at once
    'AuthSession': {'server_attempt': 'KRead', 'client_attempt': 'KExchange'},
}
TYPE_SOURCES = {     # callee text of the assigned value -> inferred type
    'DataReader': 'DataReader', 'subprocess.Popen': 'Popen', 'AuthSession': 'AuthSession',
}
SELF_CALLABLES = {   # self.<attr>(...) where attr is not a scanned method
    'socket_creator': 'KConnect',
    'poll': 'KLocal',          # RelayPoolClient.poll: waits on the relay's own request queue
    'ehlo_as': 'KLocal', 'credentials': 'KLocal',      # user supplied callables
    'kill': 'KLocal',
    '_client_class': None,     # Client(socket, address) / LmtpClient(...): constructor, no I/O
}
EXACT = {            # dotted callee text -> kind (None = pure, not emitted)
    'subprocess.Popen': 'KProc',
    'socket.getfqdn': 'KLocal',
    'self.relay.ehlo_as': 'KLocal',
    'get_connection': None,    # builds the HTTP(S)Connection object, no I/O (slimta/http/__init__.py)
    'isinstance': None, 'hasattr': None, 'getattr': None, 'len': None, 'str': None, 'int': None,
    'range': None, 'enumerate': None, 'dict.fromkeys': None, 'set': None, 'list': None,
    # builtins that cannot wait for a peer
    'type': None, 'all': None, 'any': None, 'sorted': None, 'min': None, 'max': None, 'bool': None,
    'tuple': None, 'dict': None, 'repr': None, 'bytes': None, 'zip': None, 'sum': None, 'abs': None,
    'issubclass': None, 'callable': None, 'reversed': None, 'frozenset': None, 'float': None, 'id': None,
    'Reply': None, 'Extensions': None, 'IO': None, 'DataReader': None, 'AuthSession': None,
    'SASLAuth.named': None, 'SASLAuth.defaults': None,
    'StopIteration': None, 'ConnectionLost': None, 'TransientRelayError': None,
    'PermanentRelayError': None, 'SmtpRelayError.factory': None,
    'b64encode': None, 'urlparse.urlsplit': None, 're.match': None, 're.finditer': None,
    'find_outside_quotes': None,
}
PURE_METHODS = {     # <value>.<m>(...) on values that are not I/O objects
    # Reply / Envelope / AsyncResult(non-waiting) / Extensions / deque(non-waiting) / http response
    'is_error', 'copy', 'flatten', 'encode_7bit', 'set', 'set_exception', 'ready', 'appendleft',
    'add', 'reset', 'drop', 'getparam', 'build_string', 'parse_string', 'getheader', 'getheaders',
    '__init__',
    # str / bytes
    'decode', 'encode', 'upper', 'lower', 'title', 'capitalize', 'casefold', 'format', 'startswith',
    'endswith', 'strip', 'lstrip', 'rstrip', 'split', 'rsplit', 'splitlines', 'partition', 'rpartition',
    'replace', 'find', 'rfind', 'index', 'count', 'isdigit', 'isalpha', 'isalnum', 'isspace',
    'zfill', 'ljust', 'rjust', 'center', 'translate', 'hex',
    'join',              # only with exactly one positional argument (str.join), see pure_method_ok
    # list / dict / set / BytesIO
    'append', 'extend', 'insert', 'remove', 'sort', 'reverse', 'clear',
    'get',               # only with one or two positional arguments (dict.get), see pure_method_ok
    'items', 'keys', 'values', 'setdefault', 'update', 'discard', 'union', 'getvalue',
    # re
    'match', 'search', 'fullmatch', 'finditer', 'findall', 'sub', 'group', 'groups', 'start', 'end', 'span',
}
LOG_ROOT = 'log'
IO_ROOTS = ('self.client.io', 'self.client', 'self.io', 'self.conn', 'self.socket')    # longest first
# attributes of the I/O objects that hold plain data (a Reply, bytes, a list, Extensions):
# pure methods reached THROUGH one of these are pure; everything else under an I/O root
# that is not in the explicit tables stays an error.
IO_DATA_ATTRS = {
    'self.client': ('last_error', 'extensions', 'reply_queue', 'rcpttos'),
    'self.client.io': ('recv_buffer', 'send_buffer', 'address'),
    'self.io': ('recv_buffer', 'send_buffer', 'address'),
    'self.conn': ('host', 'port'),
    'self.socket': (),
}


def io_root_of(name):
    """(root, [attributes after the root]) when the dotted name lies under an I/O object"""
    for root in IO_ROOTS:
        if name == root:
            return root, []
        if name.startswith(root + '.'):
            return root, name[len(root) + 1:].split('.')
    return None, None


def io_data_chain(name):
    """True: under an I/O root but through one of its data attributes (self.client.last_error...)"""
    root, rest = io_root_of(name)
    return root is not None and len(rest) >= 1 and rest[0] in IO_DATA_ATTRS[root]


def pure_method_ok(call, attr):
    """argument shapes that tell str.join / dict.get from Greenlet.join() / AsyncResult.get()"""
    if attr not in PURE_METHODS:
        return False
    if attr == 'join':
        return len(call.args) == 1 and not call.keywords
    if attr == 'get':
        return 1 <= len(call.args) <= 2 and not call.keywords
    return True


class Unclassified(Exception):
    pass


def dotted(node):
    """text of a callee expression; None when it is not a plain dotted name"""
    if isinstance(node, ast.Name):
        return node.id
    if isinstance(node, ast.Attribute):
        b = dotted(node.value)
        return None if b is None else b + '.' + node.attr
    return None


def catches_timeout(t):
    """does `except <t>:` catch gevent.Timeout (a BaseException)?"""
    if t is None:
        return True
    if isinstance(t, ast.Tuple):
        return any(catches_timeout(e) for e in t.elts)
    return dotted(t) in ('Timeout', 'gevent.Timeout', 'BaseException')


def is_timeout_ctor(call):
    return isinstance(call, ast.Call) and dotted(call.func) in ('Timeout', 'gevent.Timeout')


class MethodScanner(object):
    def __init__(self, cls, fname, fn, scanned_methods, modfuncs=()):
        self.cls = cls
        self.fname = fname
        self.fn = fn
        self.scanned = scanned_methods      # names of methods visible on this class
        self.modfuncs = modfuncs            # module-level functions of the same file (scanned like methods)
        self.used_modfuncs = set()
        self.sites = []
        self.pure = 0
        self.types = {}                     # local var -> inferred type
        self.str_prefix = {}                # local var -> constant string prefix ('_command_')

    def err(self, node, what):
        raise Unclassified('%s:%d: %s.%s: %s' % (self.fname, getattr(node, 'lineno', 0), self.cls,
                                                self.fn.name, what))

    def emit(self, node, callee, kind, scopes):
        sc = scopes[-1] if scopes else None
        self.sites.append(dict(cls=self.cls, method=self.fn.name, callee=callee, kind=kind,
                               scope=sc, line=node.lineno, end_line=getattr(node, 'end_lineno', node.lineno),
                               file=self.fname))

    # ---- statements / expressions
    def scan(self):
        for d in self.fn.decorator_list:
            name = dotted(d.func) if isinstance(d, ast.Call) else dotted(d)
            if name not in ALLOWED_DECORATORS:
                self.err(d, 'unknown decorator %r' % (name,))
        self.prescan_assignments()
        for st in self.fn.body:
            self.visit(st, [])
        return self.sites

    def prescan_assignments(self):
        for node in ast.walk(self.fn):
            if isinstance(node, ast.Assign) and len(node.targets) == 1 and isinstance(node.targets[0], ast.Name):
                var = node.targets[0].id
                v = node.value
                if isinstance(v, ast.Call):
                    src = dotted(v.func)
                    if src in TYPE_SOURCES:
                        self.types[var] = TYPE_SOURCES[src]
                    elif src == 'self.extensions.getparam' and v.args and isinstance(v.args[0], ast.Constant) \
                            and v.args[0].value == 'AUTH':
                        self.types[var] = 'AuthSession'
                if isinstance(v, ast.BinOp) and isinstance(v.op, ast.Add) and isinstance(v.left, ast.Constant) \
                        and isinstance(v.left.value, str):
                    self.str_prefix[var] = v.left.value

    def visit(self, node, scopes):
        if isinstance(node, (ast.FunctionDef, ast.AsyncFunctionDef, ast.Lambda, ast.ClassDef)):
            self.err(node, 'nested function/class definition')
        if isinstance(node, (ast.Await, ast.Yield, ast.YieldFrom, ast.AsyncWith, ast.AsyncFor)):
            self.err(node, 'unsupported construct %s' % type(node).__name__)
        if isinstance(node, ast.With):
            inner = list(scopes)
            for item in node.items:
                ce = item.context_expr
                if not is_timeout_ctor(ce):
                    self.err(node, '`with` item that is not Timeout(...): %s' % ast.unparse(ce))
                if item.optional_vars is not None:
                    self.err(node, 'Timeout object bound with `as`')
                if ce.keywords or not (1 <= len(ce.args) <= 2):
                    self.err(node, 'unusual Timeout(...) arguments: %s' % ast.unparse(ce))
                for a in ce.args:
                    self.visit(a, scopes)
                text = ast.unparse(ce.args[0])
                tex = TIMEOUT_EXPRS.get(text)
                inner.append(dict(expr=tex or 'TOther', text=text, line=node.lineno))
            for st in node.body:
                self.visit(st, inner)
            return
        if isinstance(node, (ast.Try, getattr(ast, 'TryStar', ast.Try))):
            # A handler that can catch Timeout (and every `finally`) runs AFTER a timer may have
            # fired: neither the scopes around the `try` nor a caller's scope bound what it does.
            # Only a scope opened inside the handler counts there.
            for st in node.body:
                self.visit(st, scopes)
            for h in node.handlers:
                if h.type is not None:
                    self.visit(h.type, scopes)
                inner = [dict(expr='TExpired', text='handler', line=h.lineno)] if catches_timeout(h.type) else scopes
                for st in h.body:
                    self.visit(st, inner)
            for st in node.orelse:
                self.visit(st, scopes)
            if node.finalbody:
                inner = [dict(expr='TExpired', text='finally', line=node.finalbody[0].lineno)]
                for st in node.finalbody:
                    self.visit(st, inner)
            return
        if isinstance(node, ast.Call):
            self.call(node, scopes)
            return
        for child in ast.iter_child_nodes(node):
            self.visit(child, scopes)

    def call(self, node, scopes):
        # arguments (and the callee's receiver) first: they are evaluated before the call
        for a in node.args:
            self.visit(a, scopes)
        for k in node.keywords:
            self.visit(k.value, scopes)
        f = node.func
        if is_timeout_ctor(node):
            self.err(node, 'Timeout(...) used outside a `with` header')
        # getattr(obj, name)(...)  dynamic dispatch
        if isinstance(f, ast.Call):
            if dotted(f.func) == 'getattr' and len(f.args) == 2:
                tgt = dotted(f.args[0])
                namevar = f.args[1].id if isinstance(f.args[1], ast.Name) else None
                if tgt == 'self' and namevar in self.str_prefix:
                    prefix = self.str_prefix[namevar]
                    targets = sorted(m for m in self.scanned if m.startswith(prefix))
                    if not targets:
                        self.err(node, 'dynamic dispatch on prefix %r matches no method' % prefix)
                    for m in targets:
                        self.emit(node, m, 'KCall', scopes)
                    return
                if tgt == 'self.handlers':
                    self.emit(node, 'handlers.*', 'KLocal', scopes)      # user handler callbacks
                    return
            self.err(node, 'call of a call result: %s' % ast.unparse(f))
        if isinstance(f, ast.Attribute) and isinstance(f.value, ast.Call):
            # super(X, self).m(...)   or   Reply(...).send(io)
            inner = f.value
            for a in inner.args:
                self.visit(a, scopes)
            for k in inner.keywords:
                self.visit(k.value, scopes)
            if dotted(inner.func) == 'super' and f.attr == '__init__':
                self.pure += 1
                return
            if dotted(inner.func) == 'Reply' and f.attr == 'send':
                return self.reply_send(node, scopes)
            if dotted(inner.func) == 'Reply' and f.attr == 'copy':
                self.pure += 1
                return
            if pure_method_ok(node, f.attr):
                self.call(inner, scopes)          # the inner call must classify on its own
                self.pure += 1
                return
            self.err(node, 'method call on a call result: %s' % ast.unparse(f))
        if isinstance(f, ast.Attribute) and isinstance(f.value, ast.Constant):
            if f.attr in ('format', 'join'):
                self.pure += 1
                return
            self.err(node, 'method %r on a constant' % f.attr)
        name = dotted(f)
        if name is None:
            # <subscript or other expression>.<pure method>(...), e.g. arg[a:b].decode('utf-8')
            if isinstance(f, ast.Attribute) and pure_method_ok(node, f.attr) and isinstance(f.value, ast.Subscript):
                base = dotted(f.value.value)
                if base is not None and (io_root_of(base)[0] is None or io_data_chain(base)) \
                        and base.split('.')[0] not in self.types:
                    self.visit(f.value, scopes)
                    self.pure += 1
                    return
            self.err(node, 'callee is not a dotted name: %s' % ast.unparse(f))
        parts = name.split('.')
        # self.<m>(...)
        if len(parts) == 2 and parts[0] == 'self':
            m = parts[1]
            if m in self.scanned:
                self.emit(node, m, 'KCall', scopes)
                return
            if m in SELF_CALLABLES:
                if SELF_CALLABLES[m] is None:
                    self.pure += 1
                else:
                    self.emit(node, m, SELF_CALLABLES[m], scopes)
                return
            self.err(node, 'self.%s is neither a scanned method nor a known callable' % m)
        # I/O roots: explicit tables only
        if name.startswith('self.client.io.') and len(parts) == 4:
            return self.table(node, scopes, IO_METHODS, parts[3], 'io.' + parts[3], name)
        if name.startswith('self.client.') and len(parts) == 3:
            return self.table(node, scopes, CLIENT_METHODS, parts[2], parts[2], name)
        if name.startswith('self.io.') and len(parts) == 3:
            return self.table(node, scopes, IO_METHODS, parts[2], parts[2], name)
        if name.startswith('self.conn.') and len(parts) == 3:
            return self.table(node, scopes, CONN_METHODS, parts[2], parts[2], name)
        root, rest = io_root_of(name)
        if root is not None:
            # e.g. self.client.last_error.is_error(), self.io.recv_buffer.startswith(b'x')
            if len(rest) >= 2 and io_data_chain(name) and pure_method_ok(node, rest[-1]):
                self.pure += 1
                return
            self.err(node, 'unclassified call on I/O object: %s' % name)
        # typed locals
        if len(parts) == 2 and parts[0] in self.types:
            t = self.types[parts[0]]
            return self.table(node, scopes, TYPED_METHODS[t], parts[1], parts[1], name)
        # <reply>.send(self.io, ...)
        if parts[-1] == 'send' and node.args and dotted(node.args[0]) == 'self.io':
            return self.reply_send(node, scopes)
        if len(parts) == 1 and name in self.modfuncs and name not in EXACT:
            self.used_modfuncs.add(name)
            self.emit(node, name, 'KCall', scopes)
            return
        if name in EXACT:
            k = EXACT[name]
            if k is None:
                self.pure += 1
            else:
                self.emit(node, name, k, scopes)
            return
        if parts[0] == LOG_ROOT and len(parts) == 2:
            self.pure += 1
            return
        if len(parts) >= 2 and pure_method_ok(node, parts[-1]):
            self.pure += 1
            return
        self.err(node, 'unclassified call: %s' % name)

    def table(self, node, scopes, tbl, meth, label, name):
        if meth not in tbl:
            self.err(node, 'unclassified call on I/O object: %s' % name)
        k = tbl[meth]
        if k is None:
            self.pure += 1
        else:
            self.emit(node, label, k, scopes)

    def reply_send(self, node, scopes):
        """reply.send(self.io[, flush=True]): buffered unless flush is given"""
        flush = [k for k in node.keywords if k.arg == 'flush']
        other = [k for k in node.keywords if k.arg != 'flush']
        if other or len(node.args) != 1 or dotted(node.args[0]) != 'self.io':
            self.err(node, 'unusual reply.send(...): %s' % ast.unparse(node))
        if flush:
            v = flush[0].value
            if not (isinstance(v, ast.Constant) and v.value in (True, False)):
                self.err(node, 'reply.send flush= is not a constant')
            if v.value:
                self.emit(node, 'send', 'KWrite', scopes)
                return
        self.pure += 1


def class_methods(tree, clsname, fname):
    for node in tree.body:
        if isinstance(node, ast.ClassDef) and node.name == clsname:
            out = {}
            for st in node.body:
                if isinstance(st, ast.FunctionDef):
                    out[st.name] = st
                elif isinstance(st, (ast.AsyncFunctionDef, ast.ClassDef)):
                    raise Unclassified('%s: %s: unsupported member %s' % (fname, clsname, st.name))
            return out
    raise Unclassified('%s: class %s not found' % (fname, clsname))


def verify_has_reply_waiting():
    """Client.has_reply_waiting must still bound itself: wait_read(fd, <number>, Timeout())."""
    fname = 'slimta/smtp/client.py'
    tree = ast.parse(open(os.path.join(REPO, fname)).read(), fname)
    fn = class_methods(tree, 'Client', fname).get('has_reply_waiting')
    if fn is None:
        raise Unclassified('%s: Client.has_reply_waiting not found' % fname)
    calls = [n for n in ast.walk(fn) if isinstance(n, ast.Call)]
    blocking = [c for c in calls if dotted(c.func) not in ('self.io.socket.fileno', 'Timeout')]
    ok = (len(blocking) == 1 and dotted(blocking[0].func) == 'wait_read' and len(blocking[0].args) >= 2
          and isinstance(blocking[0].args[1], ast.Constant) and isinstance(blocking[0].args[1].value, (int, float))
          and blocking[0].args[1].value <= 1)
    if not ok:
        raise Unclassified('%s: Client.has_reply_waiting no longer has the shape wait_read(fd, <const<=1s>, ...)' % fname)


# ---------------------------------------------------------------- how the timeout attributes are configured
# attribute read by a scope -> (texpr, class whose __init__ assigns it)
ATTR_OF_TEXPR = {'TConnect': 'connect_timeout', 'TCommand': 'command_timeout', 'TData': 'data_timeout', 'TSingle': 'timeout'}
ATTR_OWNER = {      # scanned class -> class (in the same file) whose __init__ assigns the timeout attributes
    'SmtpRelayClient': 'SmtpRelayClient', 'LmtpRelayClient': 'SmtpRelayClient', 'Server': 'Server',
    'PipeRelay': 'PipeRelay', 'MaildropRelay': 'PipeRelay', 'DovecotLdaRelay': 'PipeRelay',
    'HttpRelayClient': 'HttpRelay',          # the scope reads self.relay.timeout
}


def attr_chain(init, attr, fname, cls):
    """`self.<attr> = p` -> [p];  `self.<attr> = p or q [or r]` -> [p, q, r] (constructor parameters).
    Anything else: fail closed."""
    params = set(a.arg for a in init.args.args + init.args.kwonlyargs)
    found = None
    for node in ast.walk(init):
        if isinstance(node, ast.Assign) and len(node.targets) == 1 and dotted(node.targets[0]) == 'self.' + attr:
            if found is not None:
                raise Unclassified('%s: %s.__init__ assigns self.%s more than once' % (fname, cls, attr))
            found = node.value
    if found is None:
        raise Unclassified('%s: %s.__init__ does not assign self.%s' % (fname, cls, attr))
    names = found.values if isinstance(found, ast.BoolOp) and isinstance(found.op, ast.Or) else [found]
    chain = []
    for n in names:
        if not (isinstance(n, ast.Name) and n.id in params):
            raise Unclassified('%s:%d: %s.__init__: self.%s = %s is not a constructor parameter or an `a or b` chain of them'
                               % (fname, found.lineno, cls, attr, ast.unparse(found)))
        chain.append(n.id)
    return chain


def check_passthrough(tree, sub, fname):
    """a subclass __init__ must hand `timeout` on to super().__init__ unchanged"""
    init = class_methods(tree, sub, fname).get('__init__')
    if init is None:
        return
    for node in ast.walk(init):
        if isinstance(node, ast.Call) and isinstance(node.func, ast.Attribute) and node.func.attr == '__init__' \
                and isinstance(node.func.value, ast.Call) and dotted(node.func.value.func) == 'super':
            names = [dotted(a) for a in node.args] + [dotted(k.value) for k in node.keywords]
            if 'timeout' in names:
                return
    raise Unclassified('%s: %s.__init__ does not pass `timeout` on to its base class' % (fname, sub))


def build_attr_defaults(trees, sites):
    out = []
    for cls, fname, base in CLASSES:
        used = sorted(set(s['scope']['expr'] for s in sites if s['cls'] == cls and s['scope'] is not None
                          and s['scope']['expr'] in ATTR_OF_TEXPR))
        owner = ATTR_OWNER[cls]
        ofile = dict((n, f) for n, f, b in CLASSES).get(owner, fname)     # HttpRelay lives beside HttpRelayClient
        init = class_methods(trees[ofile], owner, ofile).get('__init__')
        if init is None:
            raise Unclassified('%s: %s has no __init__' % (fname, owner))
        if cls in ('MaildropRelay', 'DovecotLdaRelay'):
            check_passthrough(trees[fname], cls, fname)
        for e in used:
            out.append(dict(cls=cls, expr=e, attr=ATTR_OF_TEXPR[e], chain=attr_chain(init, ATTR_OF_TEXPR[e], ofile, owner)))
    return out


def build_table():
    verify_has_reply_waiting()
    trees = {}
    own = {}
    for cls, fname, base in CLASSES:
        if fname not in trees:
            trees[fname] = ast.parse(open(os.path.join(REPO, fname)).read(), fname)
        own[cls] = class_methods(trees[fname], cls, fname)
    modfuncs = dict((fname, dict((n.name, n) for n in tree.body if isinstance(n, ast.FunctionDef)))
                    for fname, tree in trees.items())
    sites = []
    stats = dict(methods=0, pure_calls=0)
    for cls, fname, base in CLASSES:
        eff = {}       # method -> (FunctionDef, file)
        chain = []
        c = cls
        while c is not None:
            chain.append(c)
            c = [b for (n, f, b) in CLASSES if n == c][0]
        for c in reversed(chain):
            f = [f for (n, f, b) in CLASSES if n == c][0]
            for m, fn in own[c].items():
                eff[m] = (fn, f)
        names = set(eff)
        todo = set()
        for m in sorted(eff, key=lambda m: (eff[m][1], eff[m][0].lineno)):
            fn, f = eff[m]
            sc = MethodScanner(cls, f, fn, names, modfuncs[f])
            sites.extend(sc.scan())
            stats['methods'] += 1
            stats['pure_calls'] += sc.pure
            todo |= set((f, n) for n in sc.used_modfuncs)
        # module-level helper functions called from the methods: scanned like methods of the class
        done = set()
        while todo - done:
            f, n = sorted(todo - done)[0]
            done.add((f, n))
            sc = MethodScanner(cls, f, modfuncs[f][n], names, modfuncs[f])
            sites.extend(sc.scan())
            stats['methods'] += 1
            stats['pure_calls'] += sc.pure
            todo |= set((f, x) for x in sc.used_modfuncs)
    stats['attr_defaults'] = build_attr_defaults(trees, sites)
    return sites, stats


# ---------------------------------------------------------------- resolution (diagnostics; mirrors model/Timeouts.v)
NEEDS_GUARD = ('KConnect', 'KExchange', 'KRead', 'KWrite', 'KHandshake', 'KProc')
GUARD_EXPRS = ('TConnect', 'TCommand', 'TData', 'TSingle')


def scope_ok(s):
    return s['scope'] is not None and s['scope']['expr'] in GUARD_EXPRS


def is_expired(s):
    return s['scope'] is not None and s['scope']['expr'] == 'TExpired'


def exposed(sites, cls):
    """methods of cls reachable from a root (a method nobody calls) through call sites that are not in a scope"""
    mine = [s for s in sites if s['cls'] == cls]
    methods = sorted(set(s['method'] for s in mine) | set(s['callee'] for s in mine if s['kind'] == 'KCall'))
    called = set(s['callee'] for s in mine if s['kind'] == 'KCall')
    cur = set(m for m in methods if m not in called)
    cur |= set(s['callee'] for s in mine if s['kind'] == 'KCall' and is_expired(s))
    while True:
        new = set(s['callee'] for s in mine if s['kind'] == 'KCall' and s['method'] in cur and not scope_ok(s))
        if new <= cur:
            return cur
        cur |= new


def unguarded(sites):
    out = []
    exp = {}
    for s in sites:
        if s['kind'] not in NEEDS_GUARD or scope_ok(s):
            continue
        if s['cls'] not in exp:
            exp[s['cls']] = exposed(sites, s['cls'])
        if s['method'] in exp[s['cls']] or is_expired(s):
            out.append(s)
    return out


# ---------------------------------------------------------------- known findings
FINDINGS = os.environ.get('VERIF_KNOWN_FINDINGS') or os.path.join(
    os.path.dirname(os.path.dirname(os.path.abspath(__file__))), 'known_findings.json')


def known_unguarded():
    """(method, callee) of the entries c14:unguarded:<method>:<callee> with status `known` in
    /verif/known_findings.json: the ONLY sites all_guarded excuses (emitted as `known_unguarded`
    beside the table, so that flipping an entry to `fixed` tightens the theorem by itself)"""
    out = []
    try:
        entries = json.load(open(FINDINGS))
    except (OSError, ValueError):
        return out
    for f in entries:
        key = f.get('key', '')
        if f.get('property') == 'C14' and f.get('status') == 'known' and key.startswith('c14:unguarded:'):
            parts = key.split(':')
            if len(parts) == 4 and (parts[2], parts[3]) not in out:
                out.append((parts[2], parts[3]))
    return out


# ---------------------------------------------------------------- output
def coq_string(s):
    return '"' + s.replace('"', '""') + '"'


def coq_scope(sc):
    if sc is None:
        return 'None'
    e = sc['expr'] if sc['expr'] != 'TOther' else '(TOther %s)' % coq_string(sc['text'])
    if sc['expr'] == 'TExpired':
        e = 'TExpired'
    return '(Some (%s, %d%%N))' % (e, sc['line'])


def emit_coq(sites, stats, path):
    lines = []
    lines.append('(* GENERATED by tools/timeouts_ast.py from %s -- do not edit.' % '$VERIF_REPO (default /repo)')
    lines.append('   %d methods scanned, %d sites, %d calls classified as pure. *)' % (stats['methods'], len(sites), stats['pure_calls']))
    stats = dict(stats)
    lines.append('From Coq Require Import List String NArith.')
    lines.append('From SV Require Import model.Timeouts.')
    lines.append('Import ListNotations.')
    lines.append('Open Scope string_scope.')
    lines.append('Definition timeout_table : list site := [')
    body = []
    for s in sites:
        body.append('  mk_site %s %s %s %s %s %d%%N' % (coq_string(s['cls']), coq_string(s['method']), coq_string(s['callee']),
                                                       s['kind'], coq_scope(s['scope']), s['line']))
    lines.append(';\n'.join(body))
    lines.append('].')
    lines.append('(* how each timeout attribute read by a scope is derived from the constructor parameters in __init__ *)')
    lines.append('Definition attr_defaults : list (string * texpr * list string) := [')
    lines.append(';\n'.join('  (%s, %s, [%s])' % (coq_string(d['cls']), d['expr'], '; '.join(coq_string(c) for c in d['chain']))
                            for d in stats['attr_defaults']))
    lines.append('].')
    lines.append('(* sites excused by a `known` entry c14:unguarded:<method>:<callee> of known_findings.json *)')
    lines.append('Definition known_unguarded : list (string * string) := [')
    lines.append(';\n'.join('  (%s, %s)' % (coq_string(m), coq_string(c)) for m, c in known_unguarded()))
    lines.append('].')
    with open(path, 'w') as f:
        f.write('\n'.join(lines) + '\n')


def main(argv):
    try:
        sites, stats = build_table()
    except Unclassified as e:
        sys.stderr.write('timeouts_ast: FAIL-CLOSED: %s\n' % e)
        sys.stdout.write('timeouts_ast: FAIL-CLOSED: %s\n' % e)
        return 1
    except (OSError, SyntaxError) as e:
        sys.stderr.write('timeouts_ast: cannot read/parse source: %s\n' % e)
        sys.stdout.write('timeouts_ast: cannot read/parse source: %s\n' % e)
        return 1
    if len(argv) >= 2 and argv[1] == '--json':
        out = json.dumps(dict(repo=REPO, stats=stats, sites=sites, known=[list(k) for k in known_unguarded()],
                              unguarded=[dict(cls=s['cls'], method=s['method'], callee=s['callee'], line=s['line'],
                                              file=s['file'], kind=s['kind']) for s in unguarded(sites)]), indent=1)
        if len(argv) >= 3:
            with open(argv[2], 'w') as f:
                f.write(out)
        else:
            sys.stdout.write(out + '\n')
        return 0
    if len(argv) != 2:
        sys.stderr.write(__doc__)
        return 2
    emit_coq(sites, stats, argv[1])
    return 0


if __name__ == '__main__':
    sys.exit(main(sys.argv))
