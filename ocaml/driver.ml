(* Driver for the extracted model: reads "name <val>" per line on stdin, prints
   "<val>" per line on stdout.  val syntax: decimal = VN, b<hex> = VB of bytes,
   u<n>,<n>,.. = VB of arbitrary numbers, ( v v .. ) = VL. *)
(* no `open Model`: extracted constructor names must not capture ours *)

let rec pos_of_int i = if i = 1 then Model.XH else if i land 1 = 1 then Model.XI (pos_of_int (i lsr 1)) else Model.XO (pos_of_int (i lsr 1))
let n_of_int i = if i = 0 then Model.N0 else Model.Npos (pos_of_int i)
let rec int_of_pos = function Model.XH -> 1 | Model.XO p -> 2 * int_of_pos p | Model.XI p -> 2 * int_of_pos p + 1
let int_of_n = function Model.N0 -> 0 | Model.Npos p -> int_of_pos p

let coq_string (s : Stdlib.String.t) : Model.string =
  let r = ref Model.EmptyString in
  for i = Stdlib.String.length s - 1 downto 0 do
    let c = Char.code s.[i] in
    let b k = (c lsr k) land 1 = 1 in
    r := Model.String (Model.Ascii (b 0, b 1, b 2, b 3, b 4, b 5, b 6, b 7), !r)
  done; !r

exception Drv_parse of Stdlib.String.t

let parse (s : Stdlib.String.t) (start : int)   : Model.val0 =
  let n = Stdlib.String.length s in
  let pos = ref start in
  let skip () = while !pos < n && s.[!pos] = ' ' do incr pos done in
  let token () =
    let st = !pos in
    while !pos < n && s.[!pos] <> ' ' && s.[!pos] <> '(' && s.[!pos] <> ')' do incr pos done;
    Stdlib.String.sub s st (!pos - st) in
  let hexv c = match c with
    | '0'..'9' -> Char.code c - 48 | 'a'..'f' -> Char.code c - 87
    | _ -> raise (Drv_parse "hex") in
  let rec value () =
    skip ();
    if !pos >= n then raise (Drv_parse "eof");
    if s.[!pos] = '(' then begin
      incr pos;
      let items = ref [] in
      let fin = ref false in
      while not !fin do
        skip ();
        if !pos >= n then raise (Drv_parse "eof in list");
        if s.[!pos] = ')' then (incr pos; fin := true)
        else items := value () :: !items
      done;
      Model.VL (List.rev !items)
    end else begin
      let t = token () in
      let l = Stdlib.String.length t in
      if l = 0 then raise (Drv_parse "empty token");
      if t.[0] = 'b' then begin
        let out = ref [] in
        let i = ref (l - 2) in
        while !i >= 1 do
          out := n_of_int (hexv t.[!i] * 16 + hexv t.[!i + 1]) :: !out;
          i := !i - 2
        done;
        Model.VB !out
      end else if t.[0] = 'u' then begin
        if l = 1 then Model.VB [] else
        Model.VB (List.map (fun x -> n_of_int (int_of_string x))
              (Stdlib.String.split_on_char ',' (Stdlib.String.sub t 1 (l - 1))))
      end else Model.VN (n_of_int (int_of_string t))
    end in
  value ()

let rec print buf (v   : Model.val0) =
  match v with
  | Model.VN x -> Buffer.add_string buf (string_of_int (int_of_n x))
  | Model.VB l ->
    let il = List.map int_of_n l in
    if List.for_all (fun x -> x < 256) il then begin
      Buffer.add_char buf 'b';
      List.iter (fun x -> Buffer.add_string buf (Printf.sprintf "%02x" x)) il
    end else begin
      Buffer.add_char buf 'u';
      Buffer.add_string buf (Stdlib.String.concat "," (List.map string_of_int il))
    end
  | Model.VL l ->
    Buffer.add_char buf '(';
    List.iteri (fun i x -> if i > 0 then Buffer.add_char buf ' '; print buf x) l;
    Buffer.add_char buf ')'

let () =
  let buf = Buffer.create 65536 in
  (try
    while true do
      let line = input_line stdin in
      let sp = try Stdlib.String.index line ' ' with Not_found -> Stdlib.String.length line in
      let name = Stdlib.String.sub line 0 sp in
      Buffer.clear buf;
      (try
        let v = parse line sp in
        print buf (Model.sv_run_entry (coq_string name) v)
      with
      | Drv_parse m -> Buffer.add_string buf ("!parse " ^ m)
      | Stack_overflow -> Buffer.add_string buf "!stack"
      | Failure m -> Buffer.add_string buf ("!fail " ^ m));
      print_string (Buffer.contents buf); print_newline ()
    done
  with End_of_file -> ())
