"""C17 - replies survive the wire.  Correspondence of model/Reply.v with
slimta.smtp.io.IO.send_reply/recv_reply + slimta.smtp.reply.Reply, and the
property oracle on the implementation."""
import re, itertools
from vp.core import B, U, canon
from vp.fakes import ScriptSocket, segmentations

from slimta.smtp.io import IO
from slimta.smtp.reply import Reply
from slimta.smtp import reply as reply_mod
from slimta.smtp import BadReply, ConnectionLost

ASSUMPTIONS = [
    'a reply is "written by the library" when it is built with Reply(code, text) and sent with Reply.send',
    'texts: valid Unicode scalar values, empty or not starting with a character matching \\s',
    'fake socket: recv() returns scripted chunks, b"" at the end (EOF => ConnectionLost)',
]

WS = re.compile(r'\s')
ESC_LOOKING = re.compile(r'^([245]\.\d\d?\d?\.\d\d?\d?)\s+')
# anything that starts like <digit>.<digits>.<digits>: status-code-looking, valid or not
ESC_SHAPED = re.compile(r'^\d+\.\d+\.\d+')
VALID_CODE = re.compile(r'[1-5][0-9][0-9]\Z', re.A)

PER_KEY_CAP = 25
_reported = {}


def report(ctx, key, case, what):
    """ctx.fail, at most PER_KEY_CAP stored cases per key (ctx keeps 200 failures in all)"""
    _reported[key] = _reported.get(key, 0) + 1
    if _reported[key] <= PER_KEY_CAP:
        ctx.fail(key, case, what)
    else:
        ctx.count('oracle-fail:' + key)


def norm(t):
    return re.sub(r'\r?\n', '\r\n', t)


def exc_text(exc):
    return '%s: %s' % (type(exc).__name__, exc)


def impl_build(code, text):
    r = Reply(code, text)
    sock = ScriptSocket()
    io = IO(sock, ('h', 25))
    r.send(io)
    return r.message, io.send_buffer.getvalue(), r.enhanced_status_code


def safe_build(ctx, code, text):
    """impl_build; an exception (constructor or send) is an oracle failure with the input as
    replay -- a three-digit code and a Unicode text always make a reply -- and the run goes on.
    Returns (message, wire, esc) or None."""
    try:
        return impl_build(code, text)
    except Exception as exc:
        if VALID_CODE.match(code):
            report(ctx, 'c17:build-raises', dict(code=code, text=text, op='build'),
                   'Reply(%r, %r) followed by send raised %s; no reply was built or written' % (code, text, exc_text(exc)))
        return None


def impl_ctor(code, text):
    """Reply(code, text) alone, in the shape of the model entry c17_ctor"""
    try:
        r = Reply(code or None, text)
    except ValueError as exc:
        if exc.args and exc.args[0] == 'Invalid SMTP reply code':
            return (1,)
        if exc.args and exc.args[0] == 'Invalid ENHANCEDSTATUSCODES string':
            return (2,)
        return (4, exc_text(exc))
    except Exception as exc:
        return (4, exc_text(exc))
    esc = r.enhanced_status_code
    return (0, r.code or '', r.raw_message or '', r.message or '', (esc,) if esc is not None else ())


def impl_recv(buf, chunks):
    """(0, code, message, unread, esc) | (1, unread) BadReply | (2,) ValueError of the code setter |
    (3,) ConnectionLost | (4, text) any other exception: neither a reply nor BadReply"""
    sock = ScriptSocket(chunks)
    io = IO(sock, ('h', 25))
    io.recv_buffer = buf
    r = Reply()
    try:
        r.recv(io)
    except BadReply:
        return (1, io.recv_buffer + sock.unread())
    except ConnectionLost:
        return (3,)
    except ValueError as exc:
        if exc.args and exc.args[0] == 'Invalid SMTP reply code':
            return (2,)
        return (4, exc_text(exc))
    except Exception as exc:
        return (4, exc_text(exc))
    return (0, r.code, r.message, io.recv_buffer + sock.unread(), r.enhanced_status_code)


def judge_recv_exception(ctx, io_out, case):
    """malformed or not: the only exceptions Reply.recv may raise are BadReply / ConnectionLost"""
    if io_out[0] == 4:
        report(ctx, 'c17:recv-raises-not-badreply', case,
               'Reply.recv raised %s: the caller gets neither a reply nor BadReply' % io_out[1])
        return True
    return False


def model_recv_out(o, chunks):
    """model output of c17_recv -> same shape as impl_recv (without esc)"""
    tag = o[0]
    if tag == 0:
        k = o[4]
        rest = b''.join(chunks[len(chunks) - k:]) if k else b''
        return (0, U(o[1]), U(o[2]), B(o[3]) + rest)
    if tag == 1:
        k = o[2]
        rest = b''.join(chunks[len(chunks) - k:]) if k else b''
        return (1, B(o[1]) + rest)
    return (tag,)


# ------------------------------------------------------------ generators
PIECES = ['a', 'Ok', 'queued as 1234', ' ', '\t', '\r', '\n', '\r\n', '.', '-', '2.0.0 ', '5.1.1 ', '4.2.0\t',
          '2.0.0', '5.7.8  ', '2.1.5\r\n', 'é', '٣', ' ', '\U0001F600', '250', '250-', '250 ',
          '3', '1.2.3 ', '2.999.999 ', '2.1000.0 ', '4.٣.0 ', '\x0b', '\x0c', '\x1c', '\x85', '\xa0', 'x' * 70,
          '\n\n', '\r\r\n', 'Go ahead', 'PIPELINING', '8BITMIME\nSIZE 100', '=', 'dGVzdA==']

# status-code-looking prefixes: genuine, too long components, leading zeros, all zeros, wrong
# class digit, non-ASCII digits, truncated / over-long shapes
ESC_PREFIXES = [
    ('genuine', ['2.0.0', '5.1.1', '4.2.0', '2.999.999', '5.7.8', '4.10.100']),
    ('zeros', ['2.000.000', '5.00.0', '4.0.00', '2.0.000']),
    ('leading-zero', ['2.01.007', '5.001.1', '4.010.09']),
    ('4plus-digits', ['2.1179.245', '5.7.1234', '4.12345.0', '2.1000.5', '2.0.0000', '5.0001.1', '2.0000.0000',
                      '4.99999999.1', '5.1.100000000000']),
    ('wrong-class', ['1.2.3', '3.0.0', '6.1.1', '0.0.0', '9.99.999', '3.1000.1']),
    ('unicode-digit', ['2.٣.0', '5.1.٣٣', '2.1.٣٣٣٣', '٢.1.1', '4.१२३४.0']),
    ('not-a-triple', ['5.', '5.1', '5.1.', '2..0', '25.1.1', '2.1.1.1', '2.1', '.1.1']),
]
ESC_SEPS = [' ', '  ', '\t', '\r\n', '\n', '', 'x', '\xa0', '\x1c', ' \n ']
ESC_TAILS = [('single', 'foo'), ('single', ''), ('multi', 'line one\nline two'), ('multi', 'a\r\n5.7.1234 b\n2.0.0 c')]
ESC_CODES = ['250', '220', '354', '334', '451', '421', '550', '535']


def gen_component(rng):
    k = rng.randrange(8)
    if k == 0:
        return str(rng.randrange(10))
    if k == 1:
        return str(rng.randrange(10, 1000))
    if k == 2:
        return str(rng.randrange(1000, 10 ** rng.choice([4, 5, 9, 20])))      # 4+ digits
    if k == 3:
        return '0' * rng.randrange(1, 6)
    if k == 4:
        return '0' * rng.randrange(1, 3) + str(rng.randrange(100))            # leading zeros
    if k == 5:
        return rng.choice(['٣', '1٣', '٣٣٣٣', '१२'])
    return str(rng.randrange(0, 1200))


def gen_esc_prefix(rng, code):
    """(kind, text) - a status-code-looking start for a reply text with the given code"""
    k = rng.randrange(5)
    if k == 0:
        cls = code[0]
    elif k == 1:
        cls = rng.choice([c for c in '245' if c != code[0]])                 # class differs from the code's
    elif k == 2:
        cls = rng.choice('245')
    elif k == 3:
        cls = rng.choice('136079')                                            # no such class
    else:
        kind, items = rng.choice(ESC_PREFIXES)
        return kind, rng.choice(items)
    return 'random', cls + '.' + gen_component(rng) + '.' + gen_component(rng)


def gen_text(rng, code='250'):
    k = rng.choice([0, 1, 1, 2, 2, 3, 4, 6])
    t = ''.join(rng.choice(PIECES) for _ in range(k))
    r = rng.random()
    if r < 0.3:
        t = rng.choice(['2', '4', '5']) + '.' + str(rng.randrange(0, 1200)) + '.' + str(rng.randrange(0, 1200)) + rng.choice([' ', '  ', '\t', '\n', '\r\n', '', 'x']) + t
    elif r < 0.55:
        t = gen_esc_prefix(rng, code)[1] + rng.choice(ESC_SEPS) + t
    if t and WS.match(t):
        t = rng.choice(['a', 'Ok', '.', '2.0.0 x']) + t
    return t


def gen_code(rng):
    r = rng.random()
    if r < 0.25:
        return rng.choice(['250', '354', '334', '421', '550', '220', '235', '451', '535', '500'])
    if r < 0.45:
        return str(rng.randrange(300, 400))
    return str(rng.randrange(200, 600))


def gen_reply(rng):
    code = gen_code(rng)
    return (code, gen_text(rng, code))


def esc_matrix():
    """every code class 2xx..5xx x every status-code-looking prefix x separators x single/multi-line tails"""
    out = []
    for code in ESC_CODES:
        for kind, items in ESC_PREFIXES:
            for pre in items:
                for sep in ESC_SEPS:
                    for lines, tail in ESC_TAILS:
                        out.append((kind, lines, (code, pre + sep + tail)))
    return out


TRAILERS = [b'', b'250 ok\r\n', b'2', b'250-', b'\r\n', b'QUIT\r\n', b'\xff', b'250 partial']


def nontrivial_reply(ct, s):
    return ('\n' in ct[1] or bool(ESC_SHAPED.match(ct[1])) or any(ord(c) > 127 for c in ct[1]) or len(s) > 1)


def build_all(ctx, flat):
    """builds every (code, text) with the implementation and the model; returns {ct: (message, wire)}
    for the ones the implementation could build"""
    flat = list(dict.fromkeys(flat))
    m_wire = ctx.model.batch('c17_wire', [list(ct) for ct in flat])
    m_msg = ctx.model.batch('c17_getmsg', [list(ct) for ct in flat])
    m_ctor = ctx.model.batch('c17_ctor', [list(ct) for ct in flat])
    built = {}
    for ct, mw, mm, mc in zip(flat, m_wire, m_msg, m_ctor):
        case = dict(code=ct[0], text=ct[1], op='build')
        res = safe_build(ctx, *ct)
        if res is None:
            # reported as c17:build-raises; the model (C17_construction_total) builds this reply
            ctx.mismatch('build-raises', case, 'exception', dict(message=U(mm), wire=B(mw), ctor_tag=mc[0]))
            continue
        msg, wire, esc = res
        built[ct] = (msg, wire)
        if wire != B(mw) or msg != U(mm) or mc[0] != 0 or U(mc[3]) != msg or tuple(U(e) for e in mc[4]) != ((esc,) if esc is not None else ()):
            ctx.mismatch('build', case, dict(message=msg, wire=wire, esc=esc), dict(message=U(mm), wire=B(mw), ctor=mc))
        if esc is not None and esc[0] != ct[0][0]:
            report(ctx, 'c17:esc-class', dict(code=ct[0], text=ct[1]), 'enhanced status %r class differs from code' % esc)
    return built


def parse_back(ctx, jobs, built):
    """jobs: (replies, trailer, buf, chunks, mode).  The implementation parses the replies one after the
    other; every recv call is then replayed through the model in one batch."""
    calls = []      # (case, io_out, buf, chunks)
    for (s, trailer, buf, chunks, mode) in jobs:
        ctx.count('seg:' + mode)
        cur_buf, cur_chunks = buf, list(chunks)
        for idx, ct in enumerate(s):
            want_msg = norm(built[ct][0])
            io_out = impl_recv(cur_buf, cur_chunks)
            case = dict(code=ct[0], text=ct[1], buf=cur_buf, chunks=cur_chunks, index=idx, mode=mode)
            if len(ct) > 2:
                case.update(order_case(ct[2], ct[3]))
                case['send_index'] = ct[4]
            calls.append((case, io_out, cur_buf, cur_chunks))
            ctx.evaluated((ct, mode, len(cur_chunks), idx), nontrivial=nontrivial_reply(ct, s))
            remaining_want = b''.join(built[c2][1] for c2 in s[idx + 1:]) + trailer
            if judge_recv_exception(ctx, io_out, case):
                break
            ok = (io_out[0] == 0 and io_out[1] == ct[0] and io_out[2] == want_msg and io_out[3] == remaining_want)
            if ok and io_out[4] is not None and io_out[4][0] != ct[0][0]:
                ok = False
            if not ok:
                key = 'c17:roundtrip'
                if ct[0][0] == '3' and ESC_LOOKING.match(ct[1]):
                    key = 'c17:3xx-esc-looking-text'
                report(ctx, key, case, 'sent (%r, %r) got %r, expected remaining %r' % (ct[0], want_msg, io_out, remaining_want))
                break
            # continue with what is left: everything unread goes to one buffer
            cur_buf, cur_chunks = io_out[3], []
        ctx.sample(dict(kind='roundtrip', replies=s, trailer=trailer, buf=buf, chunks=chunks), cap=3)
    outs = ctx.model.batch('c17_recv', [[b, ch] for (_, _, b, ch) in calls])
    for (case, io_out, b, ch), o in zip(calls, outs):
        mo = model_recv_out(o, ch)
        if io_out[:4] != mo:
            ctx.mismatch('recv', case, io_out, mo)


def seg_jobs(rng, s, built, trailer, modes, everycut):
    data = b''.join(built[ct][1] for ct in s) + trailer
    jobs = []
    for mode in modes:
        pre = rng.choice([0, 0, rng.randrange(0, len(data) + 1)])
        jobs.append((s, trailer, data[:pre], segmentations(data[pre:], rng, mode), mode))
    if everycut:
        for c in range(1, len(data)):
            jobs.append((s, trailer, b'', [data[:c], data[c:]], 'everycut'))
    return jobs


def run_structured(ctx, n_seq):
    rng = ctx.rng
    # 1. build + wire: batch through the model
    seqs = []
    for i in range(n_seq):
        k = rng.choice([1, 1, 2, 3])
        seqs.append([gen_reply(rng) for _ in range(k)])
    built = build_all(ctx, [ct for s in seqs for ct in s])
    # 2. parse back under segmentations (replies the implementation could not build are left out)
    jobs = []
    for s in seqs:
        s = [ct for ct in s if ct in built]
        if not s:
            continue
        trailer = rng.choice(TRAILERS)
        n = sum(len(built[ct][1]) for ct in s) + len(trailer)
        jobs += seg_jobs(rng, s, built, trailer, ['whole', 'bytes', 'lines', 'random', 'random'], n <= 40)
    parse_back(ctx, jobs, built)


def run_esc_matrix(ctx, everycut_one_in):
    """status-code-looking reply texts, systematically: codes 2xx..5xx x prefixes (4+ digit components,
    leading zeros, zeros, wrong class, class differing from the code's, non-ASCII digits) x separators x
    single-/multi-line, alone and followed by a pipelined reply, at the segmentations used above"""
    rng = ctx.rng
    matrix = esc_matrix()
    successor = ('250', 'ok')
    built = build_all(ctx, [ct for (_, _, ct) in matrix] + [successor])
    jobs = []
    for i, (kind, lines, ct) in enumerate(matrix):
        ctx.count('esc-matrix:%s:%sxx:%s' % (kind, ct[0][0], lines))
        if ct not in built:
            ctx.count('esc-matrix:not-built')
            continue
        if everycut_one_in > 1 and i % 2 == 1 and kind in ('genuine', 'not-a-triple', 'unicode-digit'):
            continue      # quick tier: these three kinds are parsed back for every second entry only (all are built and compared)
        s = [ct, successor] if (i % 3 == 0 and successor in built) else [ct]
        trailer = TRAILERS[i % len(TRAILERS)]
        modes = ['whole', 'bytes', 'lines', 'random'] if everycut_one_in == 1 else ['whole', 'random', 'bytes' if i % 2 else 'lines']
        jobs += seg_jobs(rng, s, built, trailer, modes, i % everycut_one_in == 0)
    parse_back(ctx, jobs, built)


# independent reference for the malformed stream
REF_LINE = re.compile(br'([1-5]\d\d)([ \t-])(.*)', re.S)


def ref_parse(stream):
    pos = 0; code = None; lines = []
    while True:
        nl = stream.find(b'\n', pos)
        if nl < 0:
            return ('lost',)
        line = stream[pos:nl]
        if line.endswith(b'\r'):
            line = line[:-1]
        m = REF_LINE.fullmatch(line)
        if not m:
            return ('bad', stream[nl + 1:])
        if code is not None and m.group(1) != code:
            return ('bad', stream[pos:])
        code = m.group(1); lines.append(m.group(3)); pos = nl + 1
        if m.group(2) != b'-':
            break
    try:
        text = b'\r\n'.join(lines).decode('utf-8')
    except UnicodeDecodeError:
        return ('bad', stream[pos:])
    if not (b'1' <= code[:1] <= b'5'):
        return ('badcode',)
    return ('ok', code.decode(), text, stream[pos:])


def run_malformed(ctx, maxlen, alphabet=b'25- \r\na.'):
    cases = []
    for L in range(0, maxlen + 1):
        for tup in itertools.product(alphabet, repeat=L):
            cases.append(bytes(tup))
    outs = ctx.model.batch('c17_recv', [[c, []] for c in cases])
    for c, o in zip(cases, outs):
        io_out = impl_recv(c, [])
        mo = model_recv_out(o, [])
        nontriv = b'\n' in c
        ctx.evaluated(('mal', c), nontrivial=nontriv)
        ctx.count('malformed-outcome:%d' % io_out[0])
        if io_out[:4] != mo:
            ctx.mismatch('recv-malformed', dict(buf=c), io_out, mo)
        if judge_recv_exception(ctx, io_out, dict(buf=c)):
            continue
        ref = ref_parse(c)
        exp = {'lost': 3, 'bad': 1, 'badcode': 2, 'ok': 0}[ref[0]]
        good = (io_out[0] == exp)
        if good and exp == 0:
            # Reply object text: only the raw consumption and code are judged here
            good = (io_out[1] == ref[1] and io_out[3] == ref[3])
        if good and exp == 1:
            good = (io_out[1] == ref[1])
        if not good:
            ctx.fail('c17:malformed', dict(buf=c), 'expected %r got %r' % (ref, io_out))
    ctx.sample(dict(kind='malformed-exhaustive', alphabet=alphabet.decode('latin1'), maxlen=maxlen, count=len(cases)))
    ctx.extra['exhaustive'] = True
    ctx.extra['exhaustive_bound'] = 'all byte strings over %r up to length %d as the whole input (%d strings)' % (alphabet, maxlen, len(cases))


BAD_UTF8 = [b'\xff', b'\xc0\x80', b'\xc3', b'\xe2\x82', b'\xed\xa0\x80', b'\xf4\x90\x80\x80', b'\xf8\x88\x80\x80\x80', b'\x80', b'\xe0\x80\x80', b'\xf0\x80\x80\x80']


def run_malformed_structured(ctx, n):
    rng = ctx.rng
    todo = []
    for i in range(n):
        kind = rng.choice(['utf8', 'codes', 'nonnumeric', 'valid-multibyte', 'code-range'])
        ctx.count('malformed-kind:' + kind)
        if kind == 'utf8':
            data = b'250-ok\r\n250 a' + rng.choice(BAD_UTF8) + b'b\r\n' + b'250 next\r\n'
            if rng.random() < 0.5:
                data = b'550 ' + rng.choice(BAD_UTF8) + b'\r\n'
        elif kind == 'codes':
            a, b = str(rng.randrange(200, 600)), str(rng.randrange(200, 600))
            data = ('%s-first\r\n%s second\r\n250 next\r\n' % (a, b)).encode()
        elif kind == 'nonnumeric':
            data = rng.choice([b'25x ok\r\n', b'2 50 ok\r\n', b'ok\r\n', b'\r\n', b'250\r\n', b'250ok\r\n', b'250_ok\r\n', b' 250 ok\r\n', b'250-a\r\n\r\n250 b\r\n', b'250-a\r\nfoo\r\n'])
        elif kind == 'valid-multibyte':
            t = ''.join(rng.choice(['é', '€', '\U0001F600', 'a', '߿', 'ࠀ', '￿', '\U00010000', '\U0010ffff', '퟿', '']) for _ in range(rng.randrange(1, 5)))
            data = b'250 ' + t.encode('utf-8') + b'\r\n'
        else:
            data = ('%03d ok\r\n' % rng.choice([0, 99, 100, 199, 600, 999, 250])).encode()
        chunks = segmentations(data, rng, rng.choice(['whole', 'bytes', 'random']))
        todo.append((data, chunks))
    judge_peer_streams(ctx, todo, 'recv-malformed2', 'mal2')


def judge_peer_streams(ctx, todo, kind, tag, nontrivial=True):
    """todo: (data, chunks) with b''.join(chunks) == data, sent by a peer.  Reply.recv against the model
    (batch) and against the independent reference parser; no exception but BadReply / ConnectionLost."""
    outs = ctx.model.batch('c17_recv', [[b'', chunks] for (_, chunks) in todo])
    for (data, chunks), o in zip(todo, outs):
        io_out = impl_recv(b'', chunks)
        mo = model_recv_out(o, chunks)
        ctx.evaluated((tag, data, len(chunks)), nontrivial=nontrivial)
        if io_out[:4] != mo:
            ctx.mismatch(kind, dict(chunks=chunks), io_out, mo)
        if judge_recv_exception(ctx, io_out, dict(chunks=chunks)):
            continue
        if io_out[0] == 0 and not VALID_CODE.match(io_out[1]):
            report(ctx, 'c17:non-ascii-reply-code-accepted', dict(chunks=chunks),
                   'Reply.recv returned code %r (not three ASCII digits) for %r instead of raising BadReply' % (io_out[1], data[:80]))
            continue
        ref = ref_parse(data)
        exp = {'lost': 3, 'bad': 1, 'badcode': 2, 'ok': 0}[ref[0]]
        if io_out[0] != exp or (exp == 0 and (io_out[1] != ref[1] or io_out[3] != ref[3])):
            report(ctx, 'c17:malformed', dict(chunks=chunks), 'expected %r got %r' % (ref, io_out))


def ref_wire(code, text):
    """what a peer writes for (code, text): independent of the implementation"""
    lines = norm(text).split('\r\n')
    out = b''
    for i, l in enumerate(lines):
        out += code.encode('ascii') + (b' ' if i == len(lines) - 1 else b'-') + l.encode('utf-8') + b'\r\n'
    return out


def run_peer_esc(ctx, n_random):
    """a PEER sends replies whose text looks like an enhanced status code (the matrix above, written on
    the wire by the harness, not by the library): Reply.recv returns a reply or raises BadReply"""
    rng = ctx.rng
    todo = []
    cases = [(kind, ct) for (kind, _, ct) in esc_matrix()]
    for i in range(n_random):
        code = gen_code(rng)
        kind, pre = gen_esc_prefix(rng, code)
        cases.append((kind, (code, pre + rng.choice(ESC_SEPS) + rng.choice(ESC_TAILS)[1])))
    for i, (kind, ct) in enumerate(cases):
        ctx.count('peer-esc:%s:%sxx' % (kind, ct[0][0]))
        data = ref_wire(*ct) + TRAILERS[i % len(TRAILERS)]
        for mode in (['whole', 'bytes', 'random'] if i % 4 == 0 else ['whole', 'random']):
            todo.append((data, segmentations(data, rng, mode)))
    judge_peer_streams(ctx, todo, 'recv-peer-esc', 'peer')


# ------------------------------------------------------------ construction orders
ORDER_CODES = ['250', '450', '550', '354', '150', '421']
ORDER_MSGS = ['2.1.5 Recipient <x> Ok', '5.7.1 Denied', 'Ok', '4.2.0 try\nagain later', '', '2.1179.245 foo', '3.0.0 x', '2.0.0 5.1.1 nested']
ORDER_ESCS = ['2.3.4', '5.7.1', '4.10.100']
BAD_CODES = ['650', '25', 'abc', '2500', '050']
BAD_ESCS = ['abc', '2.1000.1', '2.0.0 ', '3.1.1', '2.1']
# the library's pre-defined replies (sources of Reply.copy)
PREDEFINED = ['unknown_command', 'unknown_parameter', 'bad_sequence', 'bad_arguments', 'timed_out',
              'unhandled_error', 'connection_failed', 'tls_failure', 'invalid_credentials']
S = ('S',)


def order_templates(a, b, m, m2, e, pre1, pre2):
    """(name, start, ops): start None = Reply(), (code, text) = Reply(code, text).
    Operations: ('C', code) ('M', text) ('E', str|None) ('F',) = ESC False, ('K', name | [code, text]) =
    reply.copy(predefined reply | Reply(code, text)), ('S',) = write the object now.  Every sequence is
    written once more at its end."""
    C, M, E, F, K = (lambda c: ('C', c)), (lambda v: ('M', v)), (lambda v: ('E', v)), ('F',), (lambda o: ('K', o))
    return [
        ('ctor', (a, m), ()),
        ('code,msg', None, (C(a), M(m))),
        ('msg,code', None, (M(m), C(a))),
        ('ctor,code', (a, m), (C(b),)),
        ('msg,code,code', None, (M(m), C(a), C(b))),
        ('code,msg,code', None, (C(a), M(m), C(b))),
        ('ctor,esc,code', (a, m), (E(e), C(b))),
        ('ctor,code,esc', (a, m), (C(b), E(e))),
        ('esc,code,msg,code', None, (E(e), C(a), M(m), C(b))),
        ('ctor,code,msg2', (a, m), (C(b), M(m2))),
        ('ctor,code,msg-again', (a, m), (C(b), M(m))),
        ('ctor,escnone,code', (a, m), (E(None), C(b))),
        ('msg,esc,code', None, (M(m), E(e), C(b))),
        ('ctor,escfalse,code', (a, m), (F, C(b))),
        ('ctor,code,escfalse', (a, m), (C(b), F)),
        # the same object written more than once, re-populated in between
        ('ctor,send,send', (a, m), (S, S)),
        ('ctor,send,code,send', (a, m), (S, C(b), S)),
        ('ctor,send,msg2,send', (a, m), (S, M(m2), S)),
        ('ctor,send,esc,send', (a, m), (S, E(e), S)),
        ('ctor,send,copy-predefined,send', (a, m), (S, K(pre1), S)),
        ('ctor,send,copy-built,send', (a, m), (S, K((b, m2)), S)),
        ('copy,send,copy,send', None, (K(pre1), S, K(pre2), S)),
        ('copy-built,send,copy,send,code,send', None, (K((a, m)), S, K(pre1), S, C(b), S)),
        ('ctor,copy,send', (a, m), (K(pre2), S)),
        ('ctor,send,copy-same,send', (a, m), (S, K((a, m)), S)),
        # texts that cannot be encoded (lone surrogate in the only / first / a middle / the last line): the write raises,
        # the same IO is used again
        ('unencodable-single,send,copy,send', (a, 'x' + SUR), (S, K('unhandled_error'), S)),
        ('unencodable-first,send,copy,send', (a, SUR + 'x\nsecond\nthird'), (S, K('unhandled_error'), S)),
        ('unencodable-middle,send,copy,send', (a, 'first\nb' + SUR + '\nthird'), (S, K(pre1), S)),
        ('unencodable-last,send,copy,send', (a, m.split('\n')[0] + '\nline two\n' + SUR), (S, K('unhandled_error'), S)),
        ('ctor,send,msg-unencodable,send,msg2,send', (a, m), (S, M('one\ntwo ' + SUR + '\nthree'), S, M(m2), S)),
    ]


def gen_order(rng):
    ops = []
    for _ in range(rng.randrange(1, 8)):
        k = rng.random()
        if k < 0.3:
            ops.append(('C', rng.choice(BAD_CODES) if rng.random() < 0.1 else gen_code(rng) if rng.random() < 0.7 else str(rng.randrange(100, 200))))
        elif k < 0.5:
            t = gen_text(rng, rng.choice(ORDER_CODES))
            if rng.random() < 0.08:
                cut = rng.randrange(len(t) + 1)
                t = (t[:cut] + SUR + t[cut:]) if cut or not t else 'a' + SUR + t
            ops.append(('M', t))
        elif k < 0.65:
            r = rng.random()
            ops.append(('E', None if r < 0.15 else rng.choice(BAD_ESCS) if r < 0.3 else gen_esc_prefix(rng, rng.choice(ORDER_CODES))[1]))
        elif k < 0.7:
            ops.append(('F',))
        elif k < 0.85:
            ops.append(('K', rng.choice(PREDEFINED) if rng.random() < 0.5 else gen_reply(rng)))
        else:
            ops.append(S)
    if not any(o[0] in 'MK' for o in ops):
        ops.insert(rng.randrange(len(ops) + 1), ('M', gen_text(rng)))
    if rng.random() < 0.7:
        ops.append(('C', gen_code(rng)))
    start = None if rng.random() < 0.5 else gen_reply(rng)
    return ('random', start, tuple(ops))


EXPECTED_SETTER_ERRORS = ('Invalid SMTP reply code', 'Invalid ENHANCEDSTATUSCODES string')


def copy_source(o):
    """the other reply of reply.copy(other): a pre-defined reply of the library or Reply(code, text)"""
    return getattr(reply_mod, o) if isinstance(o, str) else Reply(*o)


def impl_apply(r, op):
    """one operation; 1 if a setter refused the value (ValueError of the code / ESC setter)"""
    try:
        if op[0] == 'C':
            r.code = op[1] or None
        elif op[0] == 'M':
            r.message = op[1]
        elif op[0] == 'E':
            r.enhanced_status_code = op[1] or None
        elif op[0] == 'K':
            r.copy(copy_source(op[1]))
        else:
            r.enhanced_status_code = False
    except ValueError as exc:
        if op[0] in 'CE' and exc.args and exc.args[0] in EXPECTED_SETTER_ERRORS:
            return 1
        raise
    return 0


SUR = '\ud800'          # a lone surrogate: str.encode('utf-8') raises UnicodeEncodeError


def impl_snapshot(r, io):
    """the object as it stands and what Reply.send(io) adds to the send buffer of `io` now:
    (code, message, esc, wire or None, esc switched off, send raised UnicodeEncodeError, bytes a failed send left)"""
    code, msg, esc = r.code, r.message, r.enhanced_status_code
    wire, failed, partial = None, False, b''
    if code and VALID_CODE.match(code) and msg is not None:
        before = len(io.send_buffer.getvalue())
        try:
            r.send(io)
            wire = io.send_buffer.getvalue()[before:]
        except UnicodeEncodeError:
            failed = True
            partial = io.send_buffer.getvalue()[before:]
    return (code or '', msg if msg is not None else '', esc, wire, (esc is None and bool(code) and code[0] in '245'), failed, partial)


def impl_order(start, ops):
    """-> (snapshots at every send, flags, send buffer of the ONE IO all the sends went to); `ops` ends with a send"""
    r = Reply(*start) if start else Reply()
    io = IO(ScriptSocket(), ('h', 25))
    sends, flags = [], []
    for op in ops:
        if op[0] == 'S':
            sends.append(impl_snapshot(r, io))
            flags.append(0)
        else:
            flags.append(impl_apply(r, op))
    return sends, flags, io.send_buffer.getvalue()


def model_flat(start, ops):
    enc = {'C': 0, 'M': 1, 'E': 2, 'F': 3, 'S': 5}
    out = []
    if start:
        out += [[0, start[0]], [2, ''], [1, start[1]]]       # Reply(code, text) = code setter, ESC None, message setter
    for op in ops:
        if op[0] == 'K':
            src = op[1]
            if isinstance(src, str):
                p = getattr(reply_mod, src)
                src = (p.code, p.message)     # the pre-defined reply as the source states it: Reply(code, text)
            out.append([4, model_flat(tuple(src), ())])
        else:
            out.append([enc[op[0]], (op[1] or '') if len(op) > 1 else ''])
    return out


def order_case(start, ops):
    return dict(start=list(start) if start else None, ops=[[o[0]] + [list(x) if isinstance(x, tuple) else x for x in o[1:]] for o in ops], op='ops')


def ops_from_case(c):
    start = tuple(c['start']) if c.get('start') else None
    ops = tuple(tuple(tuple(x) if isinstance(x, list) else x for x in o) for o in c['ops'])
    return start, ops


def describe_ops(start, ops):
    names = {'C': 'code', 'M': 'message', 'E': 'enhanced_status_code'}
    out = ['r = Reply(%r, %r)' % tuple(start) if start else 'r = Reply()']
    for o in ops:
        if o[0] == 'S':
            out.append('r.send(io)')
        elif o[0] == 'K':
            out.append('r.copy(%s)' % (o[1] if isinstance(o[1], str) else 'Reply(%r, %r)' % tuple(o[1])))
        elif o[0] == 'F':
            out.append('r.enhanced_status_code = False')
        else:
            out.append('r.%s = %r' % (names[o[0]], o[1]))
    return '; '.join(out)


def run_orders(ctx, n_random, everycut_one_in):
    """one Reply object under operation sequences: the same reply put together in different ORDERS (constructor;
    code then message; message then code; code changed afterwards to every other class; ESC set before / after
    the code change; message re-assigned), written SEVERAL times with setters or Reply.copy(pre-defined / built
    reply) in between.  Every write is read back with a pipelined successor.  Oracle on the implementation alone:
    a shown ESC has the class digit of the code the object has when it is written; what is written is the encoding
    of the code and text the object shows at that moment (independent encoder), and reading it back gives them."""
    rng = ctx.rng
    orders = []
    for a in ORDER_CODES:
        for b in ORDER_CODES:
            for i, m in enumerate(ORDER_MSGS):
                n = len(orders)
                m2 = ORDER_MSGS[(i + 3) % len(ORDER_MSGS)]
                e = ORDER_ESCS[(i + n) % len(ORDER_ESCS)]
                orders += order_templates(a, b, m, m2, e, PREDEFINED[n % len(PREDEFINED)], PREDEFINED[(n // 7 + 4) % len(PREDEFINED)])
    orders += [gen_order(rng) for _ in range(n_random)]
    orders = [(name, start, ops if ops and ops[-1] == S else ops + (S,)) for (name, start, ops) in dict.fromkeys(orders)]
    mouts = ctx.model.batch('c17_ops', [model_flat(st, ops) for (_, st, ops) in orders])
    successor = ('250', 'ok')
    built = build_all(ctx, [successor])
    jobs = []
    for i, ((name, start, ops), mo) in enumerate(zip(orders, mouts)):
        ctx.count('order:' + name)
        case = order_case(start, ops)
        try:
            sends, flags, out_buf = impl_order(start, ops)
        except Exception as exc:
            report(ctx, 'c17:build-raises', case, '%s raised %s' % (describe_ops(start, ops), exc_text(exc)))
            ctx.mismatch('ops-raises', case, exc_text(exc), mo)
            continue
        ctx.evaluated(('order', start, ops), nontrivial=(len(ops) > 1))
        attempted = all(w is not None or f for (_, _, _, w, _, f, _) in sends)
        im = (tuple((c, m, (e,) if e is not None else (), w, int(f)) if (w is not None or f) else (c, m, (e,) if e is not None else ()) for (c, m, e, w, _, f, _) in sends),
              ((0, 0, 0) if start else ()) + tuple(flags), out_buf if attempted else None)
        mm = (tuple((U(x[0]), U(x[1]), tuple(U(y) for y in x[2]), None if x[5] else B(x[3]), x[5]) if (sends[k][3] is not None or sends[k][5]) else (U(x[0]), U(x[1]), tuple(U(y) for y in x[2]))
                    for k, x in enumerate(mo[6])) if len(mo[6]) == len(sends) else mo[6],
              tuple(mo[4]), B(mo[7]) if attempted else None)
        if im != mm:
            ctx.mismatch('ops', case, im, mm)
        good_keys = []
        stream_ok = attempted
        for k, (code, msg, esc, wire, esc_off, failed, partial) in enumerate(sends):
            ctx.count('order-writes')
            where = dict(case, send_index=k, code=code, text=msg)
            if esc and code and esc[0] != code[0]:
                report(ctx, 'c17:esc-class-differs-from-code-class', where,
                       'after %s the reply has code %s but shows enhanced status %s at write %d (message %r%s)' % (
                           describe_ops(start, ops), code, esc, k, msg, ', written as %r' % wire if wire is not None else ''))
            if esc is not None and code and code[0] not in '245':
                report(ctx, 'c17:esc-class-differs-from-code-class', where, 'code %s has no enhanced status class but the reply shows %s' % (code, esc))
            if failed:
                ctx.count('order:write-raises-UnicodeEncodeError')
                if partial:
                    report(ctx, 'c17:partial-reply-written-on-encode-failure', where,
                           '%s: write %d raised UnicodeEncodeError (the text %r cannot be encoded) but left %r in the send buffer' % (
                               describe_ops(start, ops), k, msg, partial))
                continue
            if wire is None:
                ctx.count('order:not-sendable')
                continue
            want = ref_wire(code, msg)
            if wire != want:
                report(ctx, 'c17:send-does-not-reflect-current-state', where,
                       '%s: write %d put %r on the wire while the object has code %r and shows %r (encoding of that: %r)' % (
                           describe_ops(start, ops), k, wire, code, msg, want))
            if esc_off:
                ctx.count('order:esc-switched-off-roundtrip-not-judged')   # the receiving side shows its default ESC
                stream_ok = False
                continue
            key = (code, msg, start, ops, k)
            built[key] = (msg, wire)
            good_keys.append(key)
            s = [key, successor] if (i + k) % 2 == 0 else [key]
            last = (k + 1 == len(sends))
            jobs += seg_jobs(rng, s, built, TRAILERS[(i + k) % len(TRAILERS)], ['whole', 'bytes', 'random'] if last and i % 3 == 0 else ['whole', 'random'] if last else ['whole' if (i + k) % 2 else 'random'],
                             last and i % everycut_one_in == 0)
        if stream_ok and good_keys and any(f for (_, _, _, _, _, f, _) in sends):
            # a write failed on this IO: what the peer reads is the IO's whole send buffer -- exactly the writes that succeeded
            ctx.count('order:stream-after-failed-write')
            jobs.append((good_keys, b'', b'', segmentations(out_buf, rng, 'whole'), 'whole'))
            jobs.append((good_keys, b'', b'', segmentations(out_buf, rng, 'random'), 'random'))
    parse_back(ctx, jobs, built)


# ------------------------------------------------------------ the same IO after a bad reply
def impl_recv_chain(buf, chunks, maxn):
    """Reply().recv(io) up to `maxn` times on ONE IO; outcomes shaped as impl_recv, each with what is left
    unread (recv_buffer + the socket's unread input) after it"""
    sock = ScriptSocket(chunks)
    io = IO(sock, ('h', 25))
    io.recv_buffer = buf
    outs = []
    for _ in range(maxn):
        r = Reply()
        try:
            r.recv(io)
        except BadReply:
            outs.append((1, io.recv_buffer + sock.unread()))
            continue
        except ConnectionLost:
            outs.append((3,))
            break
        except ValueError as exc:
            outs.append((2,) if exc.args and exc.args[0] == 'Invalid SMTP reply code' else (4, exc_text(exc)))
            break
        except Exception as exc:
            outs.append((4, exc_text(exc)))
            break
        outs.append((0, r.code, r.message, io.recv_buffer + sock.unread(), r.enhanced_status_code))
    return outs


def model_recv_chain(ctx, inputs, maxn):
    """the model's recv called again and again on what it left: one batch per round"""
    chains = [[] for _ in inputs]
    state = [(b'', list(ch)) for ch in inputs]
    active = list(range(len(inputs)))
    for _ in range(maxn):
        if not active:
            break
        outs = ctx.model.batch('c17_recv', [[state[i][0], state[i][1]] for i in active])
        nxt = []
        for i, o in zip(active, outs):
            buf, chunks = state[i]
            chains[i].append(model_recv_out(o, chunks))
            if o[0] in (0, 1):
                k = o[4] if o[0] == 0 else o[2]
                state[i] = (B(o[3] if o[0] == 0 else o[1]), chunks[len(chunks) - k:] if k else [])
                nxt.append(i)
        active = nxt
    return chains


MALFORMED_SHAPES = [
    ('non-reply-line', [b'ok\r\n', b'25x ok\r\n', b'2 50 ok\r\n', b'\r\n', b'\n', b'250\r\n', b'250ok\r\n', b'250_ok\r\n', b' 250 ok\r\n',
                        b'650 no\r\n', b'099 no\r\n']),
    ('non-reply-line-inside-multiline', [b'250-a\r\nfoo\r\n', b'250-a\r\n\r\n', b'250-a\r\n250-b\r\nnot a reply line\r\n', b'550-5.1.1 a\r\n550_b\r\n']),
    ('code-mismatch', [b'250-first\r\n550 second\r\n', b'250-a\r\n250-b\r\n451 c\r\n', b'250-first\r\n550-second\r\n550 third\r\n',
                       b'354-a\r\n250-b\r\n', b'250-2.1.0 a\r\n251 2.1.5 b\r\n']),
    ('invalid-utf8', [b'250 a\xffb\r\n', b'250-ok\r\n250 a\xc3\r\n', b'550 \xed\xa0\x80\r\n', b'250-\xf4\x90\x80\x80\r\n250-mid\r\n250 end\r\n']),
    ('two-in-a-row', [b'ok\r\n25x\r\n', b'250-a\r\nfoo\r\n250-b\r\n550 c\r\n', b'250 \xff\r\n250-a\r\nbar\r\n', b'250-a\r\n550-b\r\n451 c\r\n']),
]
GOOD_SEQS = [[('250', 'ok')], [('550', '5.1.1 multi\nline'), ('250', '2.0.0 Ok')], [('354', 'go'), ('421', '4.4.2 bye\nnow'), ('250', 'x')],
             [('451', '5.7.1 other class'), ('220', 'banner é')]]


def run_continuation(ctx, exhaustive_len):
    """a malformed reply, then library-written well-formed replies, all read from the SAME IO.  Oracle on the
    implementation alone: (a) recv_reply keeps no state but recv_buffer -- every call after the first gives what a
    FRESH IO holding the unread rest gives; (b) once the refused lines are consumed (what is left equals the
    well-formed stream) every later reply comes back exactly; (c) each outcome agrees with the reference parser."""
    rng = ctx.rng
    built = build_all(ctx, [ct for g in GOOD_SEQS for ct in g])
    goods = [(g, b''.join(built[ct][1] for ct in g)) for g in GOOD_SEQS if all(ct in built for ct in g)]
    cases = []
    for kind, shapes in MALFORMED_SHAPES:
        for i, bad in enumerate(shapes):
            for gi, (g, gstream) in enumerate(goods):
                trailer = TRAILERS[(i + gi) % len(TRAILERS)]
                data = bad + gstream + trailer
                segs = [(m, segmentations(data, rng, m)) for m in ('whole', 'bytes', 'lines', 'random')]
                if len(data) <= 70:
                    segs += [('everycut', [data[:c], data[c:]]) for c in range(1, len(data))]
                for mode, chunks in segs:
                    cases.append((kind, bad, g, gstream, trailer, mode, chunks))
    for L in range(0, exhaustive_len + 1):
        for tup in itertools.product(b'25- \r\na.', repeat=L):
            bad = bytes(tup)
            g, gstream = goods[(len(cases)) % len(goods)]
            data = bad + gstream
            cases.append(('exhaustive', bad, g, gstream, b'', 'whole', segmentations(data, rng, 'whole')))
            cases.append(('exhaustive', bad, g, gstream, b'', 'random', segmentations(data, rng, 'random')))
    maxn = 8
    mchains = model_recv_chain(ctx, [c[6] for c in cases], maxn)
    for (kind, bad, g, gstream, trailer, mode, chunks), mchain in zip(cases, mchains):
        ctx.count('continuation:' + kind)
        ctx.count('seg:' + mode)
        case = dict(chunks=chunks, chain=True)
        chain = impl_recv_chain(b'', chunks, maxn)
        ctx.evaluated(('cont', bad, tuple(g), trailer, mode, len(chunks)), nontrivial=True)
        if [x[:4] for x in chain] != mchain:
            ctx.mismatch('recv-chain', case, [x[:4] for x in chain], mchain)
        if any(judge_recv_exception(ctx, x, case) for x in chain):
            continue
        data = b''.join(chunks)
        rest = data
        aligned = None
        want_tail = gstream + trailer
        for k, out in enumerate(chain):
            # (a) no state but the buffer
            if k > 0:
                fresh = impl_recv(rest, [])
                if fresh != out:
                    key = 'c17:state-survives-bad-reply' if chain[k - 1][0] == 1 else 'c17:state-survives-reply'
                    report(ctx, key, dict(case, call=k),
                           'call %d of Reply.recv on the same IO (after %s) gave %r; a fresh IO holding the unread input %r gives %r' % (
                               k, 'a BadReply' if chain[k - 1][0] == 1 else 'a reply', out, rest[:80], fresh))
                    break
            # (b) the well-formed replies behind the refused lines
            if aligned is None and rest == want_tail and k > 0:
                aligned = k
            if aligned is not None and k - aligned < len(g):
                ct = g[k - aligned]
                left = b''.join(built[c2][1] for c2 in g[k - aligned + 1:]) + trailer
                if out[:4] != (0, ct[0], norm(built[ct][0]), left):
                    report(ctx, 'c17:state-survives-bad-reply', dict(case, call=k),
                           'after the refused lines were consumed the library-written reply %r was read back as %r (expected rest %r)' % (
                               (ct[0], norm(built[ct][0])), out, left))
                    break
            # (c) the reference parser on what was unread before this call
            ref = ref_parse(rest)
            exp = {'lost': 3, 'bad': 1, 'badcode': 2, 'ok': 0}[ref[0]]
            if out[0] != exp or (exp == 0 and (out[1] != ref[1] or out[3] != ref[3])) or (exp == 1 and out[1] != ref[1]):
                report(ctx, 'c17:malformed', dict(case, call=k), 'call %d on unread %r: expected %r got %r' % (k, rest[:80], ref, out))
                break
            if out[0] in (0, 1):
                rest = out[3] if out[0] == 0 else out[1]
            else:
                break
        ctx.count('continuation:aligned' if aligned is not None else 'continuation:not-aligned')
    ctx.sample(dict(kind='continuation', malformed=[b for _, sh in MALFORMED_SHAPES for b in sh][:6], then=GOOD_SEQS[1], count=len(cases)))


# ------------------------------------------------------------ non-ASCII decimal digits in the code position
# families of Unicode decimal digits (str patterns call them \d; the wire pattern is a bytes pattern: ASCII only)
DIGIT_FAMILIES = [('fullwidth', 0xFF10), ('arabic-indic', 0x0660), ('devanagari', 0x0966), ('math-bold', 0x1D7CE), ('ext-arabic-indic', 0x06F0)]
CODE_POSITIONS = [(0,), (1,), (2,), (0, 1), (1, 2), (0, 2), (0, 1, 2)]


def unicode_code(code, family_base, positions):
    return ''.join(chr(family_base + int(d)) if i in positions else d for i, d in enumerate(code))


def run_unicode_codes(ctx):
    """a PEER sends reply lines whose code position holds non-ASCII decimal digits in 1, 2 or all 3 places
    (first digit valid / invalid), single- and multi-line: never a reply -- BadReply (the reference parser says
    what is consumed); what Reply.recv returns always has a code of three ASCII digits.  Also Reply(code=..) and
    the code setter with such strings against the model of code_pattern (a STR pattern: noted, not judged)."""
    rng = ctx.rng
    todo = []
    n = 0
    for fam, base in DIGIT_FAMILIES:
        for pos in CODE_POSITIONS:
            for code in ['250', '550', '354', '650', '050']:
                u = unicode_code(code, base, pos)
                shapes = [
                    ('single', '%s ok\r\n' % u),
                    ('single-tab', '%s\tok\r\n' % u),
                    ('all-lines', '%s-a\r\n%s-b\r\n%s c\r\n' % (u, u, u)),
                    ('first-line', '%s-a\r\n%s b\r\n' % (u, code)),
                    ('later-line', '%s-a\r\n%s-b\r\n%s c\r\n' % (code, u, code)),
                    ('last-line', '%s-a\r\n%s b\r\n' % (code, u)),
                ]
                for shape, text in shapes:
                    ctx.count('unicode-code:%s:%s' % (fam, shape))
                    data = text.encode('utf-8') + [b'250 2.0.0 next\r\n', b'', b'550-x\r\n550 y\r\n'][n % 3]
                    n += 1
                    for mode in ('whole', 'bytes', 'lines', 'random'):
                        todo.append((data, segmentations(data, rng, mode)))
                    if len(data) <= 40:
                        todo += [(data, [data[:c], data[c:]]) for c in range(1, len(data))]
    judge_peer_streams(ctx, todo, 'recv-unicode-code', 'ucode')
    # the constructor / code setter: code_pattern is a str pattern
    codes = []
    for fam, base in DIGIT_FAMILIES:
        for pos in CODE_POSITIONS:
            for code in ['250', '650']:
                codes.append(unicode_code(code, base, pos))
    outs = ctx.model.batch('c17_ctor', [[c, 'Ok'] for c in codes])
    accepted = 0
    for c, o in zip(codes, outs):
        io = impl_ctor(c, 'Ok')
        mo = (o[0],) if o[0] != 0 else (0, U(o[1]), U(o[2]), U(o[3]), tuple(U(e) for e in o[4]))
        ctx.evaluated(('ctor-ucode', c), nontrivial=True)
        if io != mo:
            ctx.mismatch('ctor-unicode-code', dict(code=c, text='Ok', op='build'), io, mo)
        accepted += (io[0] == 0)
    ctx.count('unicode-code:ctor-accepted', accepted)
    ctx.note('Reply(code=...) / the code setter use the STR pattern ^[12345]\\d\\d$: %d of %d codes with non-ASCII decimal digits in position 2/3 are accepted '
             '(e.g. %r); such a reply cannot be written (code.encode("ascii") raises before anything is buffered) - not a wire matter' % (accepted, len(codes), unicode_code('250', 0xFF10, (1, 2))))


# ------------------------------------------------------------ line sizes around the read size
READ_SIZE = 4096        # IO.raw_recv: socket.recv(4096)
SIZE_SHAPES = ['single', 'long-first', 'long-middle', 'long-last']
SIZE_SEGS = ['whole', 'read-4096', 'read-4095', 'read-4097', 'read-1000', 'before-crlf']


def size_reply(code, L, delta, charset, shape):
    """(code, text) whose long line is L - delta bytes ON THE WIRE (code, separator, ESC and CRLF included);
    charset 'ascii' or 'utf8-3' (3-byte characters, so a read boundary falls inside a character)"""
    probe = impl_build(code, 'x')[1]
    n = L - delta - (len(probe) - 1)             # bytes of text in the long line
    if shape in ('long-middle', 'long-last'):
        n += len(probe) - 1 - 6                  # the ESC is shown on the first line only
    if charset == 'ascii':
        long_line = ''.join('abcdefghij'[i % 10] for i in range(n))
    else:
        long_line = 'x' * (n % 3) + '€' * (n // 3)
    return {'single': long_line, 'long-first': long_line + '\nsecond line\nthird',
            'long-middle': 'first line\n' + long_line + '\nthird', 'long-last': 'first line\nsecond\n' + long_line}[shape]


def read_chunks(data, size):
    """what socket.recv(4096) hands over when the peer's data arrives in pieces of `size` bytes"""
    out = []
    for i in range(0, len(data), size):
        piece = data[i:i + size]
        out += [piece[j:j + READ_SIZE] for j in range(0, len(piece), READ_SIZE)]
    return out


def size_chunks(data, seg, wire):
    if seg == 'whole':
        return read_chunks(data, len(data))
    if seg.startswith('read-'):
        return read_chunks(data, int(seg[5:]))
    # everything up to the CRLF of the longest line, then the rest
    lines = wire.split(b'\r\n')
    longest = max(range(len(lines)), key=lambda i: len(lines[i]))
    cut = sum(len(l) + 2 for l in lines[:longest]) + len(lines[longest])
    return read_chunks(data[:cut], READ_SIZE) + read_chunks(data[cut:], READ_SIZE)


def size_run_one(p):
    """p: parameters -> (code, shown text, wire, chunks, expected remaining, implementation result)"""
    text = size_reply(p['code'], p['L'], p['delta'], p['charset'], p['shape'])
    msg, wire, esc = impl_build(p['code'], text)
    succ = impl_build('250', 'ok')[1] if p['successor'] else b''
    chunks = size_chunks(wire + succ, p['seg'], wire)
    return msg, wire, chunks, succ, impl_recv(b'', chunks)


def run_sizes(ctx, Ls, big, full):
    """reply lines of L - delta bytes around the 4096-byte read of raw_recv and beyond, ASCII and 3-byte
    characters, the long line alone / first / in the middle / last, a successor pipelined, read in 4096-byte
    reads (the real read size), 4095, 4097, 1000, and cut directly before the long line's CRLF"""
    params = []
    variants = [(charset, shape) for charset in ['ascii', 'utf8-3'] for shape in SIZE_SHAPES]
    n = 0
    for L in Ls:
        for delta in range(4):
            for gi, seg in enumerate(SIZE_SEGS):
                # thorough: the full cross product; quick: two (charset, shape) variants per (L, delta, segmentation),
                # rotating so that every variant meets every L, delta and segmentation
                picks = variants if full else [variants[(n + gi) % 8], variants[(n + gi + 5) % 8]]
                for (charset, shape) in picks:
                    code = ['250', '550', '354', '451'][(n + gi + len(shape)) % 4]
                    params.append(dict(code=code, L=L, delta=delta, charset=charset, shape=shape, seg=seg, successor=True))
            n += 1
    for L in big:
        for ci, charset in enumerate(['ascii', 'utf8-3']):
            for si, shape in enumerate(['single', 'long-middle']):
                for gi, seg in enumerate(['read-4096', 'read-1000', 'before-crlf']):
                    if full or (ci + si + gi) % 2 == 0:
                        params.append(dict(code='550', L=L, delta=0, charset=charset, shape=shape, seg=seg, successor=True))
    runs = []
    for p in params:
        try:
            runs.append((p, size_run_one(p)))
        except Exception as exc:
            report(ctx, 'c17:build-raises', dict(size=p), 'long reply %r: build/send raised %s' % (p, exc_text(exc)))
    outs = ctx.model.batch('c17_recv', [[b'', chunks] for (_, (_, _, chunks, _, _)) in runs])
    for (p, (msg, wire, chunks, succ, io_out)), o in zip(runs, outs):
        longest = max(len(l) + 2 for l in wire.split(b'\r\n')[:-1])
        ctx.count('size:L=%d' % p['L'])
        ctx.count('size:seg=' + p['seg'])
        ctx.evaluated(('size', tuple(sorted(p.items()))), nontrivial=True)
        if longest != p['L'] - p['delta']:
            ctx.mismatch('size-generator', dict(size=p), longest, p['L'] - p['delta'])
        mo = model_recv_out(o, chunks)
        if io_out[:4] != mo:
            ctx.mismatch('recv-size', dict(size=p), tuple(x if not isinstance(x, (bytes, str)) or len(x) < 80 else (len(x), x[:30]) for x in io_out[:4]),
                         tuple(x if not isinstance(x, (bytes, str)) or len(x) < 80 else (len(x), x[:30]) for x in mo))
        if judge_recv_exception(ctx, io_out, dict(size=p)):
            continue
        if io_out[:4] != (0, p['code'], norm(msg), succ):
            got = tuple(x if not isinstance(x, (bytes, str)) or len(x) < 80 else '%s... (%d)' % (x[:30], len(x)) for x in io_out)
            report(ctx, 'c17:long-line-roundtrip', dict(size=p),
                   'a %s reply whose longest line is %d bytes on the wire (%s, %s), written by the library and read %s with a successor behind it, came back as %r' % (
                       p['code'], longest, p['charset'], p['shape'], p['seg'], got))
    ctx.sample(dict(kind='line-sizes', L=list(Ls) + list(big), deltas=[0, 1, 2, 3], segmentations=SIZE_SEGS, shapes=SIZE_SHAPES, count=len(params)))


# ------------------------------------------------------------ the two patterns of reply.py
def model_msgpat(o):
    return (U(o[0]), U(o[1])) if o else None


def impl_msgpat(v):
    m = reply_mod.message_esc_pattern.match(v)
    return (m.group(1), v[m.end(0):]) if m else None


def model_escpat(o):
    return tuple(U(x) for x in o) if o else None


def impl_escpat(v):
    m = reply_mod.esc_pattern.match(v)
    return m.groups() if m else None


def strings_over(alphabet, maxlen, prefix=''):
    for L in range(0, maxlen + 1):
        for tup in itertools.product(alphabet, repeat=L):
            yield prefix + ''.join(tup)


def batched(ctx, cases, entries, size=150000):
    """(case, out_1, .., out_n) for every case, the model being run on slices of `cases`"""
    for i in range(0, len(cases), size):
        part = cases[i:i + size]
        outs = [ctx.model.batch(e, part) for e in entries]
        for row in zip(part, *outs):
            yield row


def run_patterns(ctx, len_plain, len_prefixed):
    """message_esc_pattern, esc_pattern and code_pattern of slimta.smtp.reply against their models,
    exhaustively over small alphabets; and, on the implementation alone, the statement of
    C17_esc_patterns_agree / C17_construction_total: what message_esc_pattern captures, esc_pattern
    accepts, and Reply(code, text) does not raise."""
    A1 = '253.01 a'
    A2 = '01. a\n'
    cases = list(strings_over(A1, len_plain)) + list(strings_over(A2, len_prefixed, prefix='2.')) \
        + list(strings_over(A2, len_prefixed - 1, prefix='5.1.'))
    cases = list(dict.fromkeys(cases))
    ctor_cases = []
    for v, om, oe in batched(ctx, cases, ['c17_msgpat', 'c17_escpat']):
        im, ie = impl_msgpat(v), impl_escpat(v)
        mm, me = model_msgpat(om), model_escpat(oe)
        hit = bool(im or ie or mm or me)
        ctx.evaluated(('pat', v), nontrivial=hit)
        if im != mm:
            ctx.mismatch('message_esc_pattern', dict(text=v), im, mm)
        if ie != me:
            ctx.mismatch('esc_pattern', dict(text=v), ie, me)
        if im:
            ctx.count('pattern:message_esc_pattern-matches')
            if impl_escpat(im[0]) is None:
                report(ctx, 'c17:esc-patterns-disagree', dict(code='250', text=v, op='build'),
                       'message_esc_pattern captures %r from %r but esc_pattern (the enhanced_status_code setter) refuses it' % (im[0], v))
        if ie:
            ctx.count('pattern:esc_pattern-matches')
        if hit or len(v) <= 3:
            ctor_cases.append(v)
    # the constructor on everything either pattern (or model) matched, for a peeling and a non-peeling code
    codes = ['250', '354', '550', '']
    pairs = [(c, v) for v in ctor_cases for c in codes]
    outs = ctx.model.batch('c17_ctor', [list(p) for p in pairs])
    for (c, v), o in zip(pairs, outs):
        io = impl_ctor(c, v)
        mo = (o[0],) if o[0] != 0 else (0, U(o[1]), U(o[2]), U(o[3]), tuple(U(e) for e in o[4]))
        ctx.evaluated(('ctor', c, v), nontrivial=(o[0] != 0 or bool(o[4]) or bool(ESC_SHAPED.match(v))))
        if io != mo:
            ctx.mismatch('ctor', dict(code=c, text=v, op='build'), io, mo)
        if io[0] != 0 and (c == '' or VALID_CODE.match(c)):
            report(ctx, 'c17:build-raises', dict(code=c, text=v, op='build'),
                   'Reply(%r, %r) raised %s; no reply was built' % (c, v, CTOR_RAISES.get(io[0], io[-1])))
    # code_pattern
    codes = list(strings_over('25609a\n٣', 4))
    outs = ctx.model.batch('c17_codepat', codes)
    for c, o in zip(codes, outs):
        ic = bool(reply_mod.code_pattern.match(c))
        ctx.evaluated(('codepat', c), nontrivial=ic)
        if ic != bool(o):
            ctx.mismatch('code_pattern', dict(code=c), ic, bool(o))
    ctx.count('pattern-strings', len(cases))
    ctx.extra['exhaustive_patterns'] = ('message_esc_pattern / esc_pattern vs model on every string over %r up to length %d, "2." + every string over %r up to length %d, '
                                        '"5.1." + ... up to length %d (%d strings); Reply(code, text) vs reply_ctor on the %d of them either pattern matches (and all of length <= 3) '
                                        'x codes 250/354/550/None; code_pattern on every string over "25609a\\n\u0663" up to length 4'
                                        % (A1, len_plain, A2, len_prefixed, len_prefixed - 1, len(cases), len(ctor_cases)))


def run_classes(ctx):
    """the generated Unicode class tables against the running `re` (every code point)"""
    d = re.compile(r'\d'); s = re.compile(r'\s')
    pts = list(range(0, 0x3100)) + list(range(0xFF00, 0x10000)) + list(range(0x10000, 0x1F000, 1))
    if ctx.quick:
        pts = list(range(0, 0x3100)) + list(range(0xA600, 0xAC00)) + list(range(0xFF00, 0x10000)) + list(range(0x10400, 0x12000)) + list(range(0x1D700, 0x1E960))
    md = ctx.model.batch('c17_udigit', pts)
    ms = ctx.model.batch('c17_uspace', pts)
    bad = 0
    for c, a, b in zip(pts, md, ms):
        if bool(a) != bool(d.match(chr(c))) or bool(b) != bool(s.match(chr(c))):
            bad += 1
            ctx.mismatch('unicode-class', dict(cp=c), (bool(d.match(chr(c))), bool(s.match(chr(c)))), (a, b))
    ctx.count('unicode-class-points', len(pts))
    ctx.evaluations += len(pts)


CTOR_RAISES = {1: 'ValueError: Invalid SMTP reply code', 2: 'ValueError: Invalid ENHANCEDSTATUSCODES string'}


def run(ctx):
    import time
    ctx.extra['rule'] = ('structured: random sequences of 1-3 Reply(code,text) objects (codes 200..599, texts from ESC-looking/Unicode/CR/LF pieces; a quarter start with a '
                         'status-code-looking triple: 1-3 / 4+ digit components, leading zeros, zeros, class equal to / different from the code class, classes 0,1,3,6,7,9, non-ASCII digits), '
                         'wire bytes + trailer re-parsed under whole/bytewise/linewise/random/every-single-cut segmentations with part pre-loaded in recv_buffer; '
                         'esc-matrix: codes 250/220/354/334/451/421/550/535 x every listed status-code-looking prefix x 10 separators x single-/multi-line tails, built by the library '
                         '(alone and with a pipelined successor) and, separately, written by a peer; '
                         'patterns: message_esc_pattern / esc_pattern / code_pattern against their models exhaustively over small alphabets, Reply(code, text) against reply_ctor; '
                         'malformed: every byte string over {2,5,-,SP,CR,LF,a,.} to the stated length plus structured bad-UTF-8/mixed-code/non-numeric replies; '
                         'orders: one Reply object under operation sequences (constructor / setters in every order / code changed across classes / ESC str, None, False / Reply.copy(pre-defined or built reply) / several writes of the same object), every write judged and read back; '
                         'unicode-codes: peer-sent reply lines with fullwidth / Arabic-Indic / extended Arabic-Indic / Devanagari / mathematical-bold digits in 1, 2 or all 3 code positions (first digit valid or not), single- and multi-line (all lines / first / a later / the last line), all segmentations; '
                         'continuation: each malformed shape (non-reply line, also inside a multi-line reply; other code inside a multi-line reply; invalid UTF-8; two in a row; every string over the 8-letter alphabet to length 3 (5)) followed by 1-3 library-written replies and a trailer, read call after call from the SAME IO at whole/bytewise/linewise/random/every-cut segmentations; '
                         'sizes: replies whose longest wire line is L-d bytes, L in 1000,4095,4096,4097,5000,8192(,16384,65536), d in 0..3, ASCII and 3-byte characters, long line alone/first/middle/last, successor pipelined, read in 4096-byte reads (raw_recv), 4095, 4097, 1000 and cut before the CRLF; '
                         'every implementation call is guarded: an exception out of Reply()/send is c17:build-raises, out of Reply.recv (other than BadReply/ConnectionLost) c17:recv-raises-not-badreply; '
                         'distinct_nontrivial counts distinct (reply, segmentation) cases with multi-line, status-code-looking, non-ASCII or pipelined content, malformed inputs containing a complete line, '
                         'and pattern strings that one of the patterns matches')
    _reported.clear()
    stages = [
        ('classes', lambda: run_classes(ctx)),
        ('esc-matrix', lambda: run_esc_matrix(ctx, 32 if ctx.quick else 1)),
        ('peer-esc', lambda: run_peer_esc(ctx, 300 if ctx.quick else 20000)),
        ('orders', lambda: run_orders(ctx, 1000 if ctx.quick else 12000, 16 if ctx.quick else 4)),
        ('unicode-codes', lambda: run_unicode_codes(ctx)),
        ('continuation', lambda: run_continuation(ctx, 3 if ctx.quick else 5)),
        ('sizes', lambda: run_sizes(ctx, [1000, 4095, 4096, 4097, 5000, 8192] if ctx.quick else [1000, 4095, 4096, 4097, 5000, 8192, 16384, 65536], [16384, 65536] if ctx.quick else [], not ctx.quick)),
        ('structured', lambda: run_structured(ctx, 800 if ctx.quick else 4000)),
        ('patterns', lambda: run_patterns(ctx, 5 if ctx.quick else 7, 6 if ctx.quick else 7)),
        ('malformed', lambda: run_malformed(ctx, 5 if ctx.quick else 7)),
        ('malformed-structured', lambda: run_malformed_structured(ctx, 300 if ctx.quick else 5000)),
    ]
    walls = {}
    for name, f in stages:
        t0 = time.time()
        f()
        walls[name] = round(time.time() - t0, 1)
    ctx.extra['exhaustive_bound'] = ctx.extra.get('exhaustive_bound', '') + '; ' + ctx.extra.pop('exhaustive_patterns', '')
    ctx.note('stage wall seconds: %s' % walls)


def replay(ctx, case):
    c = case.get('case', case)
    def unhex(x):
        return bytes.fromhex(x['hex']) if isinstance(x, dict) else x
    rc = 0
    if c.get('chain'):
        chunks = [unhex(x) for x in c.get('chunks', [])]
        print('Reply.recv again and again on ONE IO fed %r' % (chunks,))
        chain = impl_recv_chain(b'', chunks, 8)
        rest = b''.join(chunks)
        for k, out in enumerate(chain):
            fresh = impl_recv(rest, [])
            print('call %d: %r' % (k, out))
            if out[0] == 4:
                print('  -> [c17:recv-raises-not-badreply]')
                rc = 1
                break
            if k > 0 and fresh != out:
                print('  -> a fresh IO holding the unread input %r gives %r [%s]' % (rest, fresh, 'c17:state-survives-bad-reply' if chain[k - 1][0] == 1 else 'c17:state-survives-reply'))
                rc = 1
                break
            if out[0] not in (0, 1):
                break
            rest = out[3] if out[0] == 0 else out[1]
        if ctx.model:
            print('model:', model_recv_chain(ctx, [chunks], 8)[0])
        return rc
    if 'buf' in c or 'chunks' in c:
        buf = unhex(c.get('buf', b'')) or b''
        chunks = [unhex(x) for x in c.get('chunks', [])]
        out = impl_recv(buf, chunks)
        print('Reply.recv on buf=%r chunks=%r' % (buf, chunks))
        print('implementation:', out)
        if out[0] == 4:
            print('  -> raised %s: neither a reply nor BadReply [c17:recv-raises-not-badreply]' % out[1])
            rc = 1
        if out[0] == 0 and not VALID_CODE.match(out[1]):
            print('  -> returned a reply whose code %r is not three ASCII digits instead of raising BadReply [c17:non-ascii-reply-code-accepted]' % out[1])
            rc = 1
        if ctx.model:
            print('model         :', model_recv_out(ctx.model.call('c17_recv', [buf, chunks]), chunks))
    if c.get('size') is not None:
        p = c['size']
        print('long reply: %r' % (p,))
        try:
            msg, wire, chunks, succ, out = size_run_one(p)
        except Exception as exc:
            print('  -> raised %s [c17:build-raises]' % exc_text(exc))
            return 1
        lines = wire.split(b'\r\n')[:-1]
        print('written: %d bytes, lines of %r bytes (+CRLF); read as %d chunks of sizes %r%s' % (
            len(wire), [len(l) for l in lines], len(chunks), [len(x) for x in chunks[:8]], ' ...' if len(chunks) > 8 else ''))
        short = tuple(x if not isinstance(x, (bytes, str)) or len(x) < 80 else '%s... (%d)' % (x[:30], len(x)) for x in out)
        print('implementation:', short)
        if out[0] == 4:
            print('  -> [c17:recv-raises-not-badreply]')
            return 1
        if out[:4] != (0, p['code'], norm(msg), succ):
            print('  -> not the reply that was written (code %r, %d characters of text, successor %r left) [c17:long-line-roundtrip]' % (p['code'], len(norm(msg)), succ))
            return 1
        print('  = the reply that was written, successor %r left' % succ)
        return 0
    if c.get('ops') is not None:
        # the operation sequence on the CURRENT source: every write judged, then read back
        start, ops = ops_from_case(c)
        print(describe_ops(start, ops))
        try:
            sends, flags, out_buf = impl_order(start, ops)
        except Exception as exc:
            print('  -> raised %s [c17:build-raises]' % exc_text(exc))
            return 1
        mo = ctx.model.call('c17_ops', model_flat(start, ops)) if ctx.model else None
        print('setters refused: %r' % (flags,))
        for k, (code, msg, esc, wire, esc_off, failed, partial) in enumerate(sends):
            print('write %d: object has code=%r message=%r enhanced_status_code=%r; %s' % (k, code, msg, esc, 'raised UnicodeEncodeError, left %r in the send buffer' % partial if failed else 'written %r' % wire))
            if failed and partial:
                print('  -> a write that failed left part of the reply in the send buffer [c17:partial-reply-written-on-encode-failure]')
                rc = 1
            if mo is not None and k < len(mo[6]):
                x = mo[6][k]
                print('  model : code=%r message=%r enhanced_status_code=%r %s' % (U(x[0]), U(x[1]), tuple(U(y) for y in x[2]), 'UnicodeEncodeError, nothing written' if x[5] else 'wire=%r' % B(x[3])))
            if esc and code and esc[0] != code[0]:
                print('  -> enhanced status class %s differs from the code class %s [c17:esc-class-differs-from-code-class]' % (esc[0], code[0]))
                rc = 1
            if wire is None:
                continue
            if wire != ref_wire(code, msg):
                print('  -> the bytes written are not the encoding %r of the code and text the object has now [c17:send-does-not-reflect-current-state]' % ref_wire(code, msg))
                rc = 1
            if not esc_off:
                back = impl_recv(b'', [wire + b'250 ok\r\n'])
                print('  read back (successor pipelined): %r' % (back,))
                if back[0] == 4:
                    print('  -> [c17:recv-raises-not-badreply]')
                    rc = 1
                elif back[:4] != (0, code, norm(msg), b'250 ok\r\n'):
                    print('  -> not the code / text %r the object showed when it was written [c17:roundtrip]' % ((code, norm(msg)),))
                    rc = 1
        if any(x[5] for x in sends):
            print('send buffer of the IO after all writes: %r' % out_buf)
            chain = impl_recv_chain(b'', [out_buf], len(sends) + 1)
            print('read back by a peer: %r' % (chain,))
            want = [(0, c, norm(m)) for (c, m, e, w, off, f, p) in sends if w is not None]
            if not any(off for (c, m, e, w, off, f, p) in sends if w is not None) and [x[:3] for x in chain if x[0] != 3] != want:
                print('  -> not the replies whose write succeeded %r [c17:roundtrip]' % (want,))
                rc = 1
        return rc
    if 'code' in c and 'text' in c:
        out = impl_ctor(c['code'], c['text'])
        if out[0] != 0:
            print('Reply(%r, %r) raised %s [c17:build-raises]' % (c['code'], c['text'], CTOR_RAISES.get(out[0], out[-1])))
            m = impl_msgpat(c['text'])
            if m:
                print('  message_esc_pattern captures %r, esc_pattern.match(%r) = %r' % (m[0], m[0], impl_escpat(m[0])))
            rc = 1
        else:
            try:
                msg, wire, esc = impl_build(c['code'], c['text'])
                print('Reply(%r, %r).message = %r, enhanced_status_code = %r, wire = %r' % (c['code'], c['text'], msg, esc, wire))
            except Exception as exc:
                print('Reply(%r, %r).send raised %s [c17:build-raises]' % (c['code'], c['text'], exc_text(exc)))
                rc = 1
        if ctx.model:
            o = ctx.model.call('c17_ctor', [c['code'], c['text']])
            print('model reply_ctor:', (o[0],) if o[0] != 0 else (0, U(o[1]), U(o[2]), U(o[3]), tuple(U(e) for e in o[4])))
    return rc
