"""C17 - replies survive the wire.  Correspondence of model/Reply.v with
slimta.smtp.io.IO.send_reply/recv_reply + slimta.smtp.reply.Reply, and the
property oracle on the implementation."""
import re, itertools
from vp.core import B, U, canon
from vp.fakes import ScriptSocket, segmentations

from slimta.smtp.io import IO
from slimta.smtp.reply import Reply
from slimta.smtp import BadReply, ConnectionLost

ASSUMPTIONS = [
    'a reply is "written by the library" when it is built with Reply(code, text) and sent with Reply.send',
    'texts: valid Unicode scalar values, empty or not starting with a character matching \\s',
    'fake socket: recv() returns scripted chunks, b"" at the end (EOF => ConnectionLost)',
]

WS = re.compile(r'\s')
ESC_LOOKING = re.compile(r'^([245]\.\d\d?\d?\.\d\d?\d?)\s+')


def norm(t):
    return re.sub(r'\r?\n', '\r\n', t)


def impl_build(code, text):
    r = Reply(code, text)
    sock = ScriptSocket()
    io = IO(sock, ('h', 25))
    r.send(io)
    return r.message, io.send_buffer.getvalue(), r.enhanced_status_code


def impl_recv(buf, chunks):
    sock = ScriptSocket(chunks)
    io = IO(sock, ('h', 25))
    io.recv_buffer = buf
    r = Reply()
    try:
        r.recv(io)
    except BadReply:
        return (1, io.recv_buffer + sock.unread())
    except ValueError:
        return (2,)
    except ConnectionLost:
        return (3,)
    return (0, r.code, r.message, io.recv_buffer + sock.unread(), r.enhanced_status_code)


def model_recv_out(o, chunks):
    """model output of c17_recv -> same shape as impl_recv (without esc)"""
    tag = o[0]
    if tag == 0:
        k = o[4]
        rest = b''.join(chunks[len(chunks) - k:]) if k else b''
        return (0, U(o[1]), U(o[2]), B(o[3]) + rest)
    if tag == 1:
        k = o[2]
        rest = b''.join(chunks[len(chunks) - k:]) if k else b''
        return (1, B(o[1]) + rest)
    return (tag,)


# ------------------------------------------------------------ generators
PIECES = ['a', 'Ok', 'queued as 1234', ' ', '\t', '\r', '\n', '\r\n', '.', '-', '2.0.0 ', '5.1.1 ', '4.2.0\t',
          '2.0.0', '5.7.8  ', '2.1.5\r\n', 'é', '٣', ' ', '\U0001F600', '250', '250-', '250 ',
          '3', '1.2.3 ', '2.999.999 ', '2.1000.0 ', '4.٣.0 ', '\x0b', '\x0c', '\x1c', '\x85', '\xa0', 'x' * 70,
          '\n\n', '\r\r\n', 'Go ahead', 'PIPELINING', '8BITMIME\nSIZE 100', '=', 'dGVzdA==']


def gen_text(rng):
    k = rng.choice([0, 1, 1, 2, 2, 3, 4, 6])
    t = ''.join(rng.choice(PIECES) for _ in range(k))
    if rng.random() < 0.3:
        t = rng.choice(['2', '4', '5']) + '.' + str(rng.randrange(0, 1200)) + '.' + str(rng.randrange(0, 1200)) + rng.choice([' ', '  ', '\t', '\n', '\r\n', '', 'x']) + t
    if t and WS.match(t):
        t = rng.choice(['a', 'Ok', '.', '2.0.0 x']) + t
    return t


def gen_code(rng):
    r = rng.random()
    if r < 0.25:
        return rng.choice(['250', '354', '334', '421', '550', '220', '235', '451', '535', '500'])
    if r < 0.45:
        return str(rng.randrange(300, 400))
    return str(rng.randrange(200, 600))


TRAILERS = [b'', b'250 ok\r\n', b'2', b'250-', b'\r\n', b'QUIT\r\n', b'\xff', b'250 partial']


def run_structured(ctx, n_seq):
    rng = ctx.rng
    # 1. build + wire: batch through the model
    seqs = []
    for i in range(n_seq):
        k = rng.choice([1, 1, 2, 3])
        seqs.append([(gen_code(rng), gen_text(rng)) for _ in range(k)])
    flat = [ct for s in seqs for ct in s]
    m_wire = ctx.model.batch('c17_wire', [list(ct) for ct in flat])
    m_msg = ctx.model.batch('c17_getmsg', [list(ct) for ct in flat])
    built = {}
    for ct, mw, mm in zip(flat, m_wire, m_msg):
        msg, wire, esc = impl_build(*ct)
        built[ct] = (msg, wire)
        if wire != B(mw) or msg != U(mm):
            ctx.mismatch('build', dict(code=ct[0], text=ct[1]), dict(message=msg, wire=wire), dict(message=U(mm), wire=B(mw)))
        if esc is not None and esc[0] != ct[0][0]:
            ctx.fail('c17:esc-class', dict(code=ct[0], text=ct[1]), 'enhanced status %r class differs from code' % esc)
    # 2. parse back under segmentations
    jobs = []
    for s in seqs:
        stream = b''.join(built[ct][1] for ct in s)
        trailer = rng.choice(TRAILERS)
        data = stream + trailer
        modes = ['whole', 'bytes', 'lines', 'random', 'random']
        if len(data) <= 40:
            modes.append('everycut')
        for mode in modes:
            if mode == 'everycut':
                for c in range(1, len(data)):
                    jobs.append((s, trailer, b'', [data[:c], data[c:]], mode))
            else:
                pre = rng.choice([0, 0, rng.randrange(0, len(data) + 1)])
                chunks = segmentations(data[pre:], rng, mode)
                jobs.append((s, trailer, data[:pre], chunks, mode))
    # model: chain of recv calls; we send each step separately using the impl-independent remaining stream
    for (s, trailer, buf, chunks, mode) in jobs:
        ctx.count('seg:' + mode)
        cur_buf, cur_chunks = buf, list(chunks)
        for idx, ct in enumerate(s):
            want_msg = norm(built[ct][0])
            io_out = impl_recv(cur_buf, cur_chunks)
            mo = model_recv_out(ctx.model.call('c17_recv', [cur_buf, cur_chunks]), cur_chunks)
            case = dict(code=ct[0], text=ct[1], buf=cur_buf, chunks=cur_chunks, index=idx, mode=mode)
            ctx.evaluated((ct, mode, len(cur_chunks), idx), nontrivial=('\n' in ct[1] or bool(ESC_LOOKING.match(ct[1])) or any(ord(c) > 127 for c in ct[1]) or len(s) > 1))
            if io_out[:4] != mo:
                ctx.mismatch('recv', case, io_out, mo)
            remaining_want = b''.join(built[c2][1] for c2 in s[idx + 1:]) + trailer
            ok = (io_out[0] == 0 and io_out[1] == ct[0] and io_out[2] == want_msg and io_out[3] == remaining_want)
            if ok and io_out[4] is not None and io_out[4][0] != ct[0][0]:
                ok = False
            if not ok:
                key = 'c17:roundtrip'
                if ct[0][0] == '3' and ESC_LOOKING.match(ct[1]):
                    key = 'c17:3xx-esc-looking-text'
                ctx.fail(key, case, 'sent (%r, %r) got %r, expected remaining %r' % (ct[0], want_msg, io_out, remaining_want))
                break
            # continue with what is left: everything unread goes to one buffer
            cur_buf, cur_chunks = io_out[3], []
        ctx.sample(dict(kind='roundtrip', replies=s, trailer=trailer, buf=buf, chunks=chunks), cap=3)


# independent reference for the malformed stream
REF_LINE = re.compile(br'([1-5]\d\d)([ \t-])(.*)', re.S)


def ref_parse(stream):
    pos = 0; code = None; lines = []
    while True:
        nl = stream.find(b'\n', pos)
        if nl < 0:
            return ('lost',)
        line = stream[pos:nl]
        if line.endswith(b'\r'):
            line = line[:-1]
        m = REF_LINE.fullmatch(line)
        if not m:
            return ('bad', stream[nl + 1:])
        if code is not None and m.group(1) != code:
            return ('bad', stream[pos:])
        code = m.group(1); lines.append(m.group(3)); pos = nl + 1
        if m.group(2) != b'-':
            break
    try:
        text = b'\r\n'.join(lines).decode('utf-8')
    except UnicodeDecodeError:
        return ('bad', stream[pos:])
    if not (b'1' <= code[:1] <= b'5'):
        return ('badcode',)
    return ('ok', code.decode(), text, stream[pos:])


def run_malformed(ctx, maxlen, alphabet=b'25- \r\na.'):
    cases = []
    for L in range(0, maxlen + 1):
        for tup in itertools.product(alphabet, repeat=L):
            cases.append(bytes(tup))
    outs = ctx.model.batch('c17_recv', [[c, []] for c in cases])
    for c, o in zip(cases, outs):
        io_out = impl_recv(c, [])
        mo = model_recv_out(o, [])
        nontriv = b'\n' in c
        ctx.evaluated(('mal', c), nontrivial=nontriv)
        ctx.count('malformed-outcome:%d' % io_out[0])
        if io_out[:4] != mo:
            ctx.mismatch('recv-malformed', dict(buf=c), io_out, mo)
        ref = ref_parse(c)
        exp = {'lost': 3, 'bad': 1, 'badcode': 2, 'ok': 0}[ref[0]]
        good = (io_out[0] == exp)
        if good and exp == 0:
            # Reply object text: only the raw consumption and code are judged here
            good = (io_out[1] == ref[1] and io_out[3] == ref[3])
        if good and exp == 1:
            good = (io_out[1] == ref[1])
        if not good:
            ctx.fail('c17:malformed', dict(buf=c), 'expected %r got %r' % (ref, io_out))
    ctx.sample(dict(kind='malformed-exhaustive', alphabet=alphabet.decode('latin1'), maxlen=maxlen, count=len(cases)))
    ctx.extra['exhaustive'] = True
    ctx.extra['exhaustive_bound'] = 'all byte strings over %r up to length %d as the whole input (%d strings)' % (alphabet, maxlen, len(cases))


BAD_UTF8 = [b'\xff', b'\xc0\x80', b'\xc3', b'\xe2\x82', b'\xed\xa0\x80', b'\xf4\x90\x80\x80', b'\xf8\x88\x80\x80\x80', b'\x80', b'\xe0\x80\x80', b'\xf0\x80\x80\x80']


def run_malformed_structured(ctx, n):
    rng = ctx.rng
    for i in range(n):
        kind = rng.choice(['utf8', 'codes', 'nonnumeric', 'valid-multibyte', 'code-range'])
        ctx.count('malformed-kind:' + kind)
        if kind == 'utf8':
            data = b'250-ok\r\n250 a' + rng.choice(BAD_UTF8) + b'b\r\n' + b'250 next\r\n'
            if rng.random() < 0.5:
                data = b'550 ' + rng.choice(BAD_UTF8) + b'\r\n'
        elif kind == 'codes':
            a, b = str(rng.randrange(200, 600)), str(rng.randrange(200, 600))
            data = ('%s-first\r\n%s second\r\n250 next\r\n' % (a, b)).encode()
        elif kind == 'nonnumeric':
            data = rng.choice([b'25x ok\r\n', b'2 50 ok\r\n', b'ok\r\n', b'\r\n', b'250\r\n', b'250ok\r\n', b'250_ok\r\n', b' 250 ok\r\n', b'250-a\r\n\r\n250 b\r\n', b'250-a\r\nfoo\r\n'])
        elif kind == 'valid-multibyte':
            t = ''.join(rng.choice(['é', '€', '\U0001F600', 'a', '߿', 'ࠀ', '￿', '\U00010000', '\U0010ffff', '퟿', '']) for _ in range(rng.randrange(1, 5)))
            data = b'250 ' + t.encode('utf-8') + b'\r\n'
        else:
            data = ('%03d ok\r\n' % rng.choice([0, 99, 100, 199, 600, 999, 250])).encode()
        chunks = segmentations(data, rng, rng.choice(['whole', 'bytes', 'random']))
        io_out = impl_recv(b'', chunks)
        mo = model_recv_out(ctx.model.call('c17_recv', [b'', chunks]), chunks)
        ctx.evaluated(('mal2', data, len(chunks)))
        if io_out[:4] != mo:
            ctx.mismatch('recv-malformed2', dict(chunks=chunks), io_out, mo)
        ref = ref_parse(data)
        exp = {'lost': 3, 'bad': 1, 'badcode': 2, 'ok': 0}[ref[0]]
        if io_out[0] != exp or (exp == 0 and (io_out[1] != ref[1] or io_out[3] != ref[3])):
            ctx.fail('c17:malformed', dict(chunks=chunks), 'expected %r got %r' % (ref, io_out))


def run_classes(ctx):
    """the generated Unicode class tables against the running `re` (every code point)"""
    d = re.compile(r'\d'); s = re.compile(r'\s')
    pts = list(range(0, 0x3100)) + list(range(0xFF00, 0x10000)) + list(range(0x10000, 0x1F000, 1))
    if ctx.quick:
        pts = list(range(0, 0x3100)) + list(range(0xA600, 0xAC00)) + list(range(0xFF00, 0x10000)) + list(range(0x10400, 0x12000)) + list(range(0x1D700, 0x1E960))
    md = ctx.model.batch('c17_udigit', pts)
    ms = ctx.model.batch('c17_uspace', pts)
    bad = 0
    for c, a, b in zip(pts, md, ms):
        if bool(a) != bool(d.match(chr(c))) or bool(b) != bool(s.match(chr(c))):
            bad += 1
            ctx.mismatch('unicode-class', dict(cp=c), (bool(d.match(chr(c))), bool(s.match(chr(c)))), (a, b))
    ctx.count('unicode-class-points', len(pts))
    ctx.evaluations += len(pts)


def run(ctx):
    ctx.extra['rule'] = ('structured: random sequences of 1-3 Reply(code,text) objects (codes 200..599, texts from ESC-looking/Unicode/CR/LF pieces), '
                         'wire bytes + trailer re-parsed under whole/bytewise/linewise/random/every-single-cut segmentations with part pre-loaded in recv_buffer; '
                         'malformed: every byte string over {2,5,-,SP,CR,LF,a,.} to the stated length plus structured bad-UTF-8/mixed-code/non-numeric replies; '
                         'distinct_nontrivial counts distinct (reply, segmentation) cases with multi-line, ESC-looking, non-ASCII or pipelined content and malformed inputs containing a complete line')
    run_classes(ctx)
    run_structured(ctx, 250 if ctx.quick else 4000)
    run_malformed(ctx, 5 if ctx.quick else 7)
    run_malformed_structured(ctx, 300 if ctx.quick else 5000)


def replay(ctx, case):
    c = case.get('case', case)
    def unhex(x):
        return bytes.fromhex(x['hex']) if isinstance(x, dict) else x
    buf = unhex(c.get('buf', b'')) or b''
    chunks = [unhex(x) for x in c.get('chunks', [])]
    out = impl_recv(buf, chunks)
    print('implementation:', out)
    if ctx.model:
        print('model         :', model_recv_out(ctx.model.call('c17_recv', [buf, chunks]), chunks))
    if 'code' in c:
        msg, wire, esc = impl_build(c['code'], c['text'])
        print('Reply(%r, %r).message = %r, wire = %r' % (c['code'], c['text'], msg, wire))
    return 0
