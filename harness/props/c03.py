"""C03 - settled recipients are never attempted again; one attempt in flight per message."""
from vp import qharness

ASSUMPTIONS = [
    'store and relay pools unbounded (bounded pools: known finding D10)',
    'recipients of one message are distinct addresses',
    'resend is judged only in runs whose announcements are fair (not racing an enqueue() or a pending removal) and whose relay results meet the contract; the unfair ones are counted in the evidence',
    'virtual clock, gated store: every storage call is a yield point (as on disk/redis/cloud), so backoff 0 and flush can interleave with the retry bookkeeping',
]

CFGS = [dict(max_msgs=2, flush=True, relay_policy=True), dict(max_msgs=2, flush=True, cross_codes=True), dict(max_msgs=2, flush=False, cross_codes=True, backend='cloud'), dict(max_msgs=2, flush=True, race_announce=True), dict(max_msgs=2, flush=True, case_twins=True), dict(max_msgs=3, flush=True, relay_pool=1), dict(max_msgs=3, flush=False, relay_pool=2, foreign=True),
        dict(max_msgs=2, flush=True, backend='disk'), dict(max_msgs=2, flush=False, backend='cloud'),
        dict(max_msgs=2, flush=True), dict(max_msgs=3, flush=False), dict(max_msgs=1, flush=True), dict(max_msgs=2, flush=True, foreign=True)]


def run(ctx):
    for backend in ('dict', 'shelve', 'disk', 'cloud', 'redis'):
        qharness.scripted_rounds(ctx, ('c03',), backend)
        qharness.scripted_rounds(ctx, ('c03',), backend, rcpts=(100, 0, 2, 3))
        qharness.scripted_rounds(ctx, ('c03',), backend, rcpts=(2, 0, 100, 3))
        qharness.scripted_restart(ctx, ('c03',), backend)
    ctx.extra['rule'] = ('random schedules as for C12 (per-recipient outcome histories over several rounds with 1-4 recipients, backoff 0 included, '
                         'flush, announcements through load()/wait()); oracle: attempt intervals of one id never overlap and no attempt includes a '
                         'recipient already delivered or failed for good; every run replayed on the Coq model; non-trivial = >= 2 attempts')
    qharness.explore(ctx, ('c03',), 600 if ctx.quick else 6000, 40, CFGS)


def replay(ctx, case):
    return qharness.replay_run(ctx, case)
