"""C11 - a relay reports success only for recipients the next hop accepted.

Correspondence of coq/model/RelayClient.v with
  slimta.relay.smtp.client.SmtpRelayClient / lmtpclient.LmtpRelayClient (+ StaticSmtpRelay.attempt),
  slimta.relay.pipe.{PipeRelay,MaildropRelay,DovecotLdaRelay},
  slimta.relay.http.HttpRelay, slimta.relay.smtp.mx.MxSmtpRelay
and the property oracle evaluated on what the implementation returned / raised.

The downstream is a scripted fake: for SMTP/LMTP an in-memory server socket that
answers every command with the outcome the script gives for that *stage*; for the
pipe relays real `sh -c` child processes; for HTTP a stub connection object put
in place of slimta.relay.http.get_connection; for MX a stub DNSResolver.
Time is virtual for the SMTP/LMTP clients (the name `Timeout` of the client
modules is replaced): a stalled read raises the innermost active timeout, or, if
there is none, is recorded as a hang (the attempt would block for ever)."""
from vp.core import B, U
import os, sys, socket as _socket, errno, itertools, json

import gevent
from gevent.event import AsyncResult
from gevent.hub import LoopExit

from slimta.envelope import Envelope
from slimta.smtp.reply import Reply
from slimta.relay import PermanentRelayError, TransientRelayError, RelayError
from slimta.util.deque import BlockingDeque
import slimta.smtp.client as smtp_client_mod
import slimta.relay.smtp.client as rclient_mod
import slimta.relay.smtp.lmtpclient as lclient_mod
from slimta.relay.smtp.client import SmtpRelayClient
from slimta.relay.smtp.lmtpclient import LmtpRelayClient
from slimta.relay.smtp.static import StaticSmtpRelay, StaticLmtpRelay

import logging as _logging
_logging.getLogger('slimta').addHandler(_logging.NullHandler())

ASSUMPTIONS = [
    'an address may occur several times in envelope.recipients; the result mapping is keyed by address and is read back at every position (the order of its keys is not compared: the queue only looks keys up)',
    'the same address is either encodable at every occurrence or at none',
    'replies are paired with commands in order (that is property C10); the scripted server answers command k with the outcome of its stage',
    'after a dropped connection or a stall the scripted server stays dead/silent for the rest of the connection',
    'a reply line whose code is not [1-5]dd is a BadReply (slimta.smtp.io reply_line_pattern): the outcome "bad code" is a malformed reply',
    'SMTP AUTH is explored with the single-step PLAIN mechanism only (pysasl challenge flows are outside the model)',
    'a TLS handshake (context.wrap_socket) succeeds and does not stall; handshake failures/stalls belong to C08/C14',
    'pipe relays: the delivery program exists and can be started (a Popen OSError is a configuration error, not a downstream behaviour)',
    'HTTP relay: judged with a finite relay timeout configured (timeout=None means "wait for ever" by configuration)',
]

def _fail(ctx, key, case, what):
    """at most three recorded cases per failing-input class (the shared list is capped), all counted"""
    inner = case.get('case') if isinstance(case, dict) else None
    if (isinstance(inner, dict) and any(v == 'contra' for v in (inner.get('esc') or {}).values())
            and (key.endswith('misclassified') or key.endswith('mixed-class') or key.endswith('another-recipients-reply'))):
        key = 'c11:classification-not-by-reply-code'
        what += ' [the reply text carries an enhanced status code of the other class; the reply CODE decides]'
    if (isinstance(inner, dict) and inner.get('codes')
            and (key.endswith('misclassified') or key.endswith('mixed-class') or key.endswith('another-recipients-reply'))):
        key = 'c11:classification-not-by-code-class'
        what += ' [reply codes %r: only the class of the code (4xx / 5xx) decides]' % (inner['codes'],)
    k = 'oracle-fail:' + key
    if ctx.dist.get(k, 0) < 3:
        ctx.fail(key, case, what)
    else:
        ctx.count(k)


# ----------------------------------------------------------------- outcomes / stages
R2, R3, R4, R5, R500, MALFORMED, BADCODE, DISCONNECT, STALL = range(9)
ONAMES = ['2xx', '3xx', '4xx', '5xx', '500', 'malformed', 'badcode', 'disconnect', 'stall']
REPLY_CLASS = {R2: 2, R3: 3, R4: 4, R5: 5, R500: 5}

# stage kinds (numbers shared with the model)
K_BANNER, K_EHLO, K_HELO, K_STARTTLS, K_EHLO2, K_HELO2, K_AUTH, K_QUIT, K_IDLE, K_MAIL, K_RCPT, K_DATA, K_EOD, K_RSET = range(14)
KNAMES = ['banner', 'ehlo', 'helo', 'starttls', 'ehlo2', 'helo2', 'auth', 'quit', 'idle', 'mail', 'rcpt', 'data', 'eod', 'rset']
DEFAULT = {K_BANNER: R2, K_EHLO: R2, K_HELO: R2, K_STARTTLS: R2, K_EHLO2: R2, K_HELO2: R2, K_AUTH: R2, K_QUIT: R2,
           K_IDLE: STALL, K_MAIL: R2, K_RCPT: R2, K_DATA: R3, K_EOD: R2, K_RSET: R2}
CODES = {  # wire code per (stage kind, class outcome)
    (K_BANNER, R2): '220', (K_STARTTLS, R2): '220', (K_AUTH, R2): '235', (K_QUIT, R2): '221',
}
E_PIPELINING, E_STARTTLS, E_AUTH, E_8BITMIME = range(4)


def skey(kind, m=0, i=0):
    return '%s:%d:%d' % (KNAMES[kind], m, i)


def parse_skey(s):
    k, m, i = s.split(':')
    return KNAMES.index(k), int(m), int(i)


class Hang(BaseException):
    """a read stalled outside every timeout scope: the real client would block for ever"""


class VTimeout(BaseException):
    """stand-in for gevent.Timeout in the relay client modules (virtual time)"""
    stack = []

    def __init__(self, seconds=None, exception=None):
        BaseException.__init__(self)
        self.seconds = seconds
        self.exception = exception

    def __enter__(self):
        if self.seconds is not None:
            VTimeout.stack.append(self)
        return self

    def __exit__(self, typ, val, tb):
        if self.seconds is not None and self in VTimeout.stack:
            VTimeout.stack.remove(self)
        if val is self and self.exception is False:
            return True
        return False

    @classmethod
    def expire(cls):
        """what a blocked call does in virtual time"""
        if cls.stack:
            raise cls.stack[-1]
        raise Hang()


SERVERS = {}


class FakeServer(object):
    """scripted SMTP/LMTP server end of an in-memory socket"""
    _next_fd = [1000]

    def __init__(self, case, conn_index=0):
        self.case = case
        self.lmtp = case['proto'] == 'lmtp'
        self.script = case['scripts'][conn_index] if 'scripts' in case else case['script']
        self.exts = case['exts']
        self.out = b''
        self.dead = None
        self.trace = []
        self.inbuf = b''
        self.data_mode = False
        self.idle_checks = 0
        self.n_ehlo = 0
        self.rcpt_i = 0
        self.rcpt_out = {}
        self.desync = False
        self.closed = False
        self.fault_stage = None     # first stage whose outcome is a hang-up / stall / non-reply
        self.fault_seen = False     # ... and the client has run into it
        self.on_abort = None
        self.fd = FakeServer._next_fd[0]
        FakeServer._next_fd[0] += 1
        SERVERS[self.fd] = self
        self.emit(K_BANNER)

    # -- script
    def outcome(self, kind, m=0, i=0):
        return self.script.get(skey(kind, m, i), DEFAULT[kind])

    @property
    def cur(self):
        return max(self.idle_checks - 1, 0)

    def emit(self, kind, m=0, i=0):
        self.trace.append((kind, m, i))
        self.cur_key = skey(kind, m, i)
        if self.dead:
            return None
        o = self.outcome(kind, m, i)
        if o not in REPLY_CLASS and self.fault_stage is None:
            self.fault_stage = (kind, m, i)
        if o in REPLY_CLASS:
            self.out += self.wire(kind, o)
        elif o == MALFORMED:
            self.out += b'garbage here\r\n'
        elif o == BADCODE:
            self.out += b'600 what\r\n'
        elif o == DISCONNECT:
            self.dead = 'eof'
        elif o == STALL:
            self.dead = 'stall'
        return o

    def wire(self, kind, o):
        if o == R2 and kind in (K_EHLO, K_EHLO2):
            ex = self.exts[0 if kind == K_EHLO else 1]
            names = []
            if ex[E_PIPELINING]: names.append('PIPELINING')
            if ex[E_STARTTLS]: names.append('STARTTLS')
            if ex[E_AUTH]: names.append('AUTH PLAIN')
            if ex[E_8BITMIME]: names.append('8BITMIME')
            lines = ['Hello'] + names
            return ''.join('250%s%s\r\n' % ('-' if j < len(lines) - 1 else ' ', l) for j, l in enumerate(lines)).encode()
        code = CODES.get((kind, o)) or {R2: '250', R3: '354', R4: '450', R5: '550', R500: '500'}[o]
        if o in (R4, R5, R500) and (self.case.get('codes') or {}).get(self.cur_key):
            code = str(self.case['codes'][self.cur_key])
        text = KNAMES[kind]
        ek = (self.case.get('esc') or {}).get(self.cur_key)
        if ek and code[0] in '45':
            digit = code[0] if ek == 'match' else {'4': '5', '5': '4'}[code[0]]
            text = '%s.%s %s' % (digit, {'4': '2.1', '5': '7.1'}[digit], text)
        return ('%s %s\r\n' % (code, text)).encode()

    # -- idle check (patched wait_read)
    def idle_check(self):
        m = self.idle_checks
        self.idle_checks += 1
        self.rcpt_i = 0
        if not self.dead and not self.out:
            o = self.outcome(K_IDLE, m, 0)
            if o != STALL:
                self.emit(K_IDLE, m, 0)
        return bool(self.out) or self.dead == 'eof'

    # -- socket interface
    def fileno(self):
        return self.fd

    def getpeername(self):
        return ('192.0.2.1', 25)

    def getsockname(self):
        return ('192.0.2.2', 40000)

    def close(self):
        self.closed = True

    def sendall(self, data):
        self.inbuf += bytes(data)
        while b'\n' in self.inbuf:
            line, self.inbuf = self.inbuf.split(b'\n', 1)
            self.command(line.rstrip(b'\r'))

    send = sendall

    def command(self, line):
        m = self.cur
        if self.data_mode:
            if line == b'QUIT':
                self.trace.append((K_QUIT, 0, 0))     # sent by a client that gave up; swallowed as message text
            if line == b'.':
                self.data_mode = False
                if self.lmtp:
                    for i in sorted(self.rcpt_out):
                        if self.rcpt_out[i] == R2:
                            self.emit(K_EOD, m, i)
                else:
                    self.emit(K_EOD, m, 0)
            return
        verb = line.split(b' ', 1)[0].upper()
        if verb in (b'EHLO', b'LHLO'):
            self.n_ehlo += 1
            self.emit(K_EHLO if self.n_ehlo == 1 else K_EHLO2)
        elif verb == b'HELO':
            self.emit(K_HELO if self.n_ehlo == 1 else K_HELO2)
        elif verb == b'STARTTLS':
            self.emit(K_STARTTLS)
        elif verb == b'AUTH':
            self.emit(K_AUTH)
        elif verb == b'MAIL':
            self.rcpt_i = 0
            self.rcpt_out = {}
            self.emit(K_MAIL, m)
        elif verb == b'RCPT':
            i = self.rcpt_i
            self.rcpt_i += 1
            self.rcpt_out[i] = self.emit(K_RCPT, m, i)
        elif verb == b'DATA':
            o = self.emit(K_DATA, m)
            if o in (R2, R3):
                self.data_mode = True
        elif verb == b'RSET':
            self.emit(K_RSET, m)
        elif verb == b'QUIT':
            self.emit(K_QUIT)
        else:
            self.trace.append(('unknown', line.decode('latin1')))
            self.desync = True

    def _hit(self):
        """the client is about to see the first hang-up / stall / malformed line of this connection"""
        if self.fault_stage is not None and not self.fault_seen:
            self.fault_seen = True
            if self.on_abort:
                self.on_abort(self)

    def recv(self, n=4096):
        # everything queued is handed over at once, so a queued non-reply line is in this chunk;
        # EOF / silence is met when nothing is queued any more
        if self.fault_stage is not None and (self.dead is None or not self.out):
            self._hit()
        if self.out:
            data, self.out = self.out[:n], self.out[n:]
            return data
        if self.dead == 'eof':
            return b''
        if self.dead != 'stall':
            self.desync = True      # the client waits for a reply nobody owes
        VTimeout.expire()


class FakeContext(object):
    def wrap_socket(self, sock, server_hostname=None):
        return sock

    def session_stats(self):
        return {}


def fake_wait_read(fd, timeout=None, timeout_exc=None):
    srv = SERVERS.get(fd)
    if srv is not None and srv.idle_check():
        return
    raise timeout_exc


class Patches(object):
    """module-namespace patches (no hooks in /repo)"""

    def __enter__(self):
        self.saved = [(rclient_mod, 'Timeout', rclient_mod.Timeout), (lclient_mod, 'Timeout', lclient_mod.Timeout),
                      (smtp_client_mod, 'wait_read', smtp_client_mod.wait_read)]
        rclient_mod.Timeout = VTimeout
        lclient_mod.Timeout = VTimeout
        smtp_client_mod.wait_read = fake_wait_read
        return self

    def __exit__(self, *a):
        for mod, name, val in self.saved:
            setattr(mod, name, val)
        SERVERS.clear()
        del VTimeout.stack[:]


# ----------------------------------------------------------------- envelopes / results
def addrs_of(msg):
    """address id per position of envelope.recipients (default: all different)"""
    return list(msg.get('addrs') or range(len(msg['rcpt_ok'])))


def make_envelope(case, m):
    msg = case['msgs'][m]
    sender = ('s%d@example.com' % m) if msg.get('sender_ok', True) else ('sé%d@example.com' % m)
    rcpts = []
    for a, ok in zip(addrs_of(msg), msg['rcpt_ok']):
        rcpts.append(('r%d_%d@example.com' % (m, a)) if ok else ('ré%d_%d@example.com' % (m, a)))
    env = Envelope(sender, rcpts)
    body = b'test \x81 test\r\n' if msg.get('eightbit') else b'test test\r\n'
    env.parse(b'From: s@example.com\r\n\r\n' + body)
    return env


def classify_value(v):
    if v is None:
        return 'ok'
    if isinstance(v, Reply):
        return 'ok'
    if isinstance(v, PermanentRelayError):
        return 'perm'
    if isinstance(v, TransientRelayError):
        return 'trans'
    return 'other:' + type(v).__name__


def classify_exc(e):
    if isinstance(e, PermanentRelayError) and not isinstance(e, TransientRelayError):
        return 'perm'
    if isinstance(e, TransientRelayError) and not isinstance(e, PermanentRelayError):
        return 'trans'
    return 'other:' + type(e).__name__


def canon_result(result, env, queue=None):
    """AsyncResult of one request -> canonical message result"""
    if not result.ready():
        if queue is not None and any(r is result for r, _ in list(queue)):
            return ('queued',)
        return ('none',)
    if result.exception is not None:
        return ('exc', classify_exc(result.exception))
    v = result.value
    if isinstance(v, dict):
        return ('map', tuple(classify_value(v.get(r, KeyError())) for r in env.recipients))
    return ('all', classify_value(v))


def per_rcpt(res, n):
    """canonical message result -> per recipient final result"""
    if res[0] == 'map':
        return list(res[1])
    if res[0] == 'exc':
        return [res[1]] * n
    if res[0] == 'all':
        return [res[1]] * n
    return [res[0]] * n       # queued / none


# ----------------------------------------------------------------- SMTP / LMTP implementation runs
def client_kwargs(case, sockets, on_abort=None):
    cfg = case['cfg']

    def creator(address):
        c = case.get('conn', 'ok')
        idx = len(sockets)
        if isinstance(c, list):
            c = c[idx] if idx < len(c) else 'ok'
        if c == 'refused':
            sockets.append(None)
            raise _socket.error(errno.ECONNREFUSED, 'Connection refused')
        if c == 'timeout':
            sockets.append(None)
            VTimeout.expire()
        srv = FakeServer(case, idx if 'scripts' in case else 0)
        srv.on_abort = on_abort
        sockets.append(srv)
        return srv
    kw = dict(socket_creator=creator, ehlo_as='there', context=FakeContext(),
              tls_immediately=bool(cfg.get('tls_immediately')), tls_required=bool(cfg.get('tls_required')),
              connect_timeout=1.0, command_timeout=1.0, data_timeout=1.0,
              idle_timeout=(0.0 if cfg.get('reuse') else None))
    if cfg.get('creds'):
        kw['credentials'] = ('user', 'pass')
        kw['auth_mechanism'] = b'PLAIN'
    return kw


def run_client(case):
    """drive SmtpRelayClient/LmtpRelayClient._run directly with a preloaded queue, like the pool does"""
    envs = [make_envelope(case, m) for m in range(len(case['msgs']))]
    results = [AsyncResult() for _ in envs]
    queue = BlockingDeque()
    for r, e in zip(results, envs):
        queue.append((r, e))
    sockets = []
    cls = LmtpRelayClient if case['proto'] == 'lmtp' else SmtpRelayClient
    raised = None
    abort = []

    def on_abort(srv):
        abort.append(dict(stage=srv.fault_stage, cur=srv.cur, ready=[r.ready() for r in results]))
    with Patches():
        client = cls(('192.0.2.1', 25), queue, **client_kwargs(case, sockets, on_abort))
        try:
            client._run()
        except Hang:
            raised = 'hang'
        except VTimeout:
            raised = 'timeout-escaped'
        except BaseException as e:      # noqa
            raised = type(e).__name__
        srv = sockets[0] if sockets else None
        out = dict(results=[canon_result(r, e, queue) for r, e in zip(results, envs)],
                   trace=[t for t in (srv.trace if srv else [])],
                   raised=raised, desync=bool(srv and srv.desync), abort=(abort[0] if abort else None))
    return out


def run_static(case):
    """the same through StaticSmtpRelay.attempt (real pool, real client greenlets); one message"""
    env = make_envelope(case, 0)
    sockets = []
    rcls = StaticLmtpRelay if case['proto'] == 'lmtp' else StaticSmtpRelay
    hub = gevent.get_hub()
    saved = hub.exception_stream
    with Patches():
        kw = client_kwargs(case, sockets)
        ctxt = kw.pop('context')
        relay = rcls('192.0.2.1', 25, context=ctxt, **kw)
        try:
            hub.exception_stream = None
            try:
                v = relay.attempt(env, 0)
                if isinstance(v, dict):
                    res = ('map', tuple(classify_value(v.get(r, KeyError())) for r in env.recipients))
                else:
                    res = ('all', classify_value(v))
            except LoopExit:
                res = ('none',)
            except Hang:
                res = ('none',)
            except Exception as e:
                res = ('exc', classify_exc(e))
        finally:
            hub.exception_stream = saved
            relay.kill()
        return dict(results=[res], connections=len(sockets))


# ----------------------------------------------------------------- model side (SMTP / LMTP)
CONN = {'ok': 0, 'refused': 1, 'timeout': 2}


def model_input(case, conn_index=0):
    cfg = case['cfg']
    script = case['scripts'][conn_index] if 'scripts' in case else case['script']
    conn = case.get('conn', 'ok')
    if isinstance(conn, list):
        conn = conn[conn_index] if conn_index < len(conn) else 'ok'
    entries = []
    for k in sorted(script):
        kind, m, i = parse_skey(k)
        code = (case.get('codes') or {}).get(k)
        entries.append([kind, m, i, code if (code and script[k] in (R4, R5, R500)) else script[k]])
    return [1 if case['proto'] == 'lmtp' else 0,
            [int(bool(cfg.get(x))) for x in ('tls_immediately', 'tls_required', 'creds', 'reuse')],
            CONN[conn], [list(map(int, case['exts'][0])), list(map(int, case['exts'][1]))],
            [[int(bool(msg.get('sender_ok', True))), [[a, int(bool(x))] for a, x in zip(addrs_of(msg), msg['rcpt_ok'])], int(bool(msg.get('eightbit')))]
             for msg in case['msgs']],
            entries, esc_entries(case, script)]


def esc_entries(case, script):
    """the class digit of the enhanced status code the reply text starts with, per stage"""
    out = []
    for k in sorted(case.get('esc') or {}):
        kind, m, i = parse_skey(k)
        o = script.get(k, DEFAULT[kind])
        if o in (R4, R5, R500):
            d = 4 if o == R4 else 5
            out.append([kind, m, i, d if case['esc'][k] == 'match' else 9 - d])
    return out


CLS = {0: 'ok', 1: 'perm', 2: 'trans', 3: 'other:KeyError'}


def decode_mres(o):
    tag = o[0]
    if tag == 0:
        return ('map', tuple(CLS[x] for x in o[1]))
    if tag == 1:
        return ('exc', CLS[o[1]])
    if tag == 2:
        return ('exc', 'other')
    if tag == 3:
        return ('queued',)
    if tag == 4:
        return ('all', 'ok')
    raise ValueError(o)


def decode_model_smtp(o):
    return dict(results=[decode_mres(r) for r in o[0]], trace=[tuple(t) for t in o[1]])


def strip_other(res):
    """the model does not name the foreign exception type"""
    if res[0] == 'exc' and res[1].startswith('other'):
        return ('exc', 'other')
    return res


# ----------------------------------------------------------------- property oracle (SMTP / LMTP)
ABORTING = (MALFORMED, BADCODE, DISCONNECT, STALL)


def oracle_smtp(ctx, case, impl):
    """the statement of C11 evaluated on what the implementation reported, from the script alone"""
    script = case['script']
    lmtp = case['proto'] == 'lmtp'

    def out(kind, m=0, i=0):
        return script.get(skey(kind, m, i), DEFAULT[kind])
    # a hang-up, a stall or a line that is no reply is a transient failure for the request being
    # worked on, whatever error replies were seen earlier on the connection
    ab = impl.get('abort')
    if ab and ab['stage'][0] not in (K_IDLE, K_QUIT) and ab['cur'] < len(case['msgs']) and not ab['ready'][ab['cur']]:
        m0 = ab['cur']
        f0 = per_rcpt(impl['results'][m0], len(case['msgs'][m0]['rcpt_ok']))
        if any(f != 'trans' for f in f0):
            st = ab['stage']
            _fail(ctx, 'c11:hangup-not-transient', dict(kind='smtp', case=case),
                  'the connection broke (%s) at %s while request %d had no result yet; it is reported %r, expected transient for every recipient' % (
                      ONAMES[script.get(skey(*st), DEFAULT[st[0]])], skey(*st), m0, f0))
            return
    for m, msg in enumerate(case['msgs']):
        res = impl['results'][m]
        n = len(msg['rcpt_ok'])
        addrs = addrs_of(msg)
        dups = len(set(addrs)) < n
        finals = per_rcpt(res, n)
        has_badcode = any(v == BADCODE for v in script.values())
        bad_addr = not msg.get('sender_ok', True) or not all(msg['rcpt_ok'])
        for i, f in enumerate(finals):
            key = None; what = None
            if f == 'ok':
                # success only if the downstream accepted this recipient (every RCPT given for its
                # address; for LMTP the occurrence whose data reply counts) and the message
                ro = out(K_RCPT, m, i)
                eo = out(K_EOD, m, i if lmtp else 0)
                own = [j for j in range(n) if addrs[j] == addrs[i]]
                if len(own) > 1:
                    if lmtp:
                        acc = [j for j in own if out(K_RCPT, m, j) == R2]
                        if acc:
                            ro, eo = R2, out(K_EOD, m, acc[-1])
                        else:
                            ro = next((out(K_RCPT, m, j) for j in own if out(K_RCPT, m, j) != R3), R3)
                    else:
                        ro = next((out(K_RCPT, m, j) for j in own if out(K_RCPT, m, j) != R2), R2)
                if ro != R2 or eo != R2 or out(K_MAIL, m) not in (R2, R3) or out(K_DATA, m) not in (R2, R3):
                    if (lmtp and ro == R3) or (R3 in (ro, eo) and ro in (R2, R3) and eo in (R2, R3)):
                        key = 'c11:3xx-at-rcpt-or-eod-counted-as-accepted'
                    else:
                        key = 'c11:smtp-success-not-accepted'
                    what = 'recipient %d of message %d reported delivered, RCPT outcome %s, end-of-data outcome %s' % (i, m, ONAMES[ro], ONAMES[eo])
            elif f == 'none':
                key = 'c11:smtp-no-result'
                if script.get(skey(K_EOD, m, i if lmtp else 0)) == STALL or any(
                        script.get(skey(K_EOD, m, j)) == STALL for j in range(n)):
                    key = 'c11:stall-at-end-of-data-pipelined'
                what = 'the attempt for message %d never completes (result never set): %r' % (m, impl.get('raised'))
            elif f.startswith('other'):
                key = 'c11:smtp-foreign-exception'
                what = 'message %d ends with %s instead of a relay error%s' % (
                    m, f, ' (address that cannot be encoded for this server)' if bad_addr else
                    ' (reply code outside [1-5]dd)' if has_badcode else '')
            elif f in ('perm', 'trans'):
                # classification of a rejected recipient when everything else went well
                ro = out(K_RCPT, m, i)
                clean = (all(v in (R2, R3, R4, R5, R500) for v in script.values()) and case.get('conn', 'ok') == 'ok'
                         and all(parse_skey(k)[0] in (K_RCPT,) and parse_skey(k)[1] == m for k in script) and not msg.get('eightbit'))
                if clean and ro in (R4, R5, R500) and not dups:
                    want = 'perm' if ro in (R5, R500) else 'trans'
                    if f != want:
                        key = 'c11:all-rcpt-rejected-mixed-class' if all(
                            out(K_RCPT, m, j) in (R4, R5, R500) for j in range(n)) else 'c11:smtp-misclassified'
                        what = 'recipient %d of message %d was rejected with %s but is reported %s' % (i, m, ONAMES[ro], f)
            if key:
                _fail(ctx, key, dict(kind='smtp', case=case), what)
                return
        # the report for an address is determined by the replies to ITS OWN occurrences in
        # envelope.recipients (and the message reply), never by a reply given to another address
        if (res[0] == 'map' and case.get('conn', 'ok') == 'ok' and not msg.get('eightbit') and not bad_addr
                and all(v in REPLY_CLASS for v in script.values())
                and all(parse_skey(k)[0] in (K_RCPT, K_EOD) and parse_skey(k)[1] == m for k in script)):
            for i in range(n):
                own = [j for j in range(n) if addrs[j] == addrs[i]]
                rej = [j for j in own if out(K_RCPT, m, j) in (R4, R5, R500)]
                acc = [j for j in own if out(K_RCPT, m, j) == R2]
                cls_of = lambda o: 'perm' if o in (R5, R500) else 'trans'
                if lmtp and acc:
                    eo = out(K_EOD, m, acc[-1])
                    want = cls_of(eo) if eo in (R4, R5, R500) else 'ok'
                    why = 'data reply %s to its last accepted RCPT (position %d)' % (ONAMES[eo], acc[-1])
                elif rej:
                    want = cls_of(out(K_RCPT, m, rej[-1]))
                    why = 'RCPT reply %s at position %d' % (ONAMES[out(K_RCPT, m, rej[-1])], rej[-1])
                else:
                    want = 'ok'
                    why = 'no RCPT for this address was rejected'
                if finals[i] != want:
                    _fail(ctx, 'c11:result-from-another-recipients-reply' if dups else 'c11:smtp-misclassified',
                          dict(kind='smtp', case=case),
                          'message %d, recipients (address ids) %r: address %d at position %d is reported %s; its own replies say %s (%s)' % (
                              m, addrs, addrs[i], i, finals[i], want, why))
                    return
        # single-fault classification: exactly one deviating stage, on the path of this message
        if len(script) == 1 and case.get('conn', 'ok') == 'ok' and not msg.get('eightbit') and not bad_addr and res[0] != 'queued':
            (k, o), = script.items()
            kind, sm, si = parse_skey(k)
            decisive = (kind in (K_BANNER, K_MAIL, K_DATA) or (kind == K_EHLO and o != R500) or (kind == K_EOD and not lmtp)
                        or (kind == K_AUTH and case['cfg'].get('creds') and case['exts'][0][E_AUTH] and not case['exts'][0][E_STARTTLS])
                        or (kind == K_STARTTLS and case['cfg'].get('tls_required') and o in (R4, R5, R500)))
            if decisive and (kind in (K_BANNER, K_EHLO, K_AUTH, K_STARTTLS) or sm == m) and m == 0:
                want = None
                if o in (R5, R500):
                    want = 'perm'
                elif o in (R4, MALFORMED, BADCODE, DISCONNECT, STALL):
                    want = 'trans'
                if want and any(f != want for f in finals):
                    _fail(ctx, 'c11:smtp-misclassified', dict(kind='smtp', case=case),
                             'single fault %s=%s: expected every recipient %s, got %r' % (k, ONAMES[o], want, finals))
                    return
        # an address that cannot be encoded for this server: permanent for the message (d29)
        if bad_addr and not script and case.get('conn', 'ok') == 'ok' and not msg.get('eightbit') and m == 0:
            if any(f != 'perm' for f in finals):
                _fail(ctx, 'c11:unencodable-address-not-permanent', dict(kind='smtp', case=case),
                      'sender/recipient cannot be encoded for the next hop: expected every recipient perm, got %r' % (finals,))
                return
    if case.get('conn', 'ok') in ('refused', 'timeout'):
        f = per_rcpt(impl['results'][0], len(case['msgs'][0]['rcpt_ok']))
        if any(x != 'trans' for x in f):
            _fail(ctx, 'c11:smtp-misclassified', dict(kind='smtp', case=case), 'connect %s reported as %r' % (case['conn'], f))


def compare_smtp(ctx, case, impl, mod):
    ires = [strip_other(r) for r in impl['results']]
    itrace = [tuple(t) for t in impl['trace']]
    if ires != mod['results'] or itrace != mod['trace']:
        ctx.mismatch('smtp', case, dict(results=impl['results'], trace=itrace, raised=impl['raised']),
                     dict(results=mod['results'], trace=mod['trace']))
        return False
    return True


# ----------------------------------------------------------------- SMTP / LMTP case generators
ALL_OUT = [R2, R3, R4, R5, R500, MALFORMED, BADCODE, DISCONNECT, STALL]


def base_case(proto, pipelining, rcpts, nmsg=1, reuse=False, **cfg):
    """rcpts: list (per message) of recipient counts"""
    ex1 = [int(pipelining), int(cfg.pop('adv_starttls', 0)), int(cfg.pop('adv_auth', 0)), int(cfg.pop('adv_8bit', 1))]
    ex2 = cfg.pop('exts2', None) or list(ex1)
    cfg['reuse'] = bool(reuse)
    return dict(proto=proto, cfg=cfg, conn='ok', exts=[ex1, ex2],
                msgs=[dict(rcpt_ok=[True] * n, sender_ok=True, eightbit=False) for n in rcpts], script={})


def with_script(case, script):
    c = dict(case)
    c['script'] = dict(script)
    return c


def rcpt_vectors(m, n, alphabet=(R2, R4, R5)):
    for vec in itertools.product(alphabet, repeat=n):
        yield {skey(K_RCPT, m, i): o for i, o in enumerate(vec) if o != R2}


def message_faults(m, n, lmtp):
    """single faults on the path of message m (not RCPT)"""
    stages = [(K_MAIL, m, 0), (K_DATA, m, 0), (K_RSET, m, 0)]
    stages += [(K_EOD, m, i) for i in range(n)] if lmtp else [(K_EOD, m, 0)]
    for (k, mm, i) in stages:
        for o in ALL_OUT:
            if o != DEFAULT[k]:
                yield {skey(k, mm, i): o}


def gen_smtp_cases(quick):
    for proto in ('smtp', 'lmtp'):
        lmtp = proto == 'lmtp'
        for pl in (0, 1):
            # A. one message: every RCPT vector x (no fault | one fault at a non-RCPT stage)
            for n in (1, 2, 3):
                b = base_case(proto, pl, [n])
                conn_faults = [{}] + [{skey(k): o} for k in (K_BANNER, K_EHLO, K_QUIT) for o in ALL_OUT if o != DEFAULT[k]]
                faults = conn_faults + list(message_faults(0, n, lmtp))
                for rv in rcpt_vectors(0, n):
                    for f in faults:
                        if quick and n == 3 and f and parse_skey(list(f)[0])[0] in (K_BANNER, K_EHLO, K_QUIT):
                            continue
                        s = dict(rv); s.update(f)
                        yield 'A', with_script(b, s)
                # special outcomes at one RCPT, the others 2xx / 5xx
                for i in range(n):
                    for o in (R3, R500, MALFORMED, BADCODE, DISCONNECT, STALL):
                        for rest in itertools.product((R2, R5), repeat=n - 1):
                            s = {skey(K_RCPT, 0, i): o}
                            js = [j for j in range(n) if j != i]
                            for j, ro in zip(js, rest):
                                if ro != R2:
                                    s[skey(K_RCPT, 0, j)] = ro
                            yield 'A-rcpt', with_script(b, s)
                            if o == R3:
                                s2 = dict(s); s2[skey(K_EOD, 0, i if lmtp else 0)] = R5
                                yield 'A-rcpt', with_script(b, s2)
                # LMTP: every end-of-data vector; SMTP: two faults MAIL x DATA / DATA x EOD
                if lmtp:
                    for vec in itertools.product((R2, R3, R4, R5), repeat=n):
                        s = {skey(K_EOD, 0, i): o for i, o in enumerate(vec) if o != R2}
                        yield 'A-eod', with_script(b, s)
                        s2 = dict(s); s2[skey(K_RCPT, 0, 0)] = R5
                        yield 'A-eod', with_script(b, s2)
                for o1 in ALL_OUT:
                    for o2 in ALL_OUT:
                        yield 'A-2', with_script(b, {skey(K_MAIL, 0): o1, skey(K_DATA, 0): o2})
                        yield 'A-2', with_script(b, {skey(K_DATA, 0): o1, skey(K_EOD, 0, 0): o2})
                        if n >= 2:
                            yield 'A-2', with_script(b, {skey(K_RCPT, 0, 0): R5, skey(K_RCPT, 0, 1): o1, skey(K_DATA, 0): o2})
            # helo fallback
            b = base_case(proto, pl, [1])
            for o in ALL_OUT:
                yield 'helo', with_script(b, {skey(K_EHLO): R500, skey(K_HELO): o})
            # B. handshake variants
            for adv in (0, 1):
                for req in (0, 1):
                    for pl2 in (0, 1):
                        b = base_case(proto, pl, [2], adv_starttls=adv, tls_required=req,
                                      exts2=[pl2, 0, 0, 1])
                        for o in ALL_OUT:
                            yield 'tls', with_script(b, {skey(K_STARTTLS): o})
                            yield 'tls', with_script(b, {skey(K_EHLO2): o})
                            yield 'tls', with_script(b, {skey(K_EHLO2): R500, skey(K_HELO2): o})
                            yield 'tls', with_script(b, {skey(K_EHLO2): o, skey(K_RCPT, 0, 1): R5})
            for adv_auth in (0, 1):
                b = base_case(proto, pl, [1], adv_auth=adv_auth, creds=True)
                for o in ALL_OUT:
                    yield 'auth', with_script(b, {skey(K_AUTH): o})
                yield 'auth', with_script(b, {skey(K_EHLO): R500})
                b2 = base_case(proto, pl, [1], adv_auth=adv_auth, adv_starttls=1, creds=True, exts2=[pl, 0, 1 - adv_auth, 1])
                for o in (R2, R4, R5):
                    yield 'auth', with_script(b2, {skey(K_AUTH): o})
            b = base_case(proto, pl, [1], tls_immediately=True, adv_starttls=1)
            for k in (K_BANNER, K_EHLO, K_MAIL):
                for o in ALL_OUT:
                    yield 'tls-immediately', with_script(b, {skey(k): o})
            # D. connect
            for c in ('refused', 'timeout'):
                b = base_case(proto, pl, [2]); b['conn'] = c
                yield 'connect', b
            # E. conversion / addresses
            for adv8 in (0, 1):
                for eb in (0, 1):
                    b = base_case(proto, pl, [2], adv_8bit=adv8)
                    b['msgs'][0]['eightbit'] = bool(eb)
                    yield 'conv', b
                    yield 'conv', with_script(b, {skey(K_RSET, 0): DISCONNECT})
            for who in ('sender', 0, 1):
                b = base_case(proto, pl, [2])
                if who == 'sender':
                    b['msgs'][0]['sender_ok'] = False
                else:
                    b['msgs'][0]['rcpt_ok'][who] = False
                yield 'addr', b
            # C. two requests on one connection
            for n0, n1 in ((1, 1), (2, 1), (1, 2)):
                b = base_case(proto, pl, [n0, n1], reuse=True)
                first = [{}] + list(message_faults(0, n0, lmtp)) + [rv for rv in rcpt_vectors(0, n0) if rv]
                second = [{}] + [{skey(K_IDLE, 1): o} for o in ALL_OUT if o != STALL] + \
                         list(message_faults(1, n1, lmtp)) + [rv for rv in rcpt_vectors(1, n1) if rv]
                for f0 in first:
                    for f1 in (second if (not f0 or not quick) else second[:10]):
                        s = dict(f0); s.update(f1)
                        yield 'reuse', with_script(b, s)
                for o in ALL_OUT:
                    if o != STALL:
                        yield 'reuse', with_script(b, {skey(K_IDLE, 0): o})
            # every concrete reply code the RFCs use in each class (+ two arbitrary ones), at every stage
            rng_codes = [421, 450, 451, 452, 454, 455, 500, 501, 502, 503, 504, 521, 530, 535, 550, 551, 552, 553, 554, 555, 556,
                         400 + (17 * (pl + 2 * lmtp + 1)) % 100, 500 + (29 * (pl + 2 * lmtp + 1) + 7) % 100]
            for code in rng_codes:
                o = R500 if code == 500 else (R4 if code < 500 else R5)
                for n in (1, 2):
                    b = base_case(proto, pl, [n])
                    stages = [(K_BANNER, 0, 0), (K_EHLO, 0, 0), (K_MAIL, 0, 0), (K_DATA, 0, 0)]
                    stages += [(K_RCPT, 0, i) for i in range(n)]
                    stages += [(K_EOD, 0, i) for i in range(n)] if lmtp else [(K_EOD, 0, 0)]
                    for st in stages:
                        c = with_script(b, {skey(*st): o}); c['codes'] = {skey(*st): code}
                        yield 'codes', c
                    if n == 2:
                        for other in (450, 452, 550, 552):
                            o2 = R4 if other < 500 else R5
                            c = with_script(b, {skey(K_RCPT, 0, 0): o, skey(K_RCPT, 0, 1): o2})
                            c['codes'] = {skey(K_RCPT, 0, 0): code, skey(K_RCPT, 0, 1): other}
                            yield 'codes', c
                b = base_case(proto, pl, [1], adv_auth=1, creds=True)
                c = with_script(b, {skey(K_AUTH): o}); c['codes'] = {skey(K_AUTH): code}
                yield 'codes', c
                b = base_case(proto, pl, [1], adv_starttls=1, tls_required=True)
                c = with_script(b, {skey(K_STARTTLS): o}); c['codes'] = {skey(K_STARTTLS): code}
                yield 'codes', c
                b = base_case(proto, pl, [1])
                c = with_script(b, {skey(K_EHLO): R500, skey(K_HELO): o}); c['codes'] = {skey(K_HELO): code}
                yield 'codes', c
            # reply texts that start with an enhanced status code: matching the code, or of the other class
            for ek in ('match', 'contra'):
                for o in (R4, R5):
                    for n in (1, 2):
                        b = base_case(proto, pl, [n])
                        stages = [(K_BANNER, 0, 0), (K_EHLO, 0, 0), (K_MAIL, 0, 0), (K_DATA, 0, 0)]
                        stages += [(K_RCPT, 0, i) for i in range(n)]
                        stages += [(K_EOD, 0, i) for i in range(n)] if lmtp else [(K_EOD, 0, 0)]
                        for st in stages:
                            c = with_script(b, {skey(*st): o})
                            c['esc'] = {skey(*st): ek}
                            yield 'esc', c
                        if n == 2:
                            c = with_script(b, {skey(K_RCPT, 0, 0): o, skey(K_RCPT, 0, 1): (R4 if o == R5 else R5)})
                            c['esc'] = {skey(K_RCPT, 0, 0): ek, skey(K_RCPT, 0, 1): ek}
                            yield 'esc', c
                    b = base_case(proto, pl, [1], adv_auth=1, creds=True)
                    c = with_script(b, {skey(K_AUTH): o}); c['esc'] = {skey(K_AUTH): ek}
                    yield 'esc', c
                    b = base_case(proto, pl, [1], adv_starttls=1, tls_required=True)
                    c = with_script(b, {skey(K_STARTTLS): o}); c['esc'] = {skey(K_STARTTLS): ek}
                    yield 'esc', c
            # the same address several times in envelope.recipients
            for pat in ([0, 0, 1], [0, 1, 0], [1, 0, 0], [0, 0, 0], [0, 1, 1], [0, 1, 0, 1], [0, 0, 1, 1], [0, 1, 1, 0]):
                n = len(pat)
                b = base_case(proto, pl, [n])
                b['msgs'][0]['addrs'] = list(pat)
                for rv in rcpt_vectors(0, n):
                    yield 'dup', with_script(b, rv)
                    if lmtp and (n == 3 or not quick):
                        accepted = [i for i in range(n) if skey(K_RCPT, 0, i) not in rv]
                        if n == 3:
                            evs = itertools.product((R2, R4, R5), repeat=len(accepted))
                        else:
                            evs = [tuple(R5 if j == q else R2 for j in range(len(accepted))) for q in range(len(accepted))]
                        for ev in evs:
                            s2 = dict(rv)
                            s2.update({skey(K_EOD, 0, i): o for i, o in zip(accepted, ev) if o != R2})
                            if s2 != rv:
                                yield 'dup', with_script(b, s2)
                    elif not lmtp:
                        yield 'dup', with_script(b, dict(rv, **{skey(K_EOD, 0, 0): R5}))
                for i in range(n):
                    yield 'dup', with_script(b, {skey(K_RCPT, 0, i): R3})
                    yield 'dup', with_script(b, {skey(K_RCPT, 0, i): DISCONNECT})
            b = base_case(proto, pl, [2, 3], reuse=True)
            b['msgs'][1]['addrs'] = [0, 0, 1]
            for rv in rcpt_vectors(1, 3):
                yield 'dup', with_script(b, dict(rv, **{skey(K_RCPT, 0, 0): R5}))
            # hang-up after error replies earlier in the session
            for o in (MALFORMED, BADCODE, DISCONNECT, STALL):
                hang1 = [(K_MAIL, 0), (K_RCPT, 1), (K_DATA, 0), (K_EOD, 1 if lmtp else 0), (K_RSET, 0)]
                for (hk, hi) in hang1:
                    for hist in ({}, {skey(K_EHLO): R500}, {skey(K_RCPT, 0, 0): R5}, {skey(K_RCPT, 0, 0): R4},
                                 {skey(K_EHLO): R500, skey(K_RCPT, 0, 0): R5}):
                        b = base_case(proto, pl, [2])
                        sc0 = dict(hist); sc0[skey(hk, 0, hi)] = o
                        yield 'hangup-history', with_script(b, sc0)
                b = base_case(proto, pl, [2, 2], reuse=True)
                for prev in ({skey(K_MAIL, 0): R5}, {skey(K_RCPT, 0, 0): R5, skey(K_RCPT, 0, 1): R5}, {skey(K_RCPT, 0, 0): R5},
                             {skey(K_DATA, 0): R5}, {skey(K_EOD, 0, 0): R5}, {skey(K_EOD, 0, 1): R5}):
                    for (hk, hi) in [(K_MAIL, 0), (K_RCPT, 0), (K_RCPT, 1), (K_DATA, 0), (K_EOD, 0), (K_EOD, 1)]:
                        for extra in ({}, {skey(K_RCPT, 1, 0): R5}):
                            sc0 = dict(prev); sc0.update(extra); sc0[skey(hk, 1, hi)] = o
                            yield 'hangup-history', with_script(b, sc0)
            # no reuse configured: the second request stays queued
            b = base_case(proto, pl, [1, 1], reuse=False)
            yield 'noreuse', b


def nontrivial_smtp(case):
    return bool(case['script']) or len(case['msgs'][0]['rcpt_ok']) > 1 or case.get('conn') != 'ok'


def run_smtp(ctx):
    cases = []
    seen = set()
    for label, c in gen_smtp_cases(ctx.quick):
        key = json.dumps(c, sort_keys=True)
        if key in seen:
            continue
        seen.add(key)
        cases.append((label, c))
    outs = ctx.model.batch('c11_smtp', [model_input(c) for _, c in cases])
    for (label, c), o in zip(cases, outs):
        mod = decode_model_smtp(o)
        impl = run_client(c)
        ctx.evaluated(('smtp', json.dumps(c, sort_keys=True)), nontrivial=nontrivial_smtp(c))
        ctx.count('smtp:' + label)
        for r in impl['results']:
            ctx.count('smtp-result:' + (r[0] if r[0] != 'exc' else 'exc-' + r[1].split(':')[0]))
        compare_smtp(ctx, c, impl, mod)
        oracle_smtp(ctx, c, impl)
        if impl['desync'] and all(v in REPLY_CLASS for v in c['script'].values()) and all(
                c['msgs'][m].get('sender_ok', True) and all(c['msgs'][m]['rcpt_ok']) for m in range(len(c['msgs']))):
            ctx.count('smtp-desync-without-fault')
            ctx.note('the client waited for a reply the scripted server did not owe although every reply was well-formed (first: %s %s)' % (c['proto'], json.dumps(c['script'])))
    ctx.sample(dict(kind='smtp', case=cases[len(cases) // 3][1]))
    ctx.sample(dict(kind='smtp', case=cases[2 * len(cases) // 3][1]))
    return cases


def run_static_subset(ctx, cases):
    """through StaticSmtpRelay/StaticLmtpRelay.attempt: real pool, client greenlets, AsyncResult"""
    singles = [c for _, c in cases if len(c['msgs']) == 1]
    rng = ctx.rng
    pick = rng.sample(singles, min(len(singles), 250 if ctx.quick else 1500))
    # a request put back on the queue by the first connection is served by the second
    for proto in ('smtp', 'lmtp'):
        for o in (R4, R2, MALFORMED, DISCONNECT):
            for s2 in ({}, {skey(K_RCPT, 0, 0): R5}, {skey(K_EOD, 0, 0): R4}):
                c = base_case(proto, 1, [2])
                del c['script']
                c['scripts'] = [{skey(K_IDLE, 0): o}, dict(s2)]
                pick.append(c)
    outs = ctx.model.batch('c11_smtp', [model_input(c, 0) for c in pick])
    for c, o in zip(pick, outs):
        mod = decode_model_smtp(o)['results'][0]
        nconn = 1
        if mod == ('queued',) and 'scripts' in c:
            mod = decode_model_smtp(ctx.model.call('c11_smtp', model_input(c, 1)))['results'][0]
            nconn = 2
        impl = run_static(c)
        ires = strip_other(impl['results'][0])
        ctx.evaluated(('static', json.dumps(c, sort_keys=True)))
        ctx.count('static-attempt')
        if ires[0] == 'all':
            ires = ('map', (ires[1],) * len(c['msgs'][0]['rcpt_ok']))
        if mod == ('queued',):
            mod = ('none',)
        if ires != mod or impl['connections'] != nconn:
            ctx.mismatch('static', c, dict(result=impl['results'][0], connections=impl['connections']),
                         dict(result=mod, connections=nconn))
        if 'script' in c:
            oracle_smtp(ctx, c, dict(results=[impl['results'][0]], raised=None))
        elif ires == ('none',):
            _fail(ctx, 'c11:smtp-no-result', dict(kind='static', case=c), 'attempt() never returns')


# ----------------------------------------------------------------- pipe relays
import tempfile, shutil, re as _re
from slimta.relay.pipe import PipeRelay, MaildropRelay, DovecotLdaRelay

PIPE_KINDS = ['pipe', 'maildrop', 'dovecot']
PERM_RE = _re.compile(r'^5\.\d+\.\d+\s')


def sh_bytes(b):
    return "printf '%s'" % ''.join('\\%03o' % x for x in b) if b else 'true'


def proc_script(p):
    """shell fragment behaving like proc p = ('exit', status, stdout, stderr) | ('timeout',)"""
    if p[0] == 'timeout':
        return 'sleep 1; exit 0'
    status = p[1]
    frag = '%s; %s >&2; ' % (sh_bytes(p[2]), sh_bytes(p[3]))
    if status < 0:
        return frag + 'kill -%d $$' % (-status)
    return frag + 'exit %d' % status


def run_pipe(tmpdir, kind, per_recipient, procs, n_rcpt):
    """real child processes; the program's behaviour is selected by the recipient argument"""
    rcpts = ['r%d@example.com' % i for i in range(n_rcpt)]
    body = 'cat >/dev/null\n'
    if kind == 'maildrop':
        body += proc_script(procs[0]) + '\n'        # maildrop is not told the recipient
    else:
        body += 'case "$RCPT" in\n' + ''.join('%s) %s ;;\n' % (r, proc_script(p)) for r, p in zip(rcpts, procs)) + 'esac\nexit 99\n'
    path = os.path.join(tmpdir, 'prog_%s' % kind)
    with open(path, 'w') as f:
        if kind == 'dovecot':
            f.write('#!/bin/sh\nRCPT="$4"\n' + body)
        else:
            f.write('#!/bin/sh\nRCPT="$1"\n' + body)
    os.chmod(path, 0o755)
    has_timeout = any(p[0] == 'timeout' for p in procs)
    timeout = 0.25 if has_timeout else 20.0
    if kind == 'pipe':
        relay = PipeRelay([path, '{recipient}'], timeout=timeout)
    elif kind == 'maildrop':
        relay = MaildropRelay(path=path, timeout=timeout)
    else:
        relay = DovecotLdaRelay(path=path, timeout=timeout)
    relay.per_recipient = bool(per_recipient)
    env = Envelope('s@example.com', rcpts)
    env.parse(b'From: s@example.com\r\n\r\ntest\r\n')
    try:
        v = relay.attempt(env, 0)
    except Exception as e:
        return ('exc', classify_exc(e))
    if isinstance(v, dict):
        return ('map', tuple(classify_value(v.get(r, KeyError())) for r in rcpts))
    return ('all', classify_value(v))


def pipe_model_input(kind, per_recipient, procs):
    ps = []
    for p in procs:
        if p[0] == 'timeout':
            ps.append([])
        else:
            ps.append([p[1] if p[1] >= 0 else 256 - p[1], p[2], p[3]])
    return [PIPE_KINDS.index(kind), int(per_recipient), ps]


OUTPUTS = [b'', b'transient failure\n', b'5.1.1 no such user\n', b'5.1.1', b'5.1.1\n', b'5.x.1 nope', b'  \n\t',
           b'maildrop: 5.0.0 over quota\n', b'maildrop: \n', b'\xff\xfe bad utf-8\n', b'5.\xd9\xa1.\xd9\xa2 arabic-indic digits\n',
           b'5.1.1\xc2\xa0nbsp', b'5.1.1\xe2\x80', b'4.2.2 mailbox full\n', b'5.7.1 \xe2\x82\xac denied', b' 5.1.1 leading space',
           b'5.12.345 x', b'5..1 x', b'50.1.1 x', b'5.1.1\x1f', b'5.1.1\x1c',
           # text that looks like a format string: nothing may ever format the program's output
           b'%', b'%%', b'%s', b'%d', b'Quota 100% full\n', b'%(name)s', b'{0}', b'{}', b'{sender}', b'\\', b'5.2.2 disk 97% full {x} \\n\n']
# several lines: only the beginning of the output decides
OUTPUTS += [b'temporary failure\n5.1.1 no such user\n', b'wrapper: starting\n5.2.2 mailbox full\nbye\n',
            b'4.2.2 mailbox full\n5.0.0 giving up\n', b'\n5.1.1 after an empty line\n', b' \n5.1.1 x\n',
            b'5.1.1 no such user\n4.2.2 later line\n', b'5.1.1 no such user\ntemporary\n5.0.0 x\n',
            b'plain\r\n5.1.1 after crlf\r\n', b'x\n5.1.1', b'x\n5.1.1 \n']
FORMAT_LIKE = (b'%', b'{', b'\\')
STATUSES = [0, 1, 75, 127, -9]


def oracle_pipe(ctx, case, res):
    kind, per, procs, n = case['kind'], case['per_recipient'], case['procs'], case['n_rcpt']
    if res[0] == 'all' and res[1] != 'ok':
        _fail(ctx, 'c11:pipe-error-returned-as-success', dict(kind='pipe', case=case),
                 'attempt() RETURNED a %s error object instead of raising it: the queue treats any non-mapping return value as delivered' % res[1])
        return
    finals = per_rcpt(res, n)
    timed = False
    for i, f in enumerate(finals):
        p = procs[i] if (per and kind != 'maildrop') else procs[0]
        if per and p[0] == 'timeout':
            timed = True
        key = what = None
        if f.startswith('other') or f == 'none':
            key = 'c11:pipe-foreign-exception'
            if any(q[0] == 'exit' and any(ch in q[2] + q[3] for ch in FORMAT_LIKE) for q in procs):
                key = 'c11:pipe-output-used-as-format-string'
            elif kind in ('maildrop', 'dovecot'):
                key = 'c11:pipe-bytes-str-typeerror'
            elif any(q[0] == 'exit' and (b'\xff' in q[2] + q[3] or q[2].endswith(b'\xe2\x80') or q[3].endswith(b'\xe2\x80')) for q in procs):
                key = 'c11:pipe-undecodable-output'
            what = 'attempt ends with %s' % f
        elif timed or p[0] == 'timeout':
            if f != 'trans':
                key, what = 'c11:pipe-timeout-not-transient', 'recipient %d: program timed out, reported %s' % (i, f)
        elif f == 'ok' and p[1] != 0:
            key = 'c11:pipe-error-returned-as-success' if not per else 'c11:pipe-success-on-nonzero-exit'
            what = 'recipient %d reported delivered although the program exited with status %d' % (i, p[1])
        elif f != 'ok' and p[1] == 0:
            key, what = 'c11:pipe-failure-on-exit-0', 'recipient %d: exit status 0 reported as %s' % (i, f)
        elif f != 'ok':
            if kind == 'pipe':
                msg = (p[2].rstrip() or p[3].rstrip() or b'Delivery failed').decode('utf-8', 'replace')
                want = 'perm' if PERM_RE.match(msg) else 'trans'
            else:
                want = 'trans' if p[1] == 75 else 'perm'
            if f != want:
                key, what = ('c11:pipe-permanent-not-from-beginning-of-output' if (kind == 'pipe' and b'\n' in (p[2].rstrip() or p[3].rstrip())) else 'c11:pipe-misclassified'), 'recipient %d: status %d output %r reported %s, expected %s' % (i, p[1], p[2] or p[3], f, want)
        if key:
            _fail(ctx, key, dict(kind='pipe', case=case), what)
            return


def gen_pipe_cases(quick):
    exits = []
    for st in STATUSES:
        outs = OUTPUTS if st == 1 else (OUTPUTS[:21] if st == 75 else OUTPUTS[:4])
        for o in outs:
            exits.append(('exit', st, o, b''))
            exits.append(('exit', st, b'', o))
        exits.append(('exit', st, b'to stdout\n', b'5.1.1 to stderr\n'))
        exits.append(('exit', st, b' \n', b'5.1.1 to stderr\n'))
    for kind in PIPE_KINDS:
        for per in (1, 0):
            for p in exits:
                yield dict(kind=kind, per_recipient=per, procs=[p], n_rcpt=1)
            # several recipients: second one decides in per-recipient mode, is ignored in one-shot mode
            few = [('exit', 0, b'', b''), ('exit', 1, b'5.1.1 no\n', b''), ('exit', 75, b'later\n', b''), ('exit', 1, b'', b'oops\n')]
            for p0 in few:
                for p1 in few:
                    yield dict(kind=kind, per_recipient=per, procs=[p0, p1], n_rcpt=2)
            yield dict(kind=kind, per_recipient=per, procs=[few[0], few[1], few[2]], n_rcpt=3)
            yield dict(kind=kind, per_recipient=per, procs=[('timeout',)], n_rcpt=1)
            yield dict(kind=kind, per_recipient=per, procs=[few[1], ('timeout',), few[0]], n_rcpt=3)


def run_pipes(ctx):
    tmpdir = tempfile.mkdtemp(prefix='c11pipe', dir='/tmp')
    try:
        cases = list(gen_pipe_cases(ctx.quick))
        outs = ctx.model.batch('c11_pipe', [pipe_model_input(c['kind'], c['per_recipient'], c['procs']) for c in cases])
        for c, o in zip(cases, outs):
            res = run_pipe(tmpdir, c['kind'], c['per_recipient'], c['procs'], c['n_rcpt'])
            mod = decode_mres(o)
            if c['kind'] == 'maildrop' and c['per_recipient']:
                mod = ('map', (mod[1][0],) * c['n_rcpt'])      # same program run, no recipient argument
            ctx.evaluated(('pipe', repr(c)), nontrivial=any(p[0] != 'exit' or p[1] != 0 for p in c['procs']))
            ctx.count('pipe:%s:%s' % (c['kind'], 'per-rcpt' if c['per_recipient'] else 'one-shot'))
            if strip_other(res) != mod:
                ctx.mismatch('pipe', c, res, mod)
            oracle_pipe(ctx, c, res)
        ctx.sample(dict(kind='pipe', case=cases[7]))
    finally:
        shutil.rmtree(tmpdir, ignore_errors=True)
    # the decoder and the pattern of the model against Python, exhaustively over small alphabets
    alpha = [0x35, 0x2e, 0x80, 0xbf, 0xc2, 0xe0, 0xa0, 0xed, 0xf0, 0x90, 0xf4, 0xff]
    strs = [bytes(t) for L in range(0, 5) for t in itertools.product(alpha, repeat=L)]
    if ctx.quick:
        strs = [s for k, s in enumerate(strs) if len(s) < 4 or k % 5 == 0]
    for s, o in zip(strs, ctx.model.batch('c11_u8r', strs)):
        want = tuple(ord(ch) for ch in s.decode('utf-8', 'replace'))
        if o[1] != want:
            ctx.mismatch('utf8-replace', dict(bytes=s), want, o[1])
    ctx.count('pipe:utf8-replace-strings', len(strs))
    ctx.evaluations += len(strs)
    palpha = ['5', '4', '.', '1', '٣', ' ', '\xa0', 'x', '\n', '\x1c', '\x1f', '�']
    texts = [''.join(t) for L in range(0, 7) for t in itertools.product(palpha, repeat=L)
             if L < 5 or (t[0] == '5' and t[1] == '.')]
    if ctx.quick:
        texts = [t for k, t in enumerate(texts) if len(t) < 5 or k % 7 == 0]
    for t, o in zip(texts, ctx.model.batch('c11_perm_pattern', texts)):
        if bool(o) != bool(PERM_RE.match(t)):
            ctx.mismatch('perm-pattern', dict(text=t), bool(PERM_RE.match(t)), bool(o))
    ctx.count('pipe:pattern-texts', len(texts))
    ctx.evaluations += len(texts)


# ----------------------------------------------------------------- HTTP relay
import http.client as _httplib
import slimta.relay.http as http_mod
from slimta.relay.http import HttpRelay


class StubResponse(object):
    def __init__(self, status, reason, header):
        self.status, self.reason, self.header = status, reason, header

    def getheader(self, name, default=None):
        if name.lower() == 'x-smtp-reply' and self.header is not None:
            return self.header
        return default

    def getheaders(self):
        return [('X-Smtp-Reply', self.header)] if self.header is not None else []


class StubConn(object):
    """stands in for slimta.http.HTTPConnection"""

    def __init__(self, down):
        self.down = down
        self.sent = []
        self.closed = False

    def putrequest(self, method, path):
        self.sent.append(('request', method, path))

    def putheader(self, name, value):
        self.sent.append(('header', name, value))

    def endheaders(self, data=None):
        if self.down[0] == 'refused':
            raise _socket.error(errno.ECONNREFUSED, 'Connection refused')

    def send(self, data):
        pass

    def getresponse(self):
        if self.down[0] == 'silent':
            gevent.sleep(30)
        if self.down[0] == 'broken':
            raise _httplib.BadStatusLine('garbage')
        if self.down[0] == 'closed':
            raise _httplib.RemoteDisconnected('Remote end closed connection without response')
        return StubResponse(self.down[1], 'Reason', self.down[2])

    def close(self):
        self.closed = True


HTTP_HEADERS = [None, '', 'asdf', '250; message="2.0.0 Ok"', '450; message="4.2.0 busy"', '550; message="5.1.1 no"',
                '550; message="5.1.1 no" command="RCPT"', '450; message="4.0.0 x" command="DATA"', ' 554 ; message="5.0.0 x"',
                '550; message="4.2.1 mailbox busy"', '450; message="5.7.1 try later"', '451; message="4.7.1 greylisted"',
                '550; message="4.2.1 busy" command="RCPT"',
                '552; message="too many"', '452; message="too many"', '421; message="closing"', '521; message="no mail"',
                '554; message="5.7.1 no"', '455; message="x"', '535; message="auth"', '500; message="syntax"',
                '600; message="what"', '099; message="what"', '999;', '354; message="go"', '150; message="x"', '55; x', '5500; x']
HDR_RE = _re.compile(r'^\s*(\d\d\d)\s*;')


def http_model_input(down):
    if down[0] == 'refused':
        return [0]
    if down[0] == 'silent':
        return [1]
    if down[0] in ('broken', 'closed'):
        return [2]
    h = down[2]
    m = HDR_RE.match(h) if h is not None else None
    if not m:
        return [3, down[1], []]
    return [3, down[1], [int(m.group(1)), int('command' in h), header_esc_digit(h)]]


ESC_IN_HDR = _re.compile(r'message\s*=\s*"([245])\.\d{1,3}\.\d{1,3}\s')


def header_esc_digit(h):
    m = ESC_IN_HDR.search(h or '')
    return int(m.group(1)) if m else 0


def run_http(down, n_rcpt=2):
    env = Envelope('s@example.com', ['r%d@example.com' % i for i in range(n_rcpt)])
    env.parse(b'From: s@example.com\r\n\r\ntest\r\n')
    conns = []

    def fake_get_connection(url, context=None):
        c = StubConn(down)
        conns.append(c)
        return c
    saved = http_mod.get_connection
    hub = gevent.get_hub()
    saved_stream = hub.exception_stream
    http_mod.get_connection = fake_get_connection
    relay = HttpRelay('http://downstream.example:8025/deliver', ehlo_as='there', timeout=0.01)
    try:
        hub.exception_stream = None
        try:
            with gevent.Timeout(0.25):      # watchdog only: a completed attempt takes well under 20 ms
                v = relay.attempt(env, 0)
            res = ('all', classify_value(v) if not (isinstance(v, Reply) and v.is_error()) else 'ok-errreply')
        except (LoopExit, gevent.Timeout):
            res = ('none',)
        except Exception as e:
            res = ('exc', classify_exc(e))
    finally:
        http_mod.get_connection = saved
        hub.exception_stream = saved_stream
        relay.kill()
    return res


def oracle_http(ctx, down, res):
    case = dict(kind='http', down=list(down))
    f = res[1] if res[0] in ('exc', 'all') else res[0]
    if res == ('none',):
        key = 'c11:http-no-result'
        if down[0] == 'resp' and down[2] and 'command' in down[2]:
            key = 'c11:http-reply-header-command'
        elif down[0] == 'resp':
            key = 'c11:http-invalid-reply-header-code'
        _fail(ctx, key, case, 'HttpRelay.attempt() never returns: the client greenlet ended without completing the result')
        return
    if f.startswith('other'):
        _fail(ctx, 'c11:http-foreign-exception', case, 'attempt ends with %s' % f)
        return
    if down[0] != 'resp':
        if f != 'trans':
            _fail(ctx, 'c11:http-misclassified', case, '%s reported as %s, expected a transient failure' % (down[0], f))
        return
    status, header = down[1], down[2]
    if f.startswith('ok'):
        if not (200 <= status < 300):
            _fail(ctx, 'c11:http-success-on-error-status', case, 'HTTP status %d reported as delivered' % status)
        elif f == 'ok-errreply':
            ctx.note('HTTP 2xx with an X-Smtp-Reply header carrying a 4xx/5xx code is returned as a (delivered) Reply: the HTTP status decides; not judged')
        return
    if 200 <= status < 300:
        _fail(ctx, 'c11:http-failure-on-2xx', case, 'HTTP status %d reported as %s' % (status, f))
        return
    m = HDR_RE.match(header) if header is not None else None
    if m and m.group(1)[0] in '45' :
        want = 'perm' if m.group(1)[0] == '5' else 'trans'
        if f != want:
            key = 'c11:http-reply-header-command' if 'command' in header else 'c11:http-misclassified'
            if header_esc_digit(header) not in (0, int(m.group(1)[0])):
                key = 'c11:classification-not-by-reply-code'
            _fail(ctx, key, case, 'reply header %r reported as %s, expected %s' % (header, f, want))


def run_https(ctx):
    downs = [('refused',), ('silent',), ('broken',), ('closed',)]
    for status in (200, 204, 299, 301, 400, 401, 404, 499, 500, 503, 599, 100, 199):
        for h in HTTP_HEADERS:
            downs.append(('resp', status, h))
    outs = ctx.model.batch('c11_http', [http_model_input(d) for d in downs])
    for d, o in zip(downs, outs):
        res = run_http(d)
        mod = decode_mres(o)
        ctx.evaluated(('http', repr(d)), nontrivial=(d[0] != 'resp' or d[1] != 200))
        ctx.count('http:' + (d[0] if d[0] != 'resp' else 'status-%dxx' % (d[1] // 100)))
        cmp_res = strip_other(res)
        if cmp_res == ('all', 'ok-errreply'):
            cmp_res = ('all', 'ok')
        if cmp_res != mod:
            ctx.mismatch('http', dict(down=list(d)), res, mod)
        oracle_http(ctx, d, res)
    ctx.sample(dict(kind='http', down=list(downs[30])))


# ----------------------------------------------------------------- MX relay
import slimta.relay.smtp.mx as mx_mod
from slimta.relay.smtp.mx import MxSmtpRelay
from slimta.util.dns import DNSError
from pycares.errno import ARES_ENOTFOUND, ARES_ENODATA, ARES_ESERVFAIL, ARES_ETIMEOUT


class RData(object):
    def __init__(self, priority=None, host=None, ttl=300):
        self.priority, self.host, self.ttl = priority, host, ttl


class Answer(object):
    def __init__(self, fn):
        self.fn = fn

    def get(self):
        return self.fn()


def make_resolver(mx, a, log):
    """mx / a: ('ok', [...]) | ('notfound', errno) | ('fail', errno)"""
    class StubResolver(object):
        @classmethod
        def query(cls, name, qtype):
            log.append((qtype, name))
            spec = mx if qtype == 'MX' else a

            def fn():
                if spec[0] == 'ok':
                    if qtype == 'MX':
                        return [RData(p, 'mx%d.example' % h) for p, h in spec[1]]
                    return [RData() for _ in range(spec[1])]
                raise DNSError(spec[1])
            return Answer(fn)
    return StubResolver


class StubStatic(object):
    def __init__(self, dest, port):
        self.dest, self.port = dest, port

    def attempt(self, envelope, attempts):
        return ('relayed-to', self.dest, self.port)


def run_mx(case):
    log = []
    saved = mx_mod.DNSResolver
    mx_mod.DNSResolver = make_resolver(case['mx'], case['a'], log)
    try:
        relay = MxSmtpRelay(context=FakeContext())
        relay.new_static_relay = lambda dest, port: StubStatic(dest, port)
        if case['forced']:
            dom = case['rcpt0'].rsplit('@', 1)[-1]
            relay.force_mx(dom, 'forced.example')
        env = Envelope('s@example.com', [case['rcpt0'], 'other@elsewhere.example'])
        env.parse(b'From: s@example.com\r\n\r\ntest\r\n')
        try:
            v = relay.attempt(env, case['attempts'])
            res = ('relay', v[1], v[2]) if isinstance(v, tuple) and v[0] == 'relayed-to' else ('all', classify_value(v))
        except Exception as e:
            res = ('exc', classify_exc(e))
    finally:
        mx_mod.DNSResolver = saved
    return res, log


def mx_model_input(case):
    def ans(spec, enc):
        if spec[0] == 'ok':
            return [0, enc(spec[1])]
        return [1] if spec[0] == 'notfound' else [2]
    return [case['rcpt0'], int(case['forced']), ans(case['mx'], lambda l: [[p, h] for p, h in l]),
            ans(case['a'], lambda n: [0] * n), case['attempts']]


def decode_mx(o, case):
    if o[0] == 0:
        return ('exc', 'perm')
    if o[0] == 1:
        return ('exc', 'trans')
    domain = U(o[1]).lower()
    if case['forced']:
        return ('relay', 'forced.example', 25)
    d = o[2]
    return ('relay', domain if d == () else 'mx%d.example' % d[0], 25)


def oracle_mx(ctx, case, res):
    c = dict(kind='mx', case=case)
    rcpt = case['rcpt0']
    if res[0] == 'exc' and res[1].startswith('other'):
        _fail(ctx, 'c11:mx-foreign-exception', c, 'attempt ends with %s' % res[1])
        return
    if '@' not in rcpt:
        if res != ('exc', 'perm'):
            _fail(ctx, 'c11:mx-misclassified', c, 'recipient without a domain reported as %r' % (res,))
        return
    if case['forced']:
        if res != ('relay', 'forced.example', 25):
            _fail(ctx, 'c11:mx-wrong-destination', c, 'forced destination not used: %r' % (res,))
        return
    mx, a = case['mx'], case['a']
    if mx[0] == 'fail' or (mx[0] == 'notfound' and a[0] == 'fail'):
        want = ('exc', 'trans')
    elif mx[0] == 'ok':
        if not mx[1]:
            want = ('exc', 'perm')
        else:
            recs = sorted(mx[1], key=lambda r: r[0])      # stable: equal preferences keep the answer's order
            want = ('relay', 'mx%d.example' % recs[case['attempts'] % len(recs)][1], 25)
    elif a[0] == 'ok' and a[1] > 0:
        want = ('relay', rcpt.rsplit('@', 1)[1].lower(), 25)
    else:
        want = ('exc', 'perm')
    if res != want:
        _fail(ctx, 'c11:mx-misclassified' if want[0] == 'exc' or res[0] == 'exc' else 'c11:mx-wrong-destination', c,
                 'expected %r, got %r' % (want, res))


def run_mxs(ctx):
    rcpts = ['user@example.com', 'user@Example.COM', 'nodomain', 'a@b@c.example', 'user@', '@', '', '"quoted@local"@d.example']
    mxs = [('ok', []), ('ok', [(10, 1)]), ('ok', [(10, 1), (5, 2)]), ('ok', [(10, 1), (10, 2), (5, 3)]), ('ok', [(20, 3), (10, 1), (10, 2)]),
           ('notfound', ARES_ENOTFOUND), ('notfound', ARES_ENODATA), ('fail', ARES_ESERVFAIL), ('fail', ARES_ETIMEOUT)]
    as_ = [('ok', 0), ('ok', 1), ('ok', 2), ('notfound', ARES_ENOTFOUND), ('notfound', ARES_ENODATA), ('fail', ARES_ESERVFAIL)]
    cases = []
    for r in rcpts:
        for forced in (0, 1):
            for mx in mxs:
                for a in as_:
                    if mx[0] != 'notfound' and a != as_[1]:
                        continue
                    for attempts in (0, 1, 2, 3, 7):
                        if (forced or mx[0] != 'ok') and attempts > 1:
                            continue
                        cases.append(dict(rcpt0=r, forced=forced, mx=mx, a=a, attempts=attempts))
    outs = ctx.model.batch('c11_mx', [mx_model_input(c) for c in cases])
    for c, o in zip(cases, outs):
        res, log = run_mx(c)
        mod = decode_mx(o, c)
        ctx.evaluated(('mx', repr(c)), nontrivial=(c['mx'] != mxs[1] or c['forced'] or '@' not in c['rcpt0']))
        ctx.count('mx:' + c['mx'][0] + ('/a-' + c['a'][0] if c['mx'][0] == 'notfound' else ''))
        if strip_other(res) != mod:
            ctx.mismatch('mx', c, res, mod)
        oracle_mx(ctx, c, res)
    ctx.sample(dict(kind='mx', case=cases[len(cases) // 2]))
    # end to end: MX choice, then the real StaticSmtpRelay / SmtpRelayClient on a fake socket
    for script, rcptn in (({}, 2), ({skey(K_RCPT, 0, 0): R5}, 2), ({skey(K_EOD, 0, 0): R4}, 1), ({skey(K_BANNER): R5}, 1)):
        case = base_case('smtp', 1, [rcptn])
        case['script'] = script
        hosts = []
        sockets = []
        with Patches():
            kw = client_kwargs(case, sockets)
            orig_creator = kw['socket_creator']

            def creator(address, orig_creator=orig_creator):
                hosts.append(address)
                return orig_creator(address)
            kw['socket_creator'] = creator
            ctxt = kw.pop('context')
            saved = mx_mod.DNSResolver
            mx_mod.DNSResolver = make_resolver(('ok', [(10, 1), (5, 2)]), ('ok', 1), [])
            try:
                relay = MxSmtpRelay(context=ctxt, **kw)
                env = make_envelope(case, 0)
                try:
                    v = relay.attempt(env, 1)
                    res = ('map', tuple(classify_value(v.get(r)) for r in env.recipients)) if isinstance(v, dict) else ('all', classify_value(v))
                except Exception as e:
                    res = ('exc', classify_exc(e))
            finally:
                mx_mod.DNSResolver = saved
                for r in relay._relayers.values():
                    r.kill()
        mod = decode_model_smtp(ctx.model.call('c11_smtp', model_input(case)))['results'][0]
        ctx.evaluated(('mx-e2e', json.dumps(script)))
        ctx.count('mx:end-to-end')
        if res != mod or hosts != [('mx1.example', 25)]:
            ctx.mismatch('mx-e2e', dict(script=script), dict(result=res, hosts=hosts), dict(result=mod, hosts=[('mx1.example', 25)]))
        oracle_smtp(ctx, case, dict(results=[res], raised=None))


# ----------------------------------------------------------------- entry points
def run(ctx):
    ctx.extra['rule'] = (
        'SMTP/LMTP: scripted server, one outcome per stage from {2xx,3xx,4xx,5xx,500,malformed,bad code,disconnect,stall}; enumerated: '
        'every RCPT vector over {2xx,4xx,5xx}^n (n=1..3) x (no fault | one fault at banner/EHLO/MAIL/DATA/end-of-data/RSET/QUIT), special outcomes at each RCPT, '
        'all MAILxDATA, DATAxEOD pairs, every LMTP end-of-data vector, HELO fallback, STARTTLS/EHLO2/HELO2/AUTH variants with tls_required/credentials/advertised extensions, '
        'tls_immediately, connect refused/timeout, 8-bit body with/without 8BITMIME, unencodable sender/recipient, two requests on one connection '
        '(first x second request faults, unsolicited reply while idle), each with PIPELINING on and off, for both client classes driven with a preloaded pool queue; '
        'a random subset and the requeue scenarios again through StaticSmtpRelay/StaticLmtpRelay.attempt. '
        'pipe: real sh child processes, exit status {0,1,75,127,SIGKILL} x 21 output shapes on stdout/stderr x three relay classes x both per_recipient modes, timeouts. '
        'reply texts with an enhanced status code matching / contradicting the reply code at every stage (SMTP, LMTP per-recipient, HTTP header); '
        'MX as an object: every 2-attempt sequence over {2 domains} x {dt 0,10,100 s; ttl 60} x 10 resolver scenarios on one MxSmtpRelay, random 3- and 4-attempt sequences; '
'concurrent MX: 2 simultaneous attempts (same / different domain) x 7x7 own resolver scenarios x every release order of their MX/A queries (AsyncResults released by the harness), random 3-attempt runs; '
        'pipe outputs include format-string look-alikes (%, %%, %s, %d, %(name)s, {0}, {}, {sender}, backslash); '
        'HTTP: stub connection, 13 status codes x 20 X-Smtp-Reply shapes + refused/silent/garbage/closed. MX: stub resolver, 9 MX answers x 6 A answers x 8 recipient shapes x forced x attempts. '
        'non-trivial = at least one non-default outcome, several recipients, or a failing downstream')
    cases = run_smtp(ctx)
    run_static_subset(ctx, cases)
    run_pipes(ctx)
    run_https(ctx)
    run_mxs(ctx)
    run_mx_sequences(ctx)
    run_mx_concurrents(ctx)
    ctx.extra['exhaustive'] = True
    ctx.extra['exhaustive_bound'] = ('SMTP/LMTP: the enumerated fault combinations above (%d scripts, all compared on result per recipient and on the command sequence seen by the server); '
                                     'pipe/HTTP/MX: the full products listed in the rule') % len(cases)
    ctx.extra['trusted_base'] = [
        'fake SMTP server (harness/props/c11.py FakeServer), virtual Timeout for the relay client modules, patched wait_read; sh(1) for the pipe relays; stub HTTP connection and stub DNSResolver',
        'AUTH is exercised with pysasl PLAIN only; TLS by a context whose wrap_socket returns the socket',
    ]
    ctx.note('in per_recipient=False mode (MaildropRelay) the program runs once for recipients[0] and its exit status is taken for the whole envelope (documented design); not judged')
    ctx.note('MxSmtpRelay routes the whole envelope by the domain of recipients[0]; other recipient domains are not looked up (queue policies are expected to split); not judged')
    ctx.note('a Popen failure (delivery program missing) escapes PipeRelay.attempt as OSError: configuration error, outside the quantifier; not judged')


def _unjson(x):
    if isinstance(x, dict) and set(x) == {'hex'}:
        return bytes.fromhex(x['hex'])
    if isinstance(x, dict):
        return {k: _unjson(v) for k, v in x.items()}
    if isinstance(x, list):
        return [_unjson(v) for v in x]
    return x


def replay(ctx, case):
    c = _unjson(case.get('case', case))
    kind = c.get('kind')
    print('what:', case.get('what'))
    if kind in ('smtp', 'static'):
        cc = c['case']
        impl = run_client(cc) if 'script' in cc else run_static(cc)
        print('case          :', json.dumps(cc, sort_keys=True))
        print('implementation:', impl['results'], 'raised', impl.get('raised'))
        if 'trace' in impl:
            print('commands seen :', [(KNAMES[t[0]],) + tuple(t[1:]) for t in impl['trace']])
        if ctx.model:
            mod = decode_model_smtp(ctx.model.call('c11_smtp', model_input(cc)))
            print('model         :', mod['results'])
    elif kind == 'pipe':
        cc = c['case']
        procs = [tuple(p) for p in cc['procs']]
        d = tempfile.mkdtemp(prefix='c11pipe', dir='/tmp')
        try:
            print('case          :', cc)
            print('implementation:', run_pipe(d, cc['kind'], cc['per_recipient'], procs, cc['n_rcpt']))
        finally:
            shutil.rmtree(d, ignore_errors=True)
        if ctx.model:
            print('model         :', decode_mres(ctx.model.call('c11_pipe', pipe_model_input(cc['kind'], cc['per_recipient'], procs))))
    elif kind == 'http':
        d = tuple(c['down'])
        print('downstream    :', d)
        print('implementation:', run_http(d))
        if ctx.model:
            print('model         :', decode_mres(ctx.model.call('c11_http', http_model_input(d))))
    elif kind == 'mxconc':
        att = [tuple(x) for x in c['attempts']]
        out, order = run_mx_concurrent(att, c['choices'])
        print('attempts (domain, own resolver scenario):', att)
        print('release order (attempt, query):', order)
        for k, (res, answers) in enumerate(out):
            print('attempt %d: %r  answers given: %r' % (k, res, answers))
    elif kind == 'mxseq':
        steps = [tuple(x) for x in c['steps']]
        print('steps (domain, dt, resolver scenario):', steps)
        print('implementation:', run_mx_sequence(steps))
        if ctx.model:
            print('model         :', decode_mxseq(ctx.model.call('c11_mxseq', mxseq_model_input(steps)), steps))
    elif kind == 'mx':
        cc = c['case']
        cc['mx'] = tuple(cc['mx']) if cc['mx'][0] != 'ok' else ('ok', [tuple(r) for r in cc['mx'][1]])
        cc['a'] = tuple(cc['a'])
        print('case          :', cc)
        print('implementation:', run_mx(cc)[0])
        if ctx.model:
            print('model         :', decode_mx(ctx.model.call('c11_mx', mx_model_input(cc)), cc))
    return 0


# ----------------------------------------------------------------- MX relay as an object: attempt sequences
from pycares.errno import ARES_ECONNREFUSED

MX_TTL = 60
MX_SCEN = {
    'mx2': (('ok', [(10, 1), (5, 2)]), ('ok', 1)),
    'mx1': (('ok', [(10, 3)]), ('ok', 1)),
    'mx-empty': (('ok', []), ('ok', 1)),
    'servfail': (('fail', ARES_ESERVFAIL), ('ok', 1)),
    'timeout': (('fail', ARES_ETIMEOUT), ('ok', 1)),
    'refused': (('fail', ARES_ECONNREFUSED), ('ok', 1)),
    'a-ok': (('notfound', ARES_ENOTFOUND), ('ok', 1)),
    'nodata-a-ok': (('notfound', ARES_ENODATA), ('ok', 2)),
    'nothing': (('notfound', ARES_ENOTFOUND), ('notfound', ARES_ENODATA)),
    'a-fail': (('notfound', ARES_ENODATA), ('fail', ARES_ESERVFAIL)),
}
MX_SCEN_NAMES = sorted(MX_SCEN)


class FakeClock(object):
    def __init__(self, t):
        self.t = t

    def time(self):
        return self.t


def run_mx_sequence(steps):
    """steps: [(domain index or None, dt, scenario name)]; one MxSmtpRelay object for all of them"""
    clock = FakeClock(1000)
    cur = {}
    log = []

    class SeqResolver(object):
        @classmethod
        def query(cls, name, qtype):
            log.append((qtype, name))
            spec = cur['mx'] if qtype == 'MX' else cur['a']

            def fn():
                if spec[0] == 'ok':
                    if qtype == 'MX':
                        return [RData(p, 'mx%d.example' % h, MX_TTL) for p, h in spec[1]]
                    return [RData(ttl=MX_TTL) for _ in range(spec[1])]
                raise DNSError(spec[1])
            return Answer(fn)
    saved = (mx_mod.DNSResolver, mx_mod.time)
    mx_mod.DNSResolver, mx_mod.time = SeqResolver, clock
    out = []
    try:
        relay = MxSmtpRelay(context=FakeContext())
        relay.new_static_relay = lambda dest, port: StubStatic(dest, port)
        for k, (d, dt, scen) in enumerate(steps):
            clock.t += dt
            cur['mx'], cur['a'] = MX_SCEN[scen]
            del log[:]
            rcpt = 'nodomain' if d is None else 'user@D%d.example' % d
            env = Envelope('s@example.com', [rcpt])
            env.parse(b'From: s@example.com\r\n\r\ntest\r\n')
            try:
                v = relay.attempt(env, k)
                res = ('relay', v[1]) if isinstance(v, tuple) and v[0] == 'relayed-to' else ('all', classify_value(v))
            except Exception as e:
                res = ('exc', classify_exc(e))
            out.append((res, bool(log)))
    finally:
        mx_mod.DNSResolver, mx_mod.time = saved
    return out


def mxseq_model_input(steps):
    t = 1000
    ins = []
    for k, (d, dt, scen) in enumerate(steps):
        t += dt
        mx, a = MX_SCEN[scen]

        def ans(spec, enc):
            if spec[0] == 'ok':
                return [0, enc(spec[1])]
            return [1] if spec[0] == 'notfound' else [2]
        ins.append([[] if d is None else [d], t, ans(mx, lambda l: [[p, h] for p, h in l]), ans(a, lambda n: [0] * n), MX_TTL, k])
    return ins


def decode_mxseq(o, steps):
    out = []
    for (oc, asked), (d, dt, scen) in zip(o, steps):
        if oc[0] == 0:
            r = ('exc', 'perm')
        elif oc[0] == 1:
            r = ('exc', 'trans')
        else:
            r = ('relay', ('d%d.example' % d) if oc[1] == () else 'mx%d.example' % oc[1][0])
        out.append((r, bool(asked)))
    return out


def oracle_mxseq(ctx, steps, impl):
    """each attempt is classified as its OWN resolver answers call for; only successful lookups are
    remembered, until their TTL"""
    cache = {}
    t = 1000
    for k, ((d, dt, scen), (res, asked)) in enumerate(zip(steps, impl)):
        t += dt
        mx, a = MX_SCEN[scen]
        case = dict(kind='mxseq', steps=[list(x) for x in steps])
        if d is None:
            want, want_asked = ('exc', 'perm'), False
        elif d in cache and t < cache[d][1]:
            hosts = cache[d][0]
            want, want_asked = ('relay', hosts[k % len(hosts)]), False
        else:
            want_asked = True
            if mx[0] == 'fail' or (mx[0] == 'notfound' and a[0] == 'fail'):
                want = ('exc', 'trans')
            else:
                if mx[0] == 'ok':
                    hosts = ['mx%d.example' % h for p, h in sorted(mx[1], key=lambda r: r[0])]
                elif a[0] == 'ok':
                    hosts = ['d%d.example' % d] * a[1]
                else:
                    hosts = []
                if hosts:
                    cache[d] = (hosts, t + MX_TTL)
                    want = ('relay', hosts[k % len(hosts)])
                else:
                    cache.pop(d, None)
                    want = ('exc', 'perm')
        if res != want or asked != want_asked:
            key = 'c11:mx-sequence-misclassified'
            if want == ('exc', 'trans') and res != want:
                key = 'c11:mx-resolver-error-not-transient'
            _fail(ctx, key, case, 'attempt %d (domain %r, resolver scenario %s, t=%d): expected %r (resolver asked: %s), got %r (asked: %s)' % (
                k, d, scen, t, want, want_asked, res, asked))
            return


def run_mx_sequences(ctx):
    opts = [(d, dt, sc) for d in (0, 1) for dt in (0, 10, 100) for sc in MX_SCEN_NAMES]
    seqs = [[a, b] for a in opts for b in opts]
    seqs += [[(None, 0, 'mx1'), b] for b in opts[:10]] + [[a, (None, 0, 'servfail'), a] for a in opts[:10]]
    rng = ctx.rng
    for L, n in ((3, 1000 if ctx.quick else 20000), (4, 500 if ctx.quick else 10000)):
        for _ in range(n):
            # mostly one domain, so that the cache matters
            dom = rng.choice((0, 0, 1))
            seqs.append([(dom if rng.random() < 0.8 else 1 - dom, rng.choice((0, 10, 10, 100)), rng.choice(MX_SCEN_NAMES))
                         for _ in range(L)])
    outs = ctx.model.batch('c11_mxseq', [mxseq_model_input(s) for s in seqs])
    for steps, o in zip(seqs, outs):
        impl = run_mx_sequence(steps)
        mod = decode_mxseq(o, steps)
        ctx.evaluated(('mxseq', repr(steps)))
        ctx.count('mxseq:len-%d' % len(steps))
        if impl != mod:
            ctx.mismatch('mxseq', dict(steps=[list(x) for x in steps]), impl, mod)
        oracle_mxseq(ctx, steps, impl)
    ctx.sample(dict(kind='mxseq', steps=[list(x) for x in seqs[len(seqs) // 2]]))


# ----------------------------------------------------------------- MX relay: concurrent attempts on one object
CONC_SCEN = {            # (MX answer, A answer) an attempt's own queries get
    'mx-ok': (('ok', [(10, 1), (5, 2)]), ('ok', 1)),
    'mx-fail': (('fail', ARES_ESERVFAIL), ('ok', 1)),
    'mx-timeout': (('fail', ARES_ETIMEOUT), ('ok', 1)),
    'nf-a-ok': (('notfound', ARES_ENOTFOUND), ('ok', 1)),
    'nodata-a-ok': (('notfound', ARES_ENODATA), ('ok', 1)),
    'nf-a-fail': (('notfound', ARES_ENOTFOUND), ('fail', ARES_ESERVFAIL)),
    'nf-nf': (('notfound', ARES_ENOTFOUND), ('notfound', ARES_ENODATA)),
}
CONC_NAMES = sorted(CONC_SCEN)


def run_mx_concurrent(attempts, choices):
    """attempts: [(domain index, scenario)] started together on ONE MxSmtpRelay; the stub resolver
    answers through AsyncResults that are released one at a time, the next one picked by `choices`.
    Returns per attempt (result, [(qtype, answer kind) it was given]) and the release order."""
    pending = []          # [attempt index, qtype, AsyncResult]
    issued = [[] for _ in attempts]
    owner = {}

    class ConcResolver(object):
        @classmethod
        def query(cls, name, qtype):
            a = owner.get(gevent.getcurrent())
            r = AsyncResult()
            pending.append([a, qtype, r])
            return r
    saved = (mx_mod.DNSResolver, mx_mod.time)
    mx_mod.DNSResolver, mx_mod.time = ConcResolver, FakeClock(1000)
    results = [None] * len(attempts)
    order = []
    try:
        relay = MxSmtpRelay(context=FakeContext())
        relay.new_static_relay = lambda dest, port: StubStatic(dest, port)

        def one(k, d):
            env = Envelope('s@example.com', ['user@d%d.example' % d])
            env.parse(b'From: s@example.com\r\n\r\ntest\r\n')
            try:
                v = relay.attempt(env, k)
                results[k] = ('relay', v[1]) if isinstance(v, tuple) and v[0] == 'relayed-to' else ('all', classify_value(v))
            except Exception as e:
                results[k] = ('exc', classify_exc(e))
        glets = []
        for k, (d, scen) in enumerate(attempts):
            g = gevent.Greenlet(one, k, d)
            owner[g] = k
            glets.append(g)
        for g in glets:
            g.start()
        step = 0
        for _ in range(40):
            for _ in range(6):
                gevent.sleep(0)
            if not pending:
                break
            pick = choices[step] % len(pending) if step < len(choices) else 0
            step += 1
            a, qtype, r = pending.pop(pick)
            spec = CONC_SCEN[attempts[a][1]][0 if qtype == 'MX' else 1] if a is not None else ('fail', ARES_ESERVFAIL)
            order.append((a, qtype))
            if a is not None:
                issued[a].append((qtype, spec[0], spec[1] if spec[0] == 'ok' else None))
            if spec[0] == 'ok':
                r.set([RData(p, 'mx%d.example' % h, MX_TTL) for p, h in spec[1]] if qtype == 'MX'
                      else [RData(ttl=MX_TTL) for _ in range(spec[1])])
            else:
                r.set_exception(DNSError(spec[1]))
        for g in glets:
            if not g.ready():
                g.kill(block=False)
        gevent.sleep(0)
    finally:
        mx_mod.DNSResolver, mx_mod.time = saved
    return [(results[k] or ('none',), issued[k]) for k in range(len(attempts))], order


def lookup_outcome(answers, d, k):
    """what a completed lookup (the answers it was given) calls for"""
    mxa = next((x for x in answers if x[0] == 'MX'), None)
    aa = next((x for x in answers if x[0] == 'A'), None)
    if mxa is None:
        return None
    if mxa[1] == 'fail' or (mxa[1] == 'notfound' and aa is not None and aa[1] == 'fail'):
        return ('exc', 'trans')
    if mxa[1] == 'ok':
        hosts = ['mx%d.example' % h for p, h in sorted(mxa[2], key=lambda r: r[0])]
    elif aa is not None and aa[1] == 'ok':
        hosts = ['d%d.example' % d] * aa[2]
    elif aa is None:
        return None
    else:
        hosts = []
    return ('relay', hosts[k % len(hosts)]) if hosts else ('exc', 'perm')


def oracle_mxconc(ctx, attempts, choices, out):
    case = dict(kind='mxconc', attempts=[list(x) for x in attempts], choices=list(choices))
    for k, ((d, scen), (res, answers)) in enumerate(zip(attempts, out)):
        if res == ('none',):
            _fail(ctx, 'c11:mx-concurrent-no-result', case, 'attempt %d (domain %d, %s) never finished' % (k, d, scen))
            return
        if answers:
            want = lookup_outcome(answers, d, k)
            if want is not None and res != want:
                key = 'c11:mx-concurrent-resolver-error-not-transient' if want == ('exc', 'trans') else 'c11:mx-concurrent-misclassified'
                _fail(ctx, key, case, 'attempt %d (domain %d) was answered %r: expected %r, got %r' % (k, d, answers, want, res))
                return
        else:
            # it asked nothing itself: it shared somebody's lookup for the same domain and must get that lookup's outcome
            shared = [lookup_outcome(a2, d2, k) for (d2, s2), (r2, a2) in zip(attempts, out) if d2 == d and a2]
            if res not in shared:
                key = 'c11:mx-concurrent-misclassified'
                if res == ('exc', 'perm') and ('exc', 'trans') in shared:
                    key = 'c11:mx-concurrent-resolver-error-not-transient'
                _fail(ctx, key, case, 'attempt %d (domain %d) asked the resolver nothing and is reported %r; the lookups for that domain it can have shared call for %r' % (
                    k, d, res, shared))
                return


def run_mx_concurrents(ctx):
    cases = []
    for s0 in CONC_NAMES:
        for s1 in CONC_NAMES:
            for doms in ((0, 0), (0, 1)):
                seen = set()
                for ch in itertools.product((0, 1), repeat=4):
                    att = [(doms[0], s0), (doms[1], s1)]
                    out, order = run_mx_concurrent(att, ch)
                    if tuple(order) in seen:
                        continue
                    seen.add(tuple(order))
                    cases.append((att, ch, out))
    rng = ctx.rng
    for _ in range(150 if ctx.quick else 2000):
        att = [(rng.choice((0, 0, 1)), rng.choice(CONC_NAMES)) for _ in range(3)]
        ch = tuple(rng.randrange(3) for _ in range(6))
        cases.append((att, ch, run_mx_concurrent(att, ch)[0]))
    for att, ch, out in cases:
        ctx.evaluated(('mxconc', repr(att), ch))
        ctx.count('mxconc:%d-attempts' % len(att))
        oracle_mxconc(ctx, att, ch, out)
    ctx.sample(dict(kind='mxconc', attempts=[list(x) for x in cases[len(cases) // 3][0]], choices=list(cases[len(cases) // 3][1])))
    ctx.note('concurrent MX attempts are judged by the implementation-only oracle (each attempt classified by the answers it, or the lookup it shared, was given); the Coq MX model is sequential (one attempt at a time)')
