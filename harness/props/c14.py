"""C14 - no peer can hold a session or delivery attempt beyond its configured
timeouts.  PARTIAL by nature (real timers / TLS / the OS are outside the model):

* table: tools/timeouts_ast.py regenerates "blocking call site -> enclosing
  `with Timeout(...)`" from the current source; prop/C14.v proves all_guarded over
  it.  `build_failure` turns a table obligation that no longer compiles into a
  description (the main program reports VIOLATION, not CHECK-BROKEN) and `run`
  then looks for the concrete stall.
* correspondence: the timed model (model/Timeouts.v) against the real Server /
  SmtpRelayClient / LmtpRelayClient under VIRTUAL time: fake sockets, the module
  level name `Timeout` of the modules under test replaced by a virtual Timeout with
  the same context-manager semantics, a scripted peer.  Compared exactly: the times
  of every reply, of the closing 421, of the attempt's result.
* oracle (independent of the model): the session / attempt / client greenlet ends
  within the bound the property states; a greenlet still blocked when no virtual
  timer or peer action is left is blocked for ever -> failure keyed by the call
  site it is blocked in (read from its frames): c14:unguarded:<method>:<callee>.
* real time: pipe relay (sleep script), HTTP relay (silent stub), and a few
  SMTP/LMTP/server cases with real gevent.Timeout and a watchdog, run concurrently.
"""
import os, sys, re, json, time, heapq, collections, subprocess, tempfile, shutil, itertools
import gevent
from gevent.event import Event, AsyncResult
from gevent.hub import get_hub

from vp import core
from vp.core import B

import slimta.smtp.server as srv_mod
import slimta.relay.smtp.client as rc_mod
import slimta.relay.smtp.lmtpclient as lc_mod
import slimta.relay.pool as pool_mod
import slimta.smtp.client as smtpclient_mod
import slimta.relay.pipe as pipe_mod
import slimta.relay.http as http_mod
from slimta.smtp import ConnectionLost
from slimta.envelope import Envelope
from slimta.relay import TransientRelayError, PermanentRelayError
from slimta.util.deque import BlockingDeque

ASSUMPTIONS = [
    'timeouts are configured (not None) and positive; Server(data_timeout=None) falls back to command_timeout as in the code',
    'virtual-time runs: Python code between two blocking calls takes no time; the fake socket never blocks in sendall unless the case says so',
    'the peer of a relay attempt answers its replies in order, each after a delay counted from the later of "command received" and "previous reply sent"; None = never',
    'table: only calls are examined (not property loads); a method with callers inside the scanned class is assumed not to be called from elsewhere',
    'IO.close (TLS close_notify wait) is recorded in the table but not demanded to be inside a scope (it happens after the result / last reply)',
]

UNIT = 1000.0           # virtual time units per second (the model's N is in these units)
TRANSLATOR = os.path.join(core.VERIF, 'tools', 'timeouts_ast.py')
SCANNED_FILES = ('slimta/relay/smtp/client.py', 'slimta/relay/smtp/lmtpclient.py', 'slimta/smtp/server.py',
                 'slimta/relay/pipe.py', 'slimta/relay/http.py')
KINDS = ['KConnect', 'KExchange', 'KRead', 'KWrite', 'KHandshake', 'KProc', 'KCall', 'KPoll', 'KClose', 'KLocal']
TEXPRS = ['TConnect', 'TCommand', 'TData', 'TSingle', 'TIdle', 'TOther']
NEEDS_GUARD = ('KConnect', 'KExchange', 'KRead', 'KWrite', 'KHandshake', 'KProc')


def _fail(ctx, key, case, what):
    """at most 3 recorded failures per key, so that every distinct key is kept"""
    seen = ctx.extra.setdefault('_c14_fail_count', {})
    seen[key] = seen.get(key, 0) + 1
    if seen[key] <= 3:
        ctx.fail(key, case, what)
    else:
        ctx.count('oracle-fail:' + key)


# ===================================================================== table
def load_table():
    """runs the translator on the current source; returns (dict or None, message)"""
    env = dict(os.environ, VERIF_REPO=core.REPO)
    p = subprocess.run([sys.executable, TRANSLATOR, '--json'], stdout=subprocess.PIPE, stderr=subprocess.PIPE, env=env)
    if p.returncode != 0:
        return None, (p.stderr.decode() or p.stdout.decode()).strip()
    return json.loads(p.stdout.decode()), ''


def table_val(sites):
    out = []
    for s in sites:
        sc = s['scope']
        scv = [] if sc is None else [TEXPRS.index(sc['expr']), sc['line'], sc['text'].encode()]
        out.append([s['cls'].encode(), s['method'].encode(), s['callee'].encode(), KINDS.index(s['kind']), scv, s['line']])
    return out


def known_unguarded_of_prop():
    """the exception list of prop/C14.v (method, callee)"""
    txt = open(os.path.join(core.COQ, 'prop', 'C14.v')).read()
    txt = re.sub(r'\(\*.*?\*\)', '', txt, flags=re.S)
    m = re.search(r'Definition known_unguarded.*?:=\s*\[(.*?)\]\s*%string\.', txt, flags=re.S)
    return re.findall(r'\("([^"]+)",\s*"([^"]+)"\)', m.group(1)) if m else []


def site_at(table, filename, lineno):
    """the table site a frame (file, line) is executing; blocking kinds preferred"""
    best = None
    for s in table['sites']:
        if filename.endswith(s['file']) and s['line'] <= lineno <= s.get('end_line', s['line']):
            if best is None or (s['kind'] in NEEDS_GUARD and best['kind'] not in NEEDS_GUARD):
                best = s
    return best


def frames_of(g):
    out = []
    f = getattr(g, 'gr_frame', None)
    while f is not None:
        out.append((f.f_code.co_filename, f.f_lineno, f.f_code.co_name))
        f = f.f_back
    return out


def stuck_key(table, frames):
    """innermost frame inside a scanned file -> c14:unguarded:<method>:<callee>"""
    for fn, ln, name in frames:
        if any(fn.endswith(x) for x in SCANNED_FILES) and name not in ('new_f',):
            s = site_at(table, fn, ln) if table else None
            if s is not None:
                return 'c14:unguarded:%s:%s' % (s['method'], s['callee']), '%s:%d %s -> %s' % (
                    s['file'], ln, s['method'], s['callee'])
            return 'c14:stuck:%s:%d' % (name, ln), '%s:%d in %s' % (os.path.basename(fn), ln, name)
    return 'c14:stuck:unknown', 'no frame inside a scanned file: %r' % (frames[:4],)


# ===================================================================== virtual time
class VT(object):
    """virtual clock + timers of the virtual Timeout + scheduled peer actions"""
    realtime = False

    def __init__(self):
        self.now = 0
        self.timers = []
        self.events = []
        self.seq = 0
        self.progress = 0
        self.horizon = None        # run() stops before going past it (a session that re-arms for ever)
        self.beyond = False

    def tick(self):
        self.progress += 1

    def at(self, t, fn):
        heapq.heappush(self.events, (t, self.seq, fn))
        self.seq += 1

    def after(self, d, fn):
        self.at(self.now + d, fn)

    def settle(self):
        stable = 0
        for _ in range(100000):
            p = self.progress
            gevent.sleep(0)
            if self.progress == p:
                stable += 1
                if stable >= 2:
                    return
            else:
                stable = 0

    def step(self):
        self.settle()
        tm = min(self.timers, key=lambda t: (t.deadline, t.seq)) if self.timers else None
        ev = self.events[0] if self.events else None
        if tm is None and ev is None:
            return False
        nxt = min([x for x in (tm.deadline if tm else None, ev[0] if ev else None) if x is not None])
        if self.horizon is not None and nxt > self.horizon:
            self.beyond = True
            return False
        if tm is not None and (ev is None or tm.deadline <= ev[0]):      # timers first on a tie
            self.timers.remove(tm)
            self.now = max(self.now, tm.deadline)
            exc = tm if tm.exception in (None, False) else tm.exception
            self.tick()
            get_hub().loop.run_callback(tm.g.throw, exc)
        else:
            t, _, fn = heapq.heappop(self.events)
            self.now = max(self.now, t)
            fn()
        return True

    def run(self, max_steps=200000):
        n = 0
        while self.step():
            n += 1
            if n > max_steps:
                raise RuntimeError('virtual time: too many steps')
        self.settle()


class RT(object):
    """the same interface on the real clock (real gevent.Timeout, nothing patched)"""
    realtime = True

    def __init__(self):
        self.t0 = time.time()
        self.pending = []

    @property
    def now(self):
        return int((time.time() - self.t0) * UNIT)

    def tick(self):
        pass

    def at(self, t, fn):
        self.pending.append(gevent.spawn_later(max(0.0, t / UNIT - (time.time() - self.t0)), fn))

    def after(self, d, fn):
        self.pending.append(gevent.spawn_later(d / UNIT, fn))

    def cleanup(self):
        for g in self.pending:
            g.kill(block=False)


def make_timeout_class(vt):
    class VTimeout(BaseException):
        """gevent.Timeout on the virtual clock: with-statement semantics, Timeout(None)
        never fires, Timeout(s, False) is swallowed at the end of its block"""

        def __init__(self, seconds=None, exception=None):
            BaseException.__init__(self)
            self.seconds = seconds
            self.exception = exception
            self.deadline = None
            self.g = None
            self.seq = 0

        def start(self):
            vt.tick()
            if self.seconds is None or self in vt.timers:
                return
            self.deadline = vt.now + int(round(self.seconds * UNIT))
            self.g = gevent.getcurrent()
            self.seq = vt.seq
            vt.seq += 1
            vt.timers.append(self)

        def cancel(self):
            vt.tick()
            if self in vt.timers:
                vt.timers.remove(self)

        close = cancel

        @property
        def pending(self):
            return self in vt.timers

        def __enter__(self):
            self.start()
            return self

        def __exit__(self, typ, value, tb):
            self.cancel()
            if value is self and self.exception is False:
                return True

        def __str__(self):
            return '%s seconds' % self.seconds
    return VTimeout


class patched(object):
    """replace the module-level name `Timeout` of the modules under test"""
    MODS = (srv_mod, rc_mod, lc_mod, pool_mod)

    def __init__(self, vt):
        self.vt = vt

    def __enter__(self):
        if self.vt.realtime:
            return self
        cls = make_timeout_class(self.vt)
        self.old = [(m, m.Timeout) for m in self.MODS]
        for m in self.MODS:
            m.Timeout = cls
        return self

    def __exit__(self, *a):
        if not self.vt.realtime:
            for m, t in self.old:
                m.Timeout = t


VSOCKETS = {}            # fake fd -> VSocket (for the wait_read stand-in below)
_next_fd = [1000000]


def fake_wait_read(fileno, timeout=None, timeout_exc=None):
    """stand-in for gevent.socket.wait_read as used by Client.has_reply_waiting(fd, 0.01,
    Timeout()): returns when the fake socket has unread bytes (or EOF), else raises"""
    s = VSOCKETS.get(fileno)
    if s is not None and (s.inbox or s.eof):
        return
    raise (timeout_exc if timeout_exc is not None else smtpclient_mod.Timeout())


class wait_read_patched(object):
    def __enter__(self):
        self.old = smtpclient_mod.wait_read
        smtpclient_mod.wait_read = fake_wait_read
        return self

    def __exit__(self, *a):
        smtpclient_mod.wait_read = self.old
        VSOCKETS.clear()


class VSocket(object):
    def __init__(self, vt, on_send=None, block_send_at=None):
        _next_fd[0] += 1
        self.fd = _next_fd[0]
        VSOCKETS[self.fd] = self
        self.vt = vt
        self.inbox = collections.deque()
        self.ev = Event()
        self.eof = False
        self.sent = []
        self.nsend = 0
        self.on_send = on_send
        self.block_send_at = block_send_at
        self.closed = False

    def fileno(self):
        return self.fd

    def getpeername(self):
        return ('192.0.2.1', 25)

    def getsockname(self):
        return ('192.0.2.2', 25)

    def recv(self, n=4096):
        self.vt.tick()
        while not self.inbox:
            if self.eof:
                return b''
            self.ev.clear()
            self.ev.wait()
            self.vt.tick()
        c = self.inbox.popleft()
        if len(c) > n:
            self.inbox.appendleft(c[n:])
            c = c[:n]
        return c

    def deliver(self, data):
        if data == b'':
            self.eof = True
        else:
            self.inbox.append(data)
        self.ev.set()

    def sendall(self, data):
        self.vt.tick()
        self.nsend += 1
        if self.block_send_at == self.nsend:
            Event().wait()                      # the peer never reads: blocked for ever
        self.sent.append((self.vt.now, bytes(data)))
        if self.on_send:
            self.on_send(bytes(data))

    def send(self, data):
        self.sendall(data)
        return len(data)

    def close(self):
        self.closed = True
        VSOCKETS.pop(self.fd, None)


def sec(units):
    return None if units is None else units / UNIT


# ===================================================================== server side
class FakeServerContext(object):
    """stands for an SSLContext: wrap_socket blocks for ever / fails / succeeds at once"""

    def __init__(self, vt, mode):
        self.vt = vt
        self.mode = mode

    def session_stats(self):
        return {}

    def wrap_socket(self, sock, server_side=False, server_hostname=None):
        self.vt.tick()
        if self.mode == 'block':
            Event().wait()
        if self.mode == 'fail':
            from gevent.ssl import SSLError
            raise SSLError('handshake failed')
        return sock


def run_server(vt, cfg, inp, opts=None):
    """real Server on a fake socket; inp = [(delay, chunk)], chunk b'' = EOF.
    returns dict(ended, end, end_time, sent, frames)"""
    opts = opts or {}
    with patched(vt):
        sock = VSocket(vt, block_send_at=opts.get('block_send_at'))
        context = FakeServerContext(vt, opts['tls']) if opts.get('tls') else None
        server = srv_mod.Server(sock, object(), context=context, tls_immediately=bool(opts.get('tls_immediately')),
                                auth=opts.get('auth', False),
                                command_timeout=sec(cfg[0]), data_timeout=sec(cfg[1]))
        res = {}

        def session():
            try:
                server.handle()
                res['end'] = 'closed'
            except ConnectionLost:
                res['end'] = 'lost'
            except gevent.GreenletExit:
                res['end'] = 'killed'
            except BaseException as e:
                res['end'] = 'exc:' + type(e).__name__
            finally:
                res['t'] = vt.now
        g = gevent.spawn(session)
        t = 0
        for dl, ch in inp:
            t += dl
            vt.at(t, lambda ch=ch: sock.deliver(ch))
        if vt.realtime:
            g.join(opts.get('watchdog', 2.0))
        else:
            vt.horizon = t + 20 * max(cfg[0] or 0, cfg[1] or 0, 100)
            vt.run()
        stuck = not g.dead
        frames = frames_of(g) if stuck else []
        out = dict(ended=not stuck, end=res.get('end'), end_time=res.get('t'), sent=list(sock.sent), frames=frames,
                   beyond=getattr(vt, 'beyond', False))
        if stuck:
            g.kill(block=False)
            if vt.realtime:
                g.join(0.5)
            else:
                vt.horizon = None
                vt.timers[:] = []
                vt.events[:] = []
                vt.run()
        return out


REPLY_LINE = re.compile(br'^(\d\d\d)( |$)')


def transcript_events(out):
    """what the server did, as the model's events: (0,t) command answered, (1,t) 354,
    (2,t) reply to the message data, (3,t,why) closed"""
    replies = []
    for t, data in out['sent']:
        for line in data.split(b'\r\n'):
            m = REPLY_LINE.match(line)
            if m:
                replies.append((t, int(m.group(1)), line))
    evs = []
    after354 = False
    closed = False
    for t, code, line in replies[1:]:          # [0] is the banner at time 0
        if code == 421 and b'4.4.2' in line:
            evs.append((3, t, 0)); closed = True
        elif code == 221:
            evs.append((3, t, 1)); closed = True
        elif code == 354:
            evs.append((1, t)); after354 = True
        elif after354:
            evs.append((2, t)); after354 = False
        else:
            evs.append((0, t))
    if out['ended'] and not closed and out['end'] == 'lost':
        evs.append((3, out['end_time'], 2))
    if not out['ended']:
        evs.append((4,))
    return evs


def server_oracle(cfg, out, eof_given):
    """the property, on what the implementation did: ended; not later than the command
    timeout after the last reply (data timeout after the 354); a 421 when the peer just
    went silent.  returns None or a description"""
    if not out['ended']:
        if out.get('beyond'):
            return 'session still open 20 timeouts after the peer\'s last byte (it keeps re-arming)'
        return 'session still blocked when no timer and no peer action is left'
    evs = transcript_events(out)
    tc = cfg[0]
    td = cfg[1] if cfg[1] else cfg[0]
    anchor, in_data = 0, False
    for e in evs:
        if e[0] in (0, 2):
            anchor, in_data = e[1], False
        elif e[0] == 1:
            anchor, in_data = e[1], True
    limit = td if in_data else tc
    if out['end_time'] > anchor + limit:
        return 'session ended at %s, later than %s + %s (%s timeout) after the last completed step' % (
            out['end_time'], anchor, limit, 'data' if in_data else 'command')
    closing = [e for e in evs if e[0] == 3]
    if not closing:
        return 'session ended (%s) without a closing reply or EOF' % out['end']
    if closing[-1][2] == 2 and not eof_given:
        return 'session ended with ConnectionLost although the peer neither closed nor was timed out with 421'
    return None


def model_events(o):
    return [tuple(e) for e in o]


# ---- generators (server)
VOCAB = [b'EHLO x', b'HELO x', b'MAIL FROM:<a@b>', b'RCPT TO:<c@d>', b'DATA', b'RSET', b'NOOP', b'QUIT',
         b'BOGUS', b'DATA x', b'QUIT now', b'EHLO', b'MAIL bad', b'RCPT TO:<e@f>', b'mail from: <x@y> ', b'rcpt  to:<z@w>',
         b'NOOP  ', b'', b'STARTTLS', b'AUTH PLAIN', b'data', b'quit', b'123', b'DATA:']
BODIES = [b'Subject: x\r\n\r\nhello\r\n', b'a\r\n..b\r\n', b'line\n', b'x\r\n. \r\ny\r\n', b'one\r\ntwo\r\nthree\r\n']


def gen_conversation(rng):
    """bytes of a mostly-valid session (never an empty message: D1 is C05's business)"""
    out = b''
    state = dict(e=False, m=False, r=False)
    n = rng.randrange(1, 9)
    kinds = 0
    for i in range(n):
        r = rng.random()
        if r < 0.55:
            # steer towards DATA
            if not state['e']:
                c = b'EHLO x'
            elif not state['m']:
                c = b'MAIL FROM:<a@b>'
            elif not state['r']:
                c = b'RCPT TO:<c@d>'
            else:
                c = b'DATA'
        else:
            c = rng.choice(VOCAB)
        up = c.strip().upper()
        out += c + rng.choice([b'\r\n', b'\r\n', b'\n'])
        if up in (b'EHLO X', b'HELO X'):
            state.update(e=True, m=False, r=False)
        elif up.startswith(b'MAIL FROM:') and state['e'] and not state['m']:
            state['m'] = True
        elif (up.startswith(b'RCPT TO:') or up.startswith(b'RCPT  TO:')) and state['m']:
            state['r'] = True
        elif up == b'RSET':
            state.update(m=False, r=False)
        elif up == b'DATA' and state['m'] and state['r']:
            kinds += 1
            out += rng.choice(BODIES)
            if rng.random() < 0.8:
                out += rng.choice([b'.\r\n', b'.\n', b'. \r\n'])
                state.update(m=False, r=False)
            else:
                return out, True       # stays inside DATA
        elif up == b'QUIT':
            break
    return out, False


def chunk_up(rng, data, mode):
    if mode == 'bytes':
        return [data[i:i + 1] for i in range(len(data))]
    if mode == 'lines':
        parts = data.split(b'\n')
        return [p + b'\n' for p in parts[:-1]] + ([parts[-1]] if parts[-1] else [])
    if mode == 'whole':
        return [data] if data else []
    cuts = sorted(set(rng.randrange(1, len(data)) for _ in range(rng.randrange(1, 7)))) if len(data) > 1 else []
    out, p = [], 0
    for c in cuts + [len(data)]:
        if c > p:
            out.append(data[p:c]); p = c
    return out


def gen_server_case(rng):
    tc = rng.choice([100, 100, 200, 50])
    td = rng.choice([None, None, 300, 60, tc])
    data, in_data = gen_conversation(rng)
    mode = rng.choice(['bytes', 'lines', 'whole', 'random', 'random'])
    chunks = chunk_up(rng, data, mode)
    if mode == 'bytes' and len(chunks) > 60:
        chunks = chunk_up(rng, data, 'random')
    big = td or tc
    pool = [0, 0, 1, 5, tc // 2, (tc * 9) // 10, tc - 1, tc, tc + 1, 2 * tc, (big * 9) // 10, big - 1, big + 1]
    style = rng.choice(['fast', 'mixed', 'trickle', 'mixed'])
    inp = []
    for c in chunks:
        if style == 'fast':
            d = rng.choice([0, 1, 2])
        elif style == 'trickle':
            d = (tc * 9) // 10
        else:
            d = rng.choice(pool)
        inp.append((d, c))
    if rng.random() < 0.15:
        inp.append((rng.choice(pool), b''))           # EOF
    return dict(kind='server', cfg=[tc, td], input=inp, style=style, mode=mode)


def systematic_server_cases():
    """stall before banner reply is read, after each command, in the middle of each line,
    inside DATA, after end-of-data; trickle one byte per 0.9*timeout"""
    conv = [b'EHLO x\r\n', b'MAIL FROM:<a@b>\r\n', b'RCPT TO:<c@d>\r\n', b'DATA\r\n', b'Subject: x\r\n', b'\r\n',
            b'body\r\n', b'.\r\n', b'NOOP\r\n', b'QUIT\r\n']
    cases = []
    for cfg in ([100, None], [100, 300], [100, 40]):
        for k in range(len(conv) + 1):
            inp = [(10, c) for c in conv[:k]]
            cases.append(dict(kind='server', cfg=cfg, input=inp, style='stall-after-%d' % k, mode='lines'))
            if k < len(conv):
                half = conv[k][:max(1, len(conv[k]) // 2)]
                cases.append(dict(kind='server', cfg=cfg, input=inp + [(10, half)], style='stall-midline-%d' % k, mode='lines'))
                # trickle the next line one byte per 0.9*command timeout, never finishing it
                tr = [((cfg[0] * 9) // 10, conv[k][i:i + 1]) for i in range(len(conv[k]) - 1)]
                cases.append(dict(kind='server', cfg=cfg, input=inp + tr, style='trickle-line-%d' % k, mode='bytes'))
        # the beginning of the next line arrives in the SAME segment as complete command(s):
        # it is already in recv_buffer when the timer for the next command is armed
        for k in range(len(conv) - 1):
            nxt = conv[k + 1]
            seg = conv[k] + nxt[:max(1, len(nxt) // 2)]
            cases.append(dict(kind='server', cfg=cfg, input=[(10, c) for c in conv[:k]] + [(10, seg)],
                              style='stall-sameseg-%d' % k, mode='lines'))
        cases.append(dict(kind='server', cfg=cfg, input=[(10, b'NOOP\r\nNOO')], style='stall-sameseg-noop', mode='whole'))
        cases.append(dict(kind='server', cfg=cfg, input=[(10, b'EHLO x\r\nRSET\r\nNOOP\r\nMAIL FROM:<a@exam')],
                          style='stall-sameseg-pipelined', mode='whole'))
        cases.append(dict(kind='server', cfg=cfg, input=[(10, c) for c in conv[:4]] + [(10, b'Subject: x\r\n\r\nbody\r\n.\r\nQUI')],
                          style='stall-sameseg-after-eod', mode='whole'))
        cases.append(dict(kind='server', cfg=cfg, input=[(10, b''.join(conv[:4]) + b'Subject: x\r\n\r\nbo')],
                          style='stall-sameseg-into-data', mode='whole'))
        # ... and the rest of that line trickles afterwards, each byte 0.9*timeout apart
        cases.append(dict(kind='server', cfg=cfg, input=[(10, b'NOOP\r\nNO')] + [((cfg[0] * 9) // 10, b'O'), ((cfg[0] * 9) // 10, b'P')],
                          style='trickle-sameseg-noop', mode='whole'))
        # a whole session trickled, every byte 0.9*timeout apart
        alltr = [((cfg[0] * 9) // 10, b''.join(conv)[i:i + 1]) for i in range(len(b''.join(conv)))]
        cases.append(dict(kind='server', cfg=cfg, input=alltr, style='trickle-everything', mode='bytes'))
        # a fast session but the body trickled: cumulative data timeout
        body = b'Subject: x\r\n\r\n' + b'0123456789' * 3 + b'\r\n.\r\n'
        tdv = cfg[1] or cfg[0]
        inp = [(1, c) for c in conv[:4]] + [((tdv * 9) // 10 if i % 3 == 0 else tdv // 4, body[i:i + 1]) for i in range(len(body))]
        cases.append(dict(kind='server', cfg=cfg, input=inp, style='trickle-data', mode='bytes'))
    return cases


def run_server_cases(ctx, cases, use_model):
    outs = []
    for c in cases:
        inp = [(d, bytes(ch)) for d, ch in c['input']]
        outs.append(run_server(VT(), c['cfg'], inp))
    mouts = None
    if use_model:
        mouts = ctx.model.batch('c14_server', [[[c['cfg'][0]], ([c['cfg'][1]] if c['cfg'][1] is not None else []),
                                                 [[d, bytes(ch)] for d, ch in c['input']]] for c in cases])
    for i, (c, out) in enumerate(zip(cases, outs)):
        evs = transcript_events(out)
        eof = any(ch == b'' for d, ch in c['input'])
        nontriv = any(e[0] in (1, 2) for e in evs) or len(evs) > 2
        ctx.evaluated(('server', c['cfg'], [(d, bytes(ch)) for d, ch in c['input']]), nontrivial=nontriv)
        ctx.count('server-style:' + c['style'].split('-')[0])
        why = {0: 'timeout-421', 1: 'quit', 2: 'eof'}.get(evs[-1][2] if evs and evs[-1][0] == 3 else None, 'stuck')
        ctx.count('server-end:' + why + (':in-data' if len(evs) > 1 and evs[-2][0] == 1 else ''))
        if c['style'] in ('trickle-data', 'stall-after-4', 'trickle-line-2') and c['cfg'][1] == 300:
            ctx.sample(dict(kind='server', style=c['style'], cfg=c['cfg'], input=c['input'][:10], impl_events=evs[:12]), cap=3)
        bad = server_oracle(c['cfg'], out, eof)
        if bad:
            key, where = ('c14:server-bound', '')
            if not out['ended'] and not out.get('beyond'):
                key, where = stuck_key(ctx.extra.get('_table'), out['frames'])
            _fail(ctx, key, dict(c, input=[[d, bytes(ch)] for d, ch in c['input']]), '%s %s' % (bad, where))
        if mouts is not None and model_events(mouts[i]) != evs:
            ctx.mismatch('server-trace', dict(c, input=[[d, bytes(ch)] for d, ch in c['input']]), evs, model_events(mouts[i]))


# ---- site-directed stall search (server): blocked writes, handshake, AUTH
def server_site_cases():
    conv = [b'EHLO x\r\n', b'MAIL FROM:<a@b>\r\n', b'RCPT TO:<c@d>\r\n', b'DATA\r\n', b'body\r\n.\r\n', b'QUIT\r\n']
    cases = []
    for k in range(1, 9):
        cases.append(dict(kind='server-site', cfg=[100, None], input=[(10, c) for c in conv], opts=dict(block_send_at=k),
                          style='peer-stops-reading-at-send-%d' % k))
    cases.append(dict(kind='server-site', cfg=[100, None], input=[], opts=dict(block_send_at=2), style='peer-stops-reading-the-421'))
    cases.append(dict(kind='server-site', cfg=[100, None], input=[], opts=dict(tls='block', tls_immediately=True), style='tls-immediately-handshake-stalls'))
    cases.append(dict(kind='server-site', cfg=[100, None], input=[], opts=dict(tls='fail', tls_immediately=True, block_send_at=1),
                      style='tls-immediately-failure-reply-not-read'))
    cases.append(dict(kind='server-site', cfg=[100, None], input=[(10, b'EHLO x\r\n'), (10, b'STARTTLS\r\n')], opts=dict(tls='block'),
                      style='starttls-handshake-stalls'))
    cases.append(dict(kind='server-site', cfg=[100, None], input=[(10, b'EHLO x\r\n'), (10, b'STARTTLS\r\n')], opts=dict(tls='ok', block_send_at=3),
                      style='starttls-go-ahead-not-read'))
    for mech, extra in ((b'LOGIN', []), (b'LOGIN', [(10, b'dXNlcg==\r\n')]), (b'PLAIN', []),
                        (b'LOGIN', [(90, b'd'), (90, b'X'), (90, b'N')])):
        cases.append(dict(kind='server-site', cfg=[100, None], input=[(10, b'EHLO x\r\n'), (10, b'AUTH ' + mech + b'\r\n')] + extra,
                          opts=dict(auth=True), style='auth-%s-then-%s' % (mech.decode().lower(), 'trickle' if len(extra) > 1 else 'silence')))
    return cases


def run_server_site_cases(ctx, cases):
    for c in cases:
        inp = [(d, bytes(ch)) for d, ch in c['input']]
        out = run_server(VT(), c['cfg'], inp, c['opts'])
        ctx.evaluated(('server-site', c['style']), nontrivial=True)
        ctx.count('server-site:' + ('stuck' if not out['ended'] else 'ended'))
        case = dict(c, input=[[d, bytes(ch)] for d, ch in c['input']])
        if not out['ended']:
            key, where = stuck_key(ctx.extra.get('_table'), out['frames'])
            _fail(ctx, key, case, 'server session blocked for ever (%s): %s; command_timeout=%s units, last output %r' % (
                c['style'], where, c['cfg'][0], out['sent'][-1:]))
        else:
            # ended: it must have ended within command_timeout of the last reply
            last = max([t for t, d in out['sent']] + [0])
            if out['end_time'] > last + c['cfg'][0]:
                _fail(ctx, 'c14:server-bound', case, 'session ended at %s > last output %s + %s' % (out['end_time'], last, c['cfg'][0]))


# ===================================================================== client side
class FakeClientContext(object):
    def __init__(self, peer):
        self.peer = peer

    def session_stats(self):
        return {}

    def wrap_socket(self, sock, server_hostname=None):
        self.peer.wait_delay()              # the handshake: one awaited step of the peer
        self.peer.tls_done = True
        if self.peer.a['tls_immediately']:
            self.peer.enqueue(b'220 hi\r\n')
        return sock


class Peer(object):
    """scripted SMTP/LMTP server: answers in order, reply k after delay ds[k] (None:
    never again).  modes at the stall point: silent / midline (half a reply, then
    silence) / trickle (an endless multi-line reply, one byte per `gap`)"""

    def __init__(self, vt, a, ds, mode='silent', gap=90):
        self.vt = vt
        self.a = a
        self.ds = list(ds)
        self.mode = mode
        self.gap = gap
        self.stalled = False
        self.buf = b''
        self.in_data = False
        self.pending = collections.deque()
        self.busy = False
        self.sock = None
        self.tls_done = False
        self.accepted = 0
        self.commands = []
        self.steps = 0
        self.trickled = 0

    def next_delay(self):
        if self.stalled:
            return None
        self.steps += 1
        if not self.ds:
            return 0
        d = self.ds.pop(0)
        if d is None:
            self.stalled = True
        return d

    def wait_delay(self):
        """connect / TLS handshake: blocks the caller for the next delay (for ever on None)"""
        self.vt.tick()
        d = self.next_delay()
        ev = Event()
        if d is not None:
            self.vt.after(d, ev.set)
        ev.wait()
        self.vt.tick()

    def connect(self, address):
        self.wait_delay()
        self.sock = VSocket(self.vt, on_send=self.on_send)
        if not self.a['tls_immediately']:
            self.enqueue(b'220 hi\r\n')
        return self.sock

    def enqueue(self, reply):
        self.pending.append(reply)
        self.pump()

    def pump(self):
        if self.busy or not self.pending or self.stalled:
            return
        d = self.next_delay()
        if d is None:
            self.stall_actions()
            return
        self.busy = True
        self.vt.after(d, self.fire)

    def fire(self):
        r = self.pending.popleft()
        self.busy = False
        self.sock.deliver(r)
        self.pump()

    def stall_actions(self):
        if self.mode == 'midline':
            self.vt.after(1, lambda: self.sock.deliver(self.pending[0][:2]))
        elif self.mode == 'trickle':
            self.vt.after(self.gap, self.trickle)

    def trickle(self):
        text = b'250-' + b'x' * 6 + b'\r\n'
        self.sock.deliver(text[self.trickled % len(text):][:1])
        self.trickled += 1
        if self.trickled < 60:
            self.vt.after(self.gap, self.trickle)

    def on_send(self, data):
        self.buf += data
        while True:
            if self.in_data:
                if self.data_start and self.buf.startswith(b'.\r\n'):
                    self.buf = self.buf[3:]
                else:
                    i = self.buf.find(b'\r\n.\r\n')
                    if i < 0:
                        self.data_start = self.data_start and not self.buf
                        return
                    self.buf = self.buf[i + 5:]
                self.in_data = False
                self.commands.append(b'[EOD]')
                n = self.accepted if self.a['lmtp'] else 1
                for _ in range(n):
                    self.enqueue(b'250 2.0.0 queued\r\n')
                self.accepted = 0
            else:
                i = self.buf.find(b'\r\n')
                if i < 0:
                    return
                line, self.buf = self.buf[:i], self.buf[i + 2:]
                self.command(line)

    def command(self, line):
        self.commands.append(line)
        verb = line.split(b' ')[0].upper()
        a = self.a
        if verb in (b'EHLO', b'LHLO'):
            ext = [b'8BITMIME']
            if a['pipelining']:
                ext.append(b'PIPELINING')
            if a['starttls'] and not a['tls_immediately'] and not self.tls_done:
                ext.append(b'STARTTLS')
            if a['auth']:
                ext.append(b'AUTH PLAIN')
            lines = [b'there'] + ext
            self.enqueue(b''.join(b'250-' + l + b'\r\n' for l in lines[:-1]) + b'250 ' + lines[-1] + b'\r\n')
        elif verb == b'STARTTLS':
            self.enqueue(b'220 2.0.0 go ahead\r\n')
        elif verb == b'AUTH':
            self.enqueue(b'235 2.7.0 ok\r\n')
        elif verb == b'MAIL':
            self.enqueue(b'250 2.1.0 ok\r\n')
        elif verb == b'RCPT':
            if a['reject']:
                self.enqueue(b'550 5.1.1 no\r\n')
            else:
                self.accepted += 1
                self.enqueue(b'250 2.1.5 ok\r\n')
        elif verb == b'DATA':
            self.in_data = True
            self.data_start = True
            self.enqueue(b'354 go\r\n')
        elif verb == b'RSET':
            self.accepted = 0
            self.enqueue(b'250 2.0.0 ok\r\n')
        elif verb == b'QUIT':
            self.enqueue(b'221 2.0.0 bye\r\n')
        else:
            self.enqueue(b'500 5.5.1 what\r\n')


ACFG_KEYS = ('tls_immediately', 'starttls', 'auth', 'pipelining', 'lmtp', 'reject', 'nrcpt')


def acfg_val(a):
    return [int(a[k]) for k in ACFG_KEYS]


def run_client(vt, a, ccfg, ds, mode='silent', watchdog=2.0):
    """one delivery attempt of the real relay client against the scripted peer.
    ccfg = [connect, command, data] in units.  returns dict(result, result_time,
    end_time, stuck, frames, commands)"""
    with patched(vt):
        peer = Peer(vt, a, ds, mode=mode, gap=(ccfg[1] * 9) // 10)
        queue = BlockingDeque()
        result = AsyncResult()
        env = Envelope('sender@example.com', ['rcpt%d@example.com' % i for i in range(a['nrcpt'])])
        env.parse(b'From: sender@example.com\r\nSubject: x\r\n\r\ntest test\r\n')
        queue.append((result, env))
        cls = lc_mod.LmtpRelayClient if a['lmtp'] else rc_mod.SmtpRelayClient
        tls = a['tls_immediately'] or a['starttls']
        client = cls(('192.0.2.1', 25), queue, socket_creator=peer.connect, ehlo_as='there',
                     context=FakeClientContext(peer) if tls else None, tls_immediately=a['tls_immediately'],
                     connect_timeout=sec(ccfg[0]), command_timeout=sec(ccfg[1]), data_timeout=sec(ccfg[2]),
                     credentials=('user', 'passwd') if a['auth'] else None, auth_mechanism=b'PLAIN' if a['auth'] else None)
        res = {}
        result.rawlink(lambda r: res.setdefault('result_t', vt.now))
        client.link(lambda g: res.setdefault('end_t', vt.now))
        client.start()
        if vt.realtime:
            client.join(watchdog)
        else:
            vt.horizon = sum(d for d in ds if d is not None) + (len(ds) + 80) * max(ccfg)
            vt.run()
        stuck = not client.dead
        frames = frames_of(client) if stuck else []
        out = dict(stuck=stuck, frames=frames, result_time=res.get('result_t'), end_time=res.get('end_t'),
                   commands=list(peer.commands), steps=peer.steps, handshakes=int(bool(tls)),
                   greenlet_error=(type(client.exception).__name__ if client.dead and client.exception is not None else None))
        if result.ready():
            exc = result.exception
            if exc is None:
                out['result'] = 'ok'
            elif isinstance(exc, TransientRelayError):
                out['result'] = 'transient'
            elif isinstance(exc, PermanentRelayError):
                out['result'] = 'permanent'
            else:
                out['result'] = 'other:' + type(exc).__name__
        else:
            out['result'] = None
        out['beyond'] = getattr(vt, 'beyond', False)
        if stuck:
            client.kill(block=False)
            if vt.realtime:
                client.join(0.5)
            else:
                vt.horizon = None
                vt.timers[:] = []
                vt.events[:] = []
                vt.run()
        return out


def run_client_reuse(vt, a, ccfg, scenario, watchdog=3.0):
    """two deliveries over ONE connection (idle_timeout set).  Delivery #1 is answered at
    once; while the client idles in poll() the scenario happens, then delivery #2 is queued.
      ('unterminated',)  the server writes the beginning of a reply line, no CRLF, and goes silent
      ('silent-idle',)   the server just goes silent (nothing to read): #2 stalls at MAIL
      ('stall', j)       delivery #2 is answered until its j-th reply, then silence
    returns dict(result2, result2_time, enq_time, end_time, stuck, frames, commands)"""
    idle = 10 * ccfg[1]
    with patched(vt):
        peer = Peer(vt, a, [], mode='silent', gap=(ccfg[1] * 9) // 10)
        queue = BlockingDeque()

        def envelope():
            e = Envelope('sender@example.com', ['rcpt%d@example.com' % i for i in range(a['nrcpt'])])
            e.parse(b'From: sender@example.com\r\nSubject: x\r\n\r\ntest test\r\n')
            return e
        r1, r2 = AsyncResult(), AsyncResult()
        queue.append((r1, envelope()))
        cls = lc_mod.LmtpRelayClient if a['lmtp'] else rc_mod.SmtpRelayClient
        client = cls(('192.0.2.1', 25), queue, socket_creator=peer.connect, ehlo_as='there',
                     connect_timeout=sec(ccfg[0]), command_timeout=sec(ccfg[1]), data_timeout=sec(ccfg[2]),
                     idle_timeout=sec(idle))
        res = {}

        def after_first(r):
            res['r1_t'] = vt.now

            def happen():
                if scenario[0] == 'unterminated':
                    peer.stalled = True
                    peer.sock.deliver(b'421 4.4.2 idle timeo')
                elif scenario[0] == 'silent-idle':
                    peer.stalled = True
                elif scenario[0] == 'stall':
                    peer.ds = [0] * scenario[1] + [None]

            def enqueue():
                res['enq_t'] = vt.now
                queue.append((r2, envelope()))
            vt.after(5, happen)
            vt.after(10, enqueue)
        r1.rawlink(after_first)
        r2.rawlink(lambda r: res.setdefault('r2_t', vt.now))
        client.link(lambda g: res.setdefault('end_t', vt.now))
        client.start()
        if vt.realtime:
            client.join(watchdog)
        else:
            vt.horizon = 60 * max(ccfg) + idle * 3
            vt.run()
        stuck = not client.dead
        out = dict(stuck=stuck, frames=frames_of(client) if stuck else [], first=('ok' if r1.successful() else 'failed' if r1.ready() else None),
                   result2_time=res.get('r2_t'), enq_time=res.get('enq_t'), end_time=res.get('end_t'),
                   commands=list(peer.commands), beyond=getattr(vt, 'beyond', False))
        if r2.ready():
            exc = r2.exception
            out['result2'] = ('ok' if exc is None else 'transient' if isinstance(exc, TransientRelayError)
                              else 'permanent' if isinstance(exc, PermanentRelayError) else 'other:' + type(exc).__name__)
        else:
            out['result2'] = None
        if stuck:
            client.kill(block=False)
            if vt.realtime:
                client.join(0.5)
            else:
                vt.horizon = None
                vt.timers[:] = []
                vt.events[:] = []
                vt.run()
        return out


def reuse_cases():
    cases = []
    for lmtp in (0, 1):
        for pipe in (0, 1):
            a = dict(tls_immediately=0, starttls=0, auth=0, pipelining=pipe, lmtp=lmtp, reject=0, nrcpt=2)
            n2 = 1 + a['nrcpt'] + 1 + (a['nrcpt'] if lmtp else 1)          # replies of delivery #2
            scen = [('unterminated',), ('silent-idle',)] + [('stall', j) for j in range(n2)]
            for sc in scen:
                cases.append(dict(kind='client-reuse', a=a, ccfg=[50, 100, 300], scenario=list(sc)))
    return cases


def run_reuse_cases(ctx, cases, table):
    for c in cases:
        out = run_client_reuse(VT(), c['a'], c['ccfg'], tuple(c['scenario']))
        ctx.evaluated(('client-reuse', acfg_val(c['a']), c['scenario']), nontrivial=True)
        ctx.count('client-reuse:%s:%s' % (c['scenario'][0], out['result2']))
        ccfg = c['ccfg']
        bad = None
        if out['first'] != 'ok':
            bad = 'delivery #1 (everything answered at once) ended %r' % (out['first'],)
        elif out['result2'] is None:
            bad = 'delivery #2 on the reused connection never returned'
        elif out['result2'] != 'transient':
            bad = 'the server stalled during delivery #2 but it ended with %r, not a transient failure' % (out['result2'],)
        elif out['result2_time'] > out['enq_time'] + (2 + c['a']['nrcpt'] + 1) * ccfg[1] + ccfg[2]:
            bad = 'delivery #2 queued at %s returned at %s, later than (#exchanges)*command + data' % (out['enq_time'], out['result2_time'])
        elif out['stuck']:
            bad = 'result delivered but the client greenlet stays blocked for ever'
        if bad:
            key, where = 'c14:client-bound', ''
            if out['stuck']:
                key, where = stuck_key(table, out['frames'])
            _fail(ctx, key, c, '%s %s (commands seen by the peer: %r)' % (bad, where, out['commands'][-5:]))
    ctx.sample(dict(kind='client-reuse', case=cases[0], note='second delivery on an idle reused connection'), cap=8)


def total_waits(a):
    """how many peer steps (replies, connect, handshakes) the attempt awaits before its
    result is delivered -- the harness's own count (not taken from the model)"""
    n = 1                                                   # connect
    n += 1 if a['tls_immediately'] else 0
    n += 2                                                  # banner, EHLO/LHLO
    if a['starttls'] and not a['tls_immediately']:
        n += 3                                              # 220, handshake, EHLO
    n += 1 if a['auth'] else 0
    n += 1 + a['nrcpt'] + 1                                 # MAIL, RCPT.., DATA
    if a['reject']:
        n += 0 if (a['lmtp'] or a['pipelining']) else 1     # reply to the lone '.'
    else:
        n += a['nrcpt'] if a['lmtp'] else 1
    return n


def client_oracle(a, ccfg, ds, out):
    if out['result'] is None:
        return 'attempt never returned: client blocked for ever'
    # connect + (#exchanges) * command + data, exchanges counted from what the peer saw
    nx = len(out['commands']) + 1 + 2 * out['handshakes']
    bound = ccfg[0] + nx * ccfg[1] + ccfg[2]
    if out['result_time'] > bound:
        return 'attempt returned at %s, later than connect + %d*command + data = %s' % (out['result_time'], nx, bound)
    stalled = any(d is None for d in ds[:total_waits(a)])
    if stalled and out['result'] != 'transient':
        return 'peer stalled but the attempt ended with %r, not a transient failure' % (out['result'],)
    if out['stuck']:
        return 'result delivered but the client greenlet stays blocked for ever'
    if out['end_time'] is not None and out['end_time'] > out['result_time'] + 2 * ccfg[1]:
        return 'client greenlet ended at %s, later than result %s + 2*command' % (out['end_time'], out['result_time'])
    return None


def all_acfgs(quick):
    out = []
    for lmtp in (0, 1):
        for pipe in (0, 1):
            for tls_i, st in ((0, 0), (1, 0), (0, 1)):
                for auth in (0, 1):
                    for reject in (0, 1):
                        for n in ((1, 2) if quick else (1, 2, 3)):
                            out.append(dict(tls_immediately=tls_i, starttls=st, auth=auth, pipelining=pipe, lmtp=lmtp,
                                            reject=reject, nrcpt=n))
    return out


def gen_client_cases(ctx, acfgs, nrandom=2):
    """stall at every awaited step (silent / mid-line / endless trickle), slow-but-in-time
    peers (every reply after 0.9*timeout), random delays"""
    rng = ctx.rng
    cases = []
    ccfgs = [[50, 100, 300], [80, 100, 100], [100, 60, 200]]
    for idx, a in enumerate(acfgs):
        w = total_waits(a)
        ccfg = ccfgs[idx % len(ccfgs)]
        for j in range(w):
            mode = ('silent', 'midline', 'trickle')[(idx + j) % 3]
            ds = [rng.choice([0, 0, 1, 7]) for _ in range(j)] + [None]
            cases.append(dict(kind='client', a=a, ccfg=ccfg, ds=ds, mode=mode, style='stall-at-%d' % j))
        slow = [(min(ccfg) * 9) // 10 // max(1, a['nrcpt'] + 2)] * w
        cases.append(dict(kind='client', a=a, ccfg=ccfg, ds=slow, mode='silent', style='slow'))
        cases.append(dict(kind='client', a=a, ccfg=ccfg, ds=[0] * w, mode='silent', style='fast'))
        for _ in range(nrandom):
            pool = [0, 1, 5, 20, ccfg[1] // 3, (ccfg[1] * 9) // 10, ccfg[1] - 1, ccfg[1], ccfg[1] + 1, ccfg[0] - 1, ccfg[0] + 1, ccfg[2] - 1, ccfg[2], None]
            ds = [rng.choice(pool) for _ in range(w)]
            cases.append(dict(kind='client', a=a, ccfg=ccfg, ds=ds, mode=rng.choice(['silent', 'trickle']), style='random'))
    return cases


def run_client_cases(ctx, cases, table, use_model):
    stage_cache = {}
    if use_model:
        tv = table_val(table['sites'])
        keys = []
        for c in cases:
            k = tuple(acfg_val(c['a']))
            if k not in stage_cache:
                stage_cache[k] = None
                keys.append(k)
        sts = ctx.model.batch('c14_stages', [[tv, list(k)] for k in keys])
        for k, s in zip(keys, sts):
            stage_cache[k] = s
    outs = []
    for c in cases:
        outs.append(run_client(VT(), c['a'], c['ccfg'], c['ds'], mode=c['mode']))
    mouts = None
    if use_model:
        mouts = ctx.model.batch('c14_client', [[c['ccfg'] + [0], stage_cache[tuple(acfg_val(c['a']))],
                                                 [([] if d is None else [d]) for d in c['ds']]] for c in cases])
    for i, (c, out) in enumerate(zip(cases, outs)):
        a = c['a']
        ctx.evaluated(('client', acfg_val(a), c['ccfg'], c['ds'], c['mode']), nontrivial=True)
        ctx.count('client-style:' + c['style'].split('-')[0] + ':' + c['mode'])
        ctx.count('client:%s:%s' % ('lmtp' if a['lmtp'] else 'smtp', 'pipelining' if a['pipelining'] else 'nopipelining'))
        ctx.count('client-result:%s' % out['result'])
        if out['greenlet_error']:
            ctx.count('client-greenlet-died-with:' + out['greenlet_error'])
            if out['greenlet_error'] == 'AssertionError':
                ctx.note('after a connect timeout / refused connect SmtpRelayClient._run calls _disconnect() with self.client still None: '
                         'the client greenlet dies with AssertionError (result already delivered; reported, not judged by C14)')
        if i % 400 == 0:
            ctx.sample(dict(kind='client', a=a, ccfg=c['ccfg'], ds=c['ds'], mode=c['mode'], result=out['result'],
                            result_time=out['result_time'], end_time=out['end_time']), cap=6)
        bad = client_oracle(a, c['ccfg'], c['ds'], out)
        if bad:
            key, where = 'c14:client-bound', ''
            if out['stuck']:
                key, where = stuck_key(table, out['frames'])
            _fail(ctx, key, c, '%s %s (commands seen by the peer: %r)' % (bad, where, out['commands'][-4:]))
        if mouts is not None:
            mo = mouts[i]
            if out['result'] is None:
                impl = (2,)
            elif out['result'] == 'transient':
                impl = (1, out['result_time'])
            else:
                impl = (0, out['result_time'])
            model = (mo[0], mo[2]) if mo[0] == 1 else ((0, mo[1]) if mo[0] == 0 else (2,))
            if impl != model:
                ctx.mismatch('client-outcome', c, impl, mo)


# ===================================================================== real time
def realtime_cases(ctx, table):
    """a few cases on the real clock with real gevent.Timeout, run concurrently; violation
    = still blocked at the watchdog (many times the timeout)"""
    jobs = []
    T = 100          # 0.1 s
    WD = 2.5

    def client_job(name, a, ds, mode):
        vt = RT()
        out = run_client(vt, a, [T, T, T], ds, mode=mode, watchdog=WD)
        vt.cleanup()
        return ('client', name, dict(a=a, ccfg=[T, T, T], ds=ds, mode=mode), out)

    def server_job(name, cfg, inp):
        vt = RT()
        out = run_server(vt, cfg, inp, dict(watchdog=WD))
        vt.cleanup()
        return ('server', name, dict(cfg=cfg, input=[[d, bytes(c)] for d, c in inp]), out)

    base = dict(tls_immediately=0, starttls=0, auth=0, pipelining=1, lmtp=0, reject=0, nrcpt=2)
    for lmtp in (0, 1):
        for pipe in (0, 1):
            a = dict(base, lmtp=lmtp, pipelining=pipe)
            w = total_waits(a)
            last = w - (a['nrcpt'] if lmtp else 1)
            jobs.append(gevent.spawn(client_job, 'stall-after-end-of-data', a, [0] * last + [None], 'silent'))
            jobs.append(gevent.spawn(client_job, 'trickle-at-banner', a, [0, None], 'trickle'))
    conv = [b'EHLO x\r\n', b'MAIL FROM:<a@b>\r\n', b'RCPT TO:<c@d>\r\n', b'DATA\r\n']
    jobs.append(gevent.spawn(server_job, 'silent-after-banner', [T, None], []))
    jobs.append(gevent.spawn(server_job, 'trickle-line', [T, None], [(90, b'N'), (90, b'O'), (90, b'O'), (90, b'P')]))
    jobs.append(gevent.spawn(server_job, 'trickle-data', [T, 2 * T], [(5, c) for c in conv] + [(90, b'a'), (90, b'b'), (90, b'c'), (90, b'd')]))
    gevent.joinall(jobs, timeout=WD * 3)
    for j in jobs:
        if not j.successful():
            raise RuntimeError('real-time job failed: %r' % (j.exception,))
        kind, name, case, out = j.value
        ctx.evaluated(('realtime', kind, name, json.dumps(core.jsonable(case), sort_keys=True)), nontrivial=True)
        ctx.count('realtime:' + kind)
        case = dict(kind='realtime-' + kind, name=name, **case)
        if kind == 'client':
            if out['result'] is None or out['stuck']:
                key, where = stuck_key(table, out['frames'])
                _fail(ctx, key, case, 'real clock: attempt/client still blocked %.1fs after start with all timeouts %.1fs: %s' % (WD, T / UNIT, where))
            elif out['result_time'] > 4 * T + 1500:
                _fail(ctx, 'c14:client-bound', case, 'real clock: result after %s ms' % out['result_time'])
        else:
            if not out['ended']:
                key, where = stuck_key(table, out['frames'])
                _fail(ctx, key, case, 'real clock: session still blocked %.1fs after start: %s' % (WD, where))
            else:
                evs = transcript_events(out)
                if not any(e[0] == 3 and e[2] == 0 for e in evs):
                    _fail(ctx, 'c14:server-bound', case, 'real clock: session ended without the 421: %r' % (evs,))
                lo = {'silent-after-banner': T, 'trickle-line': T, 'trickle-data': 20 + 2 * T}[name]
                if out['end_time'] < lo - 15:
                    ctx.mismatch('realtime-early', case, out['end_time'], lo)
                if out['end_time'] > lo + 1500:
                    _fail(ctx, 'c14:server-bound', case, 'real clock: session ended after %s ms, expected about %s' % (out['end_time'], lo))


class RecordingSubprocess(object):
    """slimta.relay.pipe.subprocess with a Popen that remembers its children"""

    def __init__(self, real):
        self.real = real
        self.PIPE = real.PIPE
        self.children = []

    def Popen(self, *a, **kw):
        p = self.real.Popen(*a, **kw)
        self.children.append(p)
        return p


def pipe_cases(ctx, table):
    tmp = tempfile.mkdtemp(prefix='c14-', dir='/tmp')
    rec = RecordingSubprocess(pipe_mod.subprocess)
    old = pipe_mod.subprocess
    pipe_mod.subprocess = rec
    try:
        script = os.path.join(tmp, 'slow.sh')
        with open(script, 'w') as f:
            f.write('#!/bin/sh\ncat >/dev/null\nsleep 4\n')
        os.chmod(script, 0o755)
        quickscript = os.path.join(tmp, 'ok.sh')
        with open(quickscript, 'w') as f:
            f.write('#!/bin/sh\ncat >/dev/null\nexit 0\n')
        os.chmod(quickscript, 0o755)
        T = 0.15
        WD = 2.5

        def env(n):
            e = Envelope('sender@example.com', ['rcpt%d@example.com' % i for i in range(n)])
            e.parse(b'From: sender@example.com\r\n\r\ntest\r\n')
            return e

        def job(name, relay, n):
            t0 = time.time()
            try:
                r = relay.attempt(env(n), 0)
                kind = 'returned'
                if isinstance(r, dict):
                    kind = 'dict:' + ','.join(sorted(set(type(v).__name__ for v in r.values())))
            except TransientRelayError:
                kind = 'transient'
            except PermanentRelayError:
                kind = 'permanent'
            except Exception as e:
                kind = 'exc:' + type(e).__name__
            return name, kind, time.time() - t0

        specs = [('pipe-per-recipient-1', pipe_mod.PipeRelay([script, '{recipient}'], timeout=T), 1),
                 ('pipe-per-recipient-3', pipe_mod.PipeRelay([script, '{recipient}'], timeout=T), 3),
                 ('maildrop', pipe_mod.MaildropRelay(path=script, timeout=T), 1),
                 ('dovecot-lda', pipe_mod.DovecotLdaRelay(path=script, timeout=T), 1),
                 ('pipe-fast', pipe_mod.PipeRelay([quickscript], timeout=T), 2)]
        gs = [(name, n, gevent.spawn(job, name, relay, n)) for name, relay, n in specs]
        gevent.joinall([g for _, _, g in gs], timeout=WD)
        for name, n, g in gs:
            case = dict(kind='pipe', name=name, timeout=T, recipients=n)
            ctx.evaluated(('pipe', name), nontrivial=True)
            ctx.count('realtime:pipe')
            if not g.dead:
                key, where = stuck_key(table, frames_of(g))
                _fail(ctx, key, case, 'pipe relay attempt still blocked after %.1fs with timeout %.2fs: %s' % (WD, T, where))
                g.kill(block=False)
                continue
            _, kind, el = g.value
            ctx.count('pipe-result:' + kind)
            if name == 'pipe-fast':
                if el > T:
                    ctx.mismatch('pipe-fast', case, el, T)
                continue
            if el < T - 0.02:
                ctx.mismatch('pipe-early', case, el, T)
            if el > T + 1.5:
                _fail(ctx, 'c14:pipe-bound', case, 'attempt took %.2fs with single timeout %.2fs' % (el, T))
            if not (kind == 'transient' or kind.startswith('dict:TransientRelayError')):
                _fail(ctx, 'c14:pipe-result', case, 'timed-out attempt ended with %s, not a transient failure' % kind)
    finally:
        pipe_mod.subprocess = old
        for p in rec.children:
            try:
                p.kill()
            except Exception:
                pass
        shutil.rmtree(tmp, ignore_errors=True)


class SilentConn(object):
    """HTTPConnection whose server accepts the request and never answers"""

    def __init__(self):
        self.closed = False
        self.host = 'stub'

    def putrequest(self, *a): pass
    def putheader(self, *a): pass
    def endheaders(self, *a): pass
    def send(self, *a): pass

    def getresponse(self):
        Event().wait()

    def close(self):
        self.closed = True


def http_case(ctx, table):
    T = 0.15
    WD = 2.0
    old = http_mod.get_connection
    http_mod.get_connection = lambda url, context=None: SilentConn()
    try:
        relay = http_mod.HttpRelay('http://stub.invalid/path', timeout=T, ehlo_as='there')
        env = Envelope('sender@example.com', ['rcpt@example.com'])
        env.parse(b'From: sender@example.com\r\n\r\ntest\r\n')
        res = {}

        def job():
            t0 = time.time()
            try:
                relay.attempt(env, 0)
                res['kind'] = 'returned'
            except TransientRelayError:
                res['kind'] = 'transient'
            except Exception as e:
                res['kind'] = 'exc:' + type(e).__name__
            res['el'] = time.time() - t0
        g = gevent.spawn(job)
        g.join(WD)
        clients = list(relay.pool)
        case = dict(kind='http', timeout=T)
        ctx.evaluated(('http', 'silent-stub'), nontrivial=True)
        ctx.count('realtime:http')
        if g.dead:
            ctx.count('http-result:' + res.get('kind', '?'))
            if res['el'] > T + 1.5:
                _fail(ctx, 'c14:http-bound', case, 'attempt took %.2fs with timeout %.2fs' % (res['el'], T))
            if res.get('kind') != 'transient':
                _fail(ctx, 'c14:http-result', case, 'timed-out HTTP attempt ended with %s, not a transient failure' % res.get('kind'))
        else:
            alive = [c for c in clients if not c.dead]
            if alive:
                key, where = stuck_key(table, frames_of(alive[0]))
                _fail(ctx, key, case, 'HTTP relay client still blocked %.1fs after start with timeout %.2fs: %s' % (WD, T, where))
            else:
                ctx.count('http-result:never-completed')
                _fail(ctx, 'c14:http-result-never-completed', case,
                      'the HTTP client greenlet ended at its timeout (%.2fs) but never completed the result: '
                      'HttpRelay.attempt() is still waiting after %.1fs' % (T, WD))
            g.kill(block=False)
        for c in clients:
            c.kill(block=False)
    finally:
        http_mod.get_connection = old


# ===================================================================== table checks in the harness
def table_checks(ctx, table, use_model):
    sites = table['sites']
    ctx.note('table this run: %d methods scanned, %d sites (%d waiting for the peer), %d calls classified pure; unguarded: %s' % (
        table['stats']['methods'], len(sites), sum(1 for s in sites if s['kind'] in NEEDS_GUARD), table['stats']['pure_calls'],
        sorted(set('%s:%s' % (u['method'], u['callee']) for u in table['unguarded']))))
    known = set(known_unguarded_of_prop())
    ung = set((u['method'], u['callee']) for u in table['unguarded'])
    for k in sorted(known - ung):
        ctx.note('prop/C14.v lists %s:%s as known-unguarded but the current source has no such unguarded site (stale exception)' % k)
    jf = set(tuple(f['key'].split(':')[2:4]) for f in ctx.known if f.get('status') == 'known' and f['key'].startswith('c14:unguarded:'))
    if jf != known:
        ctx.note('known_findings.json (c14:unguarded:*) and known_unguarded of prop/C14.v differ: only-in-json=%s only-in-prop=%s' % (
            sorted(jf - known), sorted(known - jf)))
    ctx.evaluations += len(sites)
    ctx.count('table-sites', len(sites))
    for s in sites:
        if s['kind'] in NEEDS_GUARD:
            ctx.count('table-kind:' + s['kind'])
    if use_model:
        tv = table_val(sites)
        mu = ctx.model.call('c14_unguarded', tv)
        m = sorted((B(x[0]).decode(), B(x[1]).decode(), B(x[2]).decode(), x[3]) for x in mu)
        p = sorted((u['cls'], u['method'], u['callee'], u['line']) for u in table['unguarded'])
        if m != p:
            ctx.mismatch('unguarded-resolution', dict(kind='table'), p, m)
        ok = ctx.model.call('c14_all_guarded', [[[a.encode(), b.encode()] for a, b in sorted(known)], tv])
        if not ok:
            ctx.mismatch('all-guarded', dict(kind='table', known=sorted(known)), 'theorem compiled', 'model says false')
        sc = ctx.model.call('c14_model_scopes', tv)
        if tuple(sc) != (1, 1, 1):
            ctx.mismatch('model-scopes', dict(kind='table'), (1, 1, 1), sc)
    return known


# ===================================================================== entry points
def run(ctx):
    ctx.extra['rule'] = (
        'table: every call in every method of the 7 scanned classes classified (fail-closed), all_guarded proved over it each run; '
        'server (virtual time): systematic stalls after every command / mid-line / inside DATA / after end-of-data, trickles one byte per 0.9*timeout, '
        'random conversations from a 24-command vocabulary under byte/line/whole/random chunking with delays around the timeouts, EOF; '
        'client (virtual time): every combination of SMTP/LMTP x PIPELINING x (none|tls_immediately|STARTTLS) x AUTH x accepted/refused recipients x 1-3 recipients, '
        'stall at every awaited step (silent, half a reply, endless trickle), slow-but-in-time and random delays; '
        'server: half a line in the SAME segment as complete command(s) / a pipelined group / the end-of-data marker, then silence or trickle; '
        'client on a reused idle connection (idle_timeout set): the server writes an unterminated reply line and goes silent before delivery #2, '
        'or stalls at every step of delivery #2 (oracle only, not modelled); '
        'site-directed server cases (peer stops reading at the k-th write, TLS handshake stalls, AUTH exchange stalls); '
        'real clock: 11 SMTP/LMTP/server cases, pipe relay with a sleeping script, HTTP relay with a silent stub; '
        'every case counts as non-trivial except server conversations that ended before any command was answered')
    ctx.extra['trusted_base'] = [
        'tools/timeouts_ast.py (fail-closed classification tables; only calls, not property loads; lexical scopes)',
        'virtual Timeout / fake sockets / scripted peer of harness/props/c14.py; real-clock cases only as sanity',
        'real timers, TLS and OS behaviour are NOT modelled: level of this check is partial (lexical-scope table + timed model + stall runs)',
    ]
    table_broken = ctx.extra.get('c14_table_broken')
    use_model = not table_broken
    import logging
    lg = logging.getLogger('slimta')
    if not lg.handlers:
        lg.addHandler(logging.NullHandler())
    lg.propagate = False
    hub = get_hub()
    old_not_error = hub.NOT_ERROR
    hub.NOT_ERROR = tuple(old_not_error) + (AssertionError,)      # see the note about _disconnect below
    try:
        with wait_read_patched():
            _run(ctx, table_broken, use_model)
    finally:
        hub.NOT_ERROR = old_not_error


def _run(ctx, table_broken, use_model):
    table, msg = load_table()
    if table is None:
        # reported as a broken obligation by build_failure(); without a table the stall runs
        # cannot attribute a blocked greenlet to a call site, so only that is reported
        ctx.note('translator rejected the current source: ' + msg[:300])
        ctx.evaluated(('translator-rejected', msg[:100]))
        ctx.sample(dict(kind='translator-rejected', message=msg[:300]))
        return
    ctx.extra['_table'] = table
    table_checks(ctx, table, use_model)
    quick = ctx.quick
    # server
    cases = systematic_server_cases()
    cases += [gen_server_case(ctx.rng) for _ in range(2000 if quick else 30000)]
    run_server_cases(ctx, cases, use_model)
    run_server_site_cases(ctx, server_site_cases())
    # client
    run_client_cases(ctx, gen_client_cases(ctx, all_acfgs(quick), 4 if quick else 16), table, use_model)
    run_reuse_cases(ctx, reuse_cases(), table)
    # real clock
    realtime_cases(ctx, table)
    pipe_cases(ctx, table)
    http_case(ctx, table)
    ctx.extra.pop('_table', None)
    ctx.extra.pop('_c14_fail_count', None)
    if table_broken:
        ctx.note('table obligation broken: %s -- correspondence with the model skipped, oracle and stall search only' % table_broken)


THEOREM_RE = re.compile(r'^\s*(Theorem|Lemma|Example)\s+(\w+)', re.M)
TABLE_THEOREMS = ('C14_table_all_guarded', 'C14_table_model_scopes', 'C14_client_bound_table')


def failing_theorem(msg):
    m = re.search(r'File "\./prop/C14\.v", line (\d+)', msg)
    if not m:
        return None
    line = int(m.group(1))
    name = None
    for i, l in enumerate(open(os.path.join(core.COQ, 'prop', 'C14.v')).read().split('\n'), 1):
        t = THEOREM_RE.match(l)
        if t and i <= line:
            name = t.group(2)
    return name


def build_failure(ctx, rc, msg):
    """the build failed.  If that is because an obligation over the regenerated table no
    longer holds, describe it (the main program then reports a VIOLATION, and `run`
    searches for the concrete stall); anything else stays a broken check (None)."""
    table, tmsg = load_table()
    if table is None:
        desc = ('the table of blocking call sites can no longer be regenerated from the current source '
                '(tools/timeouts_ast.py is fail-closed and rejects it: %s); C14_table_all_guarded and '
                'C14_table_model_scopes are no longer shown to hold' % (tmsg or '').strip()[:400])
        ctx.extra['c14_table_broken'] = desc
        print('C14: ' + desc)
        return desc
    known = set(known_unguarded_of_prop())
    new = [u for u in table['unguarded'] if (u['method'], u['callee']) not in known]
    thm = failing_theorem(msg)
    if new:
        desc = 'C14_table_all_guarded no longer holds: blocking call outside every Timeout scope: ' + '; '.join(
            '%s:%d %s.%s -> %s [%s]' % (u['file'], u['line'], u['cls'], u['method'], u['callee'], u['kind']) for u in new)
    elif thm in TABLE_THEOREMS:
        desc = '%s no longer holds over the regenerated table (a scope changed its timeout expression or a method of the attempt path lost its single scope)' % thm
    else:
        return None
    ctx.extra['c14_table_broken'] = desc
    print('C14: ' + desc)
    return desc


def replay(ctx, case):
    c = case.get('case', case)

    def unhex(x):
        return bytes.fromhex(x['hex']) if isinstance(x, dict) else (x.encode('latin1') if isinstance(x, str) else x)
    table, _ = load_table()
    kind = c.get('kind')
    print('case:', json.dumps(core.jsonable(c))[:1500])
    if kind in ('server', 'server-site', 'realtime-server'):
        inp = [(d, unhex(ch)) for d, ch in c['input']]
        vt = RT() if kind == 'realtime-server' else VT()
        out = run_server(vt, c['cfg'], inp, c.get('opts') or {})
        print('implementation: ended=%s end=%s end_time=%s events=%r' % (out['ended'], out['end'], out['end_time'], transcript_events(out)))
        if not out['ended']:
            print('blocked in:', stuck_key(table, out['frames']))
        if ctx.model and kind == 'server':
            print('model         :', ctx.model.call('c14_server', [[c['cfg'][0]], ([c['cfg'][1]] if c['cfg'][1] is not None else []), [[d, ch] for d, ch in inp]]))
        return 0
    if kind == 'client-reuse':
        with wait_read_patched():
            out = run_client_reuse(VT(), c['a'], c['ccfg'], tuple(c['scenario']))
        print('implementation:', dict((k, v) for k, v in out.items() if k != 'frames'))
        if out['stuck']:
            print('blocked in:', stuck_key(table, out['frames']))
        return 0
    if kind in ('client', 'realtime-client'):
        vt = RT() if kind == 'realtime-client' else VT()
        with wait_read_patched():
            out = run_client(vt, c['a'], c['ccfg'], c['ds'], mode=c.get('mode', 'silent'))
        print('implementation: result=%s result_time=%s end_time=%s stuck=%s commands=%r' % (
            out['result'], out['result_time'], out['end_time'], out['stuck'], out['commands']))
        if out['stuck']:
            print('blocked in:', stuck_key(table, out['frames']))
        if ctx.model and table:
            st = ctx.model.call('c14_stages', [table_val(table['sites']), acfg_val(c['a'])])
            print('model stages  :', st)
            print('model outcome :', ctx.model.call('c14_client', [c['ccfg'] + [0], st, [([] if d is None else [d]) for d in c['ds']]]))
        return 0
    print('(pipe / http cases are re-run by the check itself)')
    return 0
