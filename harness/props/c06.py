"""C06 - a relay hop preserves sender, recipients and content end to end.

Correspondence of model/Hop.v with the real codecs (Client.mailfrom/rcptto,
Server._command_MAIL/_command_RCPT/find_outside_quotes/_gather_params,
IO.recv_command, Extensions.build_string/parse_string, base64, the HTTP relay's
_build_headers/_parse_smtp_reply_header, the WSGI edge's _get_sender/
_get_recipients/_build_http_response), and the property oracle on REAL hops:
SmtpRelayClient / LmtpRelayClient connected to SmtpEdge (slimta.smtp.server.Server
+ SmtpSession) through in-memory duplex sockets, HttpRelayClient connected to
WsgiEdge through gevent.pywsgi over an AF_UNIX socketpair (no network)."""
import re, io, itertools, base64, binascii

import gevent
from gevent.event import Event, AsyncResult
from gevent import socket as gsocket

from vp.core import B, U, canon
from vp.fakes import ScriptSocket

import slimta.edge.smtp as edge_smtp_mod
import slimta.edge.wsgi as edge_wsgi_mod
import slimta.relay.http as relay_http_mod
from slimta.edge.smtp import SmtpEdge, SmtpSession
from slimta.edge.wsgi import WsgiEdge, _build_http_response
from slimta.relay.smtp.client import SmtpRelayClient
from slimta.relay.smtp.lmtpclient import LmtpRelayClient
from slimta.relay.http import HttpRelay, HttpRelayClient
from slimta.relay import RelayError, PermanentRelayError, TransientRelayError
from slimta.relay.smtp import SmtpRelayError
from slimta.queue import QueueError
from slimta.envelope import Envelope
from slimta.util.deque import BlockingDeque
from slimta.smtp.client import Client
from slimta.smtp.server import Server, find_outside_quotes, from_pattern, to_pattern
from slimta.smtp.extensions import Extensions
from slimta.smtp.io import IO
from slimta.smtp.reply import Reply
from slimta.http import HTTPConnection

from props import c20 as C20
from props import c05 as C05

ASSUMPTIONS = [
    'valid address = RFC 5321 Mailbox (dot-string or quoted-string local part, domain or address literal), RFC 6531 UTF8-non-ascii allowed only when the server advertises SMTPUTF8; null sender = empty string',
    'header blocks of the hops are of the class of C20 (every line <= 78 bytes, no white-space-only continuation); what email does outside it is judged by C20',
    'server configurations: PIPELINING / 8BITMIME / SMTPUTF8 switched off by removing the extension from Server.extensions right after construction (the edge has no parameter for it); SIZE via max_size; AUTH advertised (auth=True) without credentials on the client; STARTTLS not exercised here (C08)',
    'HELO fallback: a validator answers EHLO with 500',
    'LMTP: the library has no LMTP edge; LmtpRelayClient is connected to the SMTP edge through a harness subclass of Server that accepts LHLO like EHLO and repeats the end-of-data reply once per accepted recipient',
    'HTTP: http.client + gevent.pywsgi are the real transport (socketpair); the WSGI server merges repeated headers with ","',
    'without 8BITMIME the relay refuses 8-bit bodies (no binary_encoder configured); that no 8-bit byte is sent is checked, the conversion itself is C20',
]

CRLF = b'\r\n'


def changed_key(sent, seen, default):
    """the addresses differ only by a Unicode normalisation / dropped invisible characters: their own key"""
    import unicodedata
    def loose(x):
        return ''.join(c for c in unicodedata.normalize('NFKD', x) if unicodedata.category(c) not in ('Cf', 'Mn', 'Mc', 'Me'))
    try:
        if (isinstance(sent, str) and isinstance(seen, str) and sent != seen
                and (unicodedata.normalize('NFKC', sent) == unicodedata.normalize('NFKC', seen) or loose(sent) == loose(seen))):
            return 'c06:address-code-points-changed'
    except Exception:
        pass
    return default


def _fail(ctx, key, case, what):
    """at most a few recorded failures per key (the list of the framework is capped), all counted"""
    n = ctx.dist.get('oracle-fail:' + key, 0)
    if n < 3:
        ctx.fail(key, case, what)
    else:
        ctx.count('oracle-fail:' + key)


# ====================================================================== fakes
class _Pipe(object):
    def __init__(self):
        self.buf = b''
        self.ev = Event()
        self.closed = False


class DuplexEnd(object):
    """one end of an in-memory duplex byte channel (gevent aware)"""

    def __init__(self, rd, wr):
        self.rd, self.wr = rd, wr
        self.sent = b''

    def fileno(self):
        return -1

    def getpeername(self):
        return ('192.0.2.1', 25)

    def getsockname(self):
        return ('192.0.2.2', 25)

    def recv(self, n=4096):
        while not self.rd.buf:
            if self.rd.closed:
                return b''
            self.rd.ev.clear()
            self.rd.ev.wait()
        d = self.rd.buf[:n]
        self.rd.buf = self.rd.buf[n:]
        return d

    def sendall(self, data):
        if self.wr.closed:
            raise OSError(32, 'Broken pipe')
        self.sent += bytes(data)
        self.wr.buf += bytes(data)
        self.wr.ev.set()

    def send(self, data):
        self.sendall(data)
        return len(data)

    def close(self):
        self.wr.closed = True
        self.wr.ev.set()
        self.rd.closed = True
        self.rd.ev.set()


def duplex():
    a, b = _Pipe(), _Pipe()
    return DuplexEnd(a, b), DuplexEnd(b, a)


class FakePtr(object):
    def __init__(self, ip):
        pass

    def start(self):
        pass

    def finish(self, runtime=None):
        return None

    def kill(self, block=True):
        pass


class RecQueue(object):
    """the edge's queue: records what it is handed; verdict per message (messages carry an X-Hop-Id field)"""

    def __init__(self, verdicts):
        self.verdicts = list(verdicts)
        self.got = []

    def enqueue(self, env):
        hd, body = env.flatten()
        try:
            hid = int(env.headers.get('X-Hop-Id'))
        except (TypeError, ValueError):
            hid = None
        self.got.append(dict(id=hid, sender=env.sender, rcpts=list(env.recipients), hdr=hd, body=body))
        v = self.verdicts[hid] if hid is not None and hid < len(self.verdicts) else None
        if not v:
            return [(env, 'id-%d' % len(self.got))]
        e = QueueError()
        e.reply = Reply(v, 'scripted queue verdict')
        return [(env, e)]


CUR = {}


class CfgServer(Server):
    """the real Server; extensions of the configuration that the edge cannot
    switch off itself are removed right after construction"""

    def __init__(self, *a, **kw):
        super(CfgServer, self).__init__(*a, **kw)
        for x in ('PIPELINING', '8BITMIME', 'SMTPUTF8'):
            if x not in CUR['exts']:
                self.extensions.drop(x)
        CUR['servers'].append(self)
        self.advertised = []

    def _command_EHLO(self, arg):
        self.advertised.append({k: (None if not v else str(v)) for k, v in self.extensions.extensions.items()})
        return Server._command_EHLO(self, arg)


class LmtpishServer(CfgServer):
    """LHLO = EHLO; the end-of-data reply is repeated for every accepted recipient"""

    def _command_LHLO(self, arg):
        return self._command_EHLO(arg)

    def _get_message_data(self):
        env = getattr(self.handlers, 'envelope', None)
        n = len(env.recipients) if env is not None else 1
        orig = self.io.send_reply

        def many(reply):
            for _ in range(max(n, 1)):
                orig(reply)
        self.io.send_reply = many
        try:
            return Server._get_message_data(self)
        finally:
            self.io.send_reply = orig


class RecSession(SmtpSession):
    def HAVE_DATA(self, reply, data, err):
        CUR['data'].append(data)
        try:
            return SmtpSession.HAVE_DATA(self, reply, data, err)
        finally:
            CUR['edge_codes'].append(reply.code)


class HeloOnly(object):
    def __init__(self, session):
        pass

    def handle_ehlo(self, reply, ehlo_as):
        reply.code = '500'
        reply.message = '5.5.2 EHLO not spoken here'


class Verdicts(object):
    """edge validator of the duplicate-recipient cases: RCPT verdict by address (CUR['rv']: address -> code),
    optionally the HELO fallback"""

    def __init__(self, session):
        pass

    def handle_ehlo(self, reply, ehlo_as):
        if CUR.get('helo'):
            reply.code = '500'
            reply.message = '5.5.2 EHLO not spoken here'

    def handle_mail(self, reply, sender, params):
        v = CUR.get('mv', {}).get(sender)
        if v:
            reply.code = v
            reply.message = ('5.7.1 sender <%s> refused' if v[0] == '5' else '4.7.1 sender <%s> deferred') % sender

    def handle_rcpt(self, reply, recipient, params):
        v = CUR['rv'].get(recipient)
        if v:
            reply.code = v
            reply.message = ('5.1.1 no such user <%s>' if v[0] == '5' else '4.2.0 try <%s> later') % recipient


class Patch(object):
    def __init__(self, *triples):
        self.triples = triples
        self.saved = []

    def __enter__(self):
        for mod, name, val in self.triples:
            self.saved.append((mod, name, getattr(mod, name)))
            setattr(mod, name, val)

    def __exit__(self, *a):
        for mod, name, val in self.saved:
            setattr(mod, name, val)


def make_env(m):
    env = Envelope(m['sender'], list(m['rcpts']))
    env.parse(m['data'])
    return env


def canon_result(res):
    """Relay result -> ('ok', {rcpt: code}) | ('err', kind, code) | ('exc', name) | ('hang',)"""
    if isinstance(res, dict):
        out = {}
        for k, v in res.items():
            if isinstance(v, Reply):
                out[k] = v.code
            elif isinstance(v, RelayError):
                out[k] = 'E' + (v.reply.code if getattr(v, 'reply', None) is not None else '?')
            else:
                out[k] = repr(v)
        return ('ok', out)
    if isinstance(res, Reply):
        return ('ok', res.code)
    if res is None:
        return ('ok', None)
    if isinstance(res, RelayError):
        kind = 'perm' if isinstance(res, PermanentRelayError) else 'trans'
        rp = getattr(res, 'reply', None)
        return ('err', kind, rp.code if rp is not None else None)
    if isinstance(res, BaseException):
        return ('exc', type(res).__name__)
    return ('other', repr(res))


def split_replies(wire):
    """server transcript -> list of (code, [lines])"""
    out = []
    cur = []
    for line in wire.split(b'\r\n'):
        if len(line) >= 4 and line[:3].isdigit():
            cur.append(line[4:])
            if line[3:4] != b'-':
                out.append((line[:3], cur))
                cur = []
    return out


def run_smtp_hop(case):
    """case: proto smtp|lmtp, exts [names], helo, reuse, size, msgs [dict(sender, rcpts, data, verdict)]"""
    CUR.clear()
    CUR.update(exts=set(case['exts']), servers=[], data=[], edge_codes=[], rv=dict(case.get('rv') or {}), mv=dict(case.get('mv') or {}), helo=bool(case.get('helo')))
    lmtp = case['proto'] == 'lmtp'
    queue = RecQueue([m.get('verdict') for m in case['msgs']])
    out = dict(results=[], got=queue.got, hang=False)
    with Patch((edge_smtp_mod, 'Server', LmtpishServer if lmtp else CfgServer),
               (edge_smtp_mod, 'PtrLookup', FakePtr)):
        edge = SmtpEdge(None, queue, hostname='edge.example',
                        max_size=case.get('size') if 'SIZE' in case['exts'] else None,
                        validator_class=(Verdicts if (case.get('rv') or case.get('mv')) else (HeloOnly if case.get('helo') else None)),
                        auth=('AUTH' in case['exts']), session_class=RecSession)
        socks = []

        def creator(address):
            c, s = duplex()
            socks.append((c, s))
            gevent.spawn(edge.handle, s, ('192.0.2.9', 40000 + len(socks)))
            return c
        cls = LmtpRelayClient if lmtp else SmtpRelayClient
        batches = [case['msgs']] if case.get('reuse') else [[m] for m in case['msgs']]
        clients = []
        for batch in batches:
            dq = BlockingDeque()
            cl = cls(('edge.example', 25), dq, socket_creator=creator, ehlo_as='relay.example',
                     idle_timeout=(30 if case.get('reuse') else None))
            clients.append(cl)
            results = []
            for m in batch:
                r = AsyncResult()
                results.append(r)
                dq.append((r, make_env(m)))
            dq.append((None, None))
            cl.start()
            for r in results:
                try:
                    out['results'].append(canon_result(r.get(timeout=5)))
                except gevent.Timeout:
                    out['results'].append(('hang',))
                    out['hang'] = True
                except BaseException as e:
                    out['results'].append(canon_result(e))
            cl.join(timeout=2)
            if not cl.ready():
                cl.kill(block=False)
        gevent.sleep(0)
        out['client_wire'] = [c.sent for c, s in socks]
        out['server_wire'] = [s.sent for c, s in socks]
        out['client_exts'] = [None if cl.client is None else
                              {k: (None if not v else str(v)) for k, v in cl.client.extensions.extensions.items()}
                              for cl in clients]
        out['advertised'] = [sv.advertised for sv in CUR['servers']]
        out['data'] = list(CUR['data'])
        out['edge_codes'] = list(CUR['edge_codes'])
    return out


# ---------------------------------------------------------------- HTTP hop
class RecWsgiEdge(WsgiEdge):
    def _get_envelope(self, environ):
        CUR['environ'].append({k: v for k, v in environ.items() if k.startswith('HTTP_X_')})
        return WsgiEdge._get_envelope(self, environ)


def run_http_hop(case):
    """case: reuse, msgs [...]; returns like run_smtp_hop"""
    from gevent.pywsgi import WSGIServer
    CUR.clear()
    CUR.update(environ=[], headers=[], replies=[])
    queue = RecQueue([m.get('verdict') for m in case['msgs']])
    out = dict(results=[], got=queue.got, hang=False)
    conns = []

    def rec_response(reply):
        res = _build_http_response(reply)
        CUR['replies'].append((reply.code, res.status, dict(res.headers).get('X-Smtp-Reply')))
        return res
    with Patch((edge_wsgi_mod, 'PtrLookup', FakePtr), (edge_wsgi_mod, '_build_http_response', rec_response)):
        edge = RecWsgiEdge(queue, hostname='edge.example')
        srv = WSGIServer(('127.0.0.1', 0), edge, log=None, error_log=io.StringIO())
        srv.set_environ()
        srv.update_environ()
        handlers = []

        def fake_get_connection(url, context=None):
            conn = HTTPConnection('edge.example')
            a, b = gsocket.socketpair()
            conn.sock = a
            handlers.append((gevent.spawn(srv.handle, b, ('192.0.2.7', 1234)), a, b))
            conns.append(conn)
            return conn
        with Patch((relay_http_mod, 'get_connection', fake_get_connection)):
            relay = HttpRelay('http://edge.example/deliver', ehlo_as='relay.example',
                              idle_timeout=(30 if case.get('reuse') else None), timeout=5)
            orig_build = HttpRelayClient._build_headers

            def rec_build(self, envelope, msg_headers, msg_body):
                hs = orig_build(self, envelope, msg_headers, msg_body)
                CUR['headers'].append(list(hs))
                return hs
            with Patch((HttpRelayClient, '_build_headers', rec_build)):
                def attempt(env):
                    try:
                        return relay.attempt(env, 0)
                    except Exception as e:
                        return e
                for m in case['msgs']:
                    g = gevent.spawn(attempt, make_env(m))
                    g.join(timeout=3)
                    if not g.ready():
                        out['results'].append(('hang',))
                        out['hang'] = True
                        g.kill(block=False)
                        break
                    out['results'].append(canon_result(g.value if g.successful() else g.exception))
                    if out['results'][-1][0] != 'ok':
                        # let the server side finish with whatever it was sent before judging what reached the queue
                        for _ in range(5):
                            gevent.sleep(0.002)
            for cl in list(relay.pool):
                cl.kill(block=False)
        gevent.sleep(0)
        for g, a, b in handlers:
            g.kill(block=False)
            for s in (a, b):
                try:
                    s.close()
                except Exception:
                    pass
        out['connections'] = len(conns)
        out['environ'] = list(CUR['environ'])
        out['headers'] = list(CUR['headers'])
        out['replies'] = list(CUR['replies'])
    return out


# ============================================================ reference grammar
NONASCII = '\u0080-\ud7ff\ue000-\U0010ffff'


def _ref(utf8):
    na = NONASCII if utf8 else ''
    atext = "[A-Za-z0-9!#$%&'*+\\-/=?^_`{|}~" + na + "]"
    dot = atext + '+(?:\\.' + atext + '+)*'
    quoted = '"(?:[\\x20\\x21\\x23-\\x5b\\x5d-\\x7e' + na + ']|\\\\[\\x20-\\x7e])*"'
    ld = '[A-Za-z0-9' + na + ']'
    sub = ld + '(?:[A-Za-z0-9\\-' + na + ']*' + ld + ')?'
    dom = sub + '(?:\\.' + sub + ')*'
    lit = '\\[[\\x21\\x23-\\x3d\\x3f-\\x5a\\x5e-\\x7e]+\\]'
    return re.compile('(?:' + dot + '|' + quoted + ')@(?:' + dom + '|' + lit + ')', re.S)


REF = {False: _ref(False), True: _ref(True)}


def ref_mailbox(a, utf8):
    return bool(REF[bool(utf8)].fullmatch(a))


# ============================================================ value helpers
def enc_exts(d):
    """{NAME: param-or-None} -> model exts (insertion order kept)"""
    return [[k, ([] if v is None else [v])] for k, v in d.items()]


def dec_exts(o):
    return {U(kv[0]): (U(kv[1][0]) if kv[1] else None) for kv in o}


def opt(x):
    return [] if x is None else [x]


def enc_auth(a):
    if a is None:
        return []
    if a is False:
        return [[]]
    return [[a]]


def dec_optb(o):
    return B(o[0]) if o else None


def dec_params(o):
    return tuple((B(k), (B(v[0]) if v else True)) for k, v in o)


def dec_addr_res(o):
    if o[0] == 0:
        return (0, U(o[1]), dec_params(o[2]))
    return (o[0],)


# ============================================================ real codecs
def real_build(kind, exts, addr, size=None, auth=None):
    c = Client(ScriptSocket(), ('h', 25))
    c.extensions.extensions = dict(exts)
    c.extensions.extensions['PIPELINING'] = None
    try:
        if kind == 'mail':
            c.mailfrom(addr, size, auth)
        else:
            c.rcptto(addr)
    except UnicodeEncodeError:
        return None
    w = c.io.send_buffer.getvalue()
    assert w.endswith(CRLF)
    return w[:-2]


class _Rec(object):
    def __init__(self):
        self.calls = []

    def MAIL(self, reply, address, params):
        self.calls.append((address, params))

    def RCPT(self, reply, address, params):
        self.calls.append((address, params))


def real_parse(kind, arg):
    """_command_MAIL / _command_RCPT on a fresh server -> (0, addr, params) | (1,) | (2,)"""
    rec = _Rec()
    sock = ScriptSocket()
    srv = Server(sock, rec, ('h', 25))
    srv.ehlo_as = 'x'
    srv.extensions.add('SIZE', 10 ** 40)
    if kind == 'rcpt':
        srv.have_mailfrom = True
    try:
        (srv._command_MAIL if kind == 'mail' else srv._command_RCPT)(arg)
    except UnicodeDecodeError:
        return (2,)
    if rec.calls:
        a, p = rec.calls[0]
        return (0, a, tuple((bytes(k), (True if v is True else bytes(v))) for k, v in p.items()))
    code = srv.io.send_buffer.getvalue()[:3]
    return (1,) if code == b'501' else ('code', code)


def real_pieces(kind, arg):
    """the same from the pieces (no SIZE interpretation)"""
    m = (from_pattern if kind == 'mail' else to_pattern).match(arg)
    if not m:
        return (1,)
    start = m.end(0)
    end = find_outside_quotes(arg, b'>', start)
    if end == -1:
        return (1,)
    try:
        a = arg[start:end].decode('utf-8')
    except UnicodeDecodeError:
        return (2,)
    p = Server._gather_params(None, arg[end + 1:])
    return (0, a, tuple((bytes(k), (True if v is True else bytes(v))) for k, v in p.items()))


def real_recv_command(stream):
    sock = ScriptSocket([stream] if stream else [])
    io_ = IO(sock, ('h', 25))
    from slimta.smtp import ConnectionLost
    try:
        cmd, arg = io_.recv_command()
    except ConnectionLost:
        return ('noline',)
    return (cmd, arg, io_.recv_buffer + sock.unread())


def size_plain(params):
    for k, v in params:
        if k == b'SIZE' and (v is True or not v.isdigit() or not v.isascii()):
            return False
    return True


# ============================================================ streams
QALPHA = 'a"\\>@ '


def stream_quoted_exhaustive(ctx, maxlen):
    """every quoted local part content over {a, ", \\, >, @, SP} to maxlen: "<w>"@x.example
    (valid or not) through Client.mailfrom and Server._command_MAIL"""
    words = []
    for L in range(0, maxlen + 1):
        for t in itertools.product(QALPHA, repeat=L):
            words.append(''.join(t))
    addrs = ['"%s"@x.example' % w for w in words]
    exts = {'SMTPUTF8': None}
    m_wf = ctx.model.batch('c06_wf_addr', [[1, a] for a in addrs])
    m_build = ctx.model.batch('c06_build_mail', [[enc_exts(exts), a, [], []] for a in addrs])
    lines = []
    for a, mw, mb in zip(addrs, m_wf, m_build):
        rb = real_build('mail', exts, a)
        if dec_optb(mb) != rb:
            ctx.mismatch('build_mail', dict(addr=a), rb, dec_optb(mb))
        rw = ref_mailbox(a, True)
        if bool(mw[0]) != rw:
            ctx.mismatch('wf_mailbox', dict(addr=a), rw, mw)
        lines.append(rb)
    args = [l[5:] for l in lines]         # after b'MAIL '
    m_parse = ctx.model.batch('c06_parse_mail', args)
    nvalid = 0
    for a, arg, mp in zip(addrs, args, m_parse):
        rp = real_parse('mail', arg)
        valid = ref_mailbox(a, True)
        ctx.evaluated(('qx', a), nontrivial=('\\' in a or '>' in a or a.count('"') > 2))
        if rp != dec_addr_res(mp):
            ctx.mismatch('parse_mail', dict(arg=arg), rp, dec_addr_res(mp))
        if valid:
            nvalid += 1
            if rp != (0, a, ()):
                key = 'c06:address-not-recovered'
                if '\\"' in a:
                    key = 'c06:quoted-pair-in-address'
                _fail(ctx, key, dict(kind='codec', addr=a, wire=b'MAIL ' + arg),
                         'valid mailbox %r sent as %r is read by the server as %r' % (a, b'MAIL ' + arg, rp))
    ctx.count('quoted-exhaustive', len(addrs))
    ctx.count('quoted-exhaustive-valid', nvalid)
    ctx.extra['exhaustive'] = True
    ctx.extra['exhaustive_bound'] = ('every quoted local part "<w>"@x.example with w over {a,",\\,>,@,SP} up to length %d '
                                     '(%d addresses, %d of them valid mailboxes) through Client.mailfrom and Server._command_MAIL'
                                     % (maxlen, len(addrs), nvalid))
    ctx.sample(dict(kind='quoted-exhaustive', alphabet=QALPHA, maxlen=maxlen, addresses=len(addrs), valid=nvalid))


ATOMS = ['a', 'user', 'first.last', 'x+tag', "o'brien", '!#$%&', 'a-b_c', '{x}|~', '=?^`', '*', '/', '0', 'UPPER.lower.123']
UATOMS = ['é', 'üser', '日本', 'naïve.café', '😀', 'ß', '߿', 'ࠀ', '￿', '\U00010000', '\U0010ffff', 'aé']
# code point sequences that Unicode normalisation (NFC / NFD / NFKC / NFKD) would rewrite, and invisible
# characters a "clean-up" would drop: an address is a sequence of code points and must arrive as that sequence
UNSTABLE = ['e\u0301', 'a\u0308\u0301', 'a\u0301\u0323', 'q\u0307\u0323x', '\u212b', '\u2126', '\u212a', 'x\u212bx',
            '\u1112\u1161\u11ab', '\u1100\u1161', '\ufb01', '\uff41\uff42', 'x\u00b2', '\u2460', '\u00bd',
            'a\u200db', 'a\u200cb', '\u2764\ufe0f', 'a\ufe00', 'a\u200eb', '\u200fx', 'x\u202ey', '\u0344', '\u0958',
            '\u00c5', '\ud55c', '\u1e9b\u0323', 'I\u0307']
UATOMS = UATOMS + UNSTABLE
QPIECES = ['a', ' ', '>', '<', '@', ',', ';', ':', '(', ')', '[', ']', '.', '..', '\\"', '\\\\', '\\ ', '\\>', '\\a', '!', '#', '=', '+', 'SIZE=1', ' AUTH=<>', '<>']
UQPIECES = ['é', '日本', '😀']
UQPIECES = UQPIECES + UNSTABLE + [' e\u0301 ', '\u212b>', '\\"\u2126']
DOMS = ['example.com', 'x', 'a.b.c.example', 'a-b.example', 'x1.y2', 'EXAMPLE.Com', 'xn--bcher-kva.example', '[192.0.2.1]', '[IPv6:2001:db8::1]', '[x]']
UDOMS = ['bücher.example', '例え.jp', 'é']
UDOMS = UDOMS + ['e\u0301.example', 'x.\u212b.example', '\u1112\u1161\u11ab.kr', 'a\u0301\u0323-b.example', '\ufb01.example', 'a\u200db.example', '\u2126']


def gen_addr(rng, utf8):
    r = rng.random()
    if r < 0.45:
        atoms = ATOMS + (UATOMS if utf8 else [])
        local = '.'.join(rng.choice(atoms) for _ in range(rng.choice([1, 1, 2, 3])))
    else:
        ps = QPIECES + (UQPIECES if utf8 else [])
        local = '"' + ''.join(rng.choice(ps) for _ in range(rng.choice([0, 1, 2, 3, 5, 8]))) + '"'
    dom = rng.choice(DOMS + (UDOMS if utf8 and rng.random() < 0.5 else []))
    return local + '@' + dom


BAD_ADDRS = ['a@b>c', '"a"b"@x', '"a\\"@x', 'a b@x', '"unterminated@x', 'a@', '@x', 'a..b@x', '.a@x', 'a.@x', 'a@-x', 'a@x-', 'a@x..y',
             '"a"@', 'a@[', 'a@[]', 'a\\@x', '"a\nb"@x', 'a\r@x', '"\x7f"@x', '"\\\x7f"@x', '\ud800@x', 'a@x>', '>', '<', '<a@b>', 'a@b c',
             'é@x', '"é"@x', 'a@é', '"a" @x', ' a@x', 'a@x ', '"', '""', '""@', '"\\', 'a"b@x', 'a@x"', 'a@"x"']


def stream_addresses(ctx, n):
    """random grammar addresses (plus a list of invalid ones) x extension sets x SIZE / AUTH parameters:
    Client.mailfrom / rcptto vs build_mail / build_rcpt; the server's reading of the line; round-trip oracle"""
    rng = ctx.rng
    jobs = []
    for i in range(n):
        utf8 = rng.random() < 0.6
        if rng.random() < 0.12:
            a = rng.choice(BAD_ADDRS)
        elif rng.random() < 0.05:
            a = ''
        else:
            a = gen_addr(rng, utf8 or rng.random() < 0.1)
        exts = {}
        if utf8:
            exts['SMTPUTF8'] = None
        if rng.random() < 0.5:
            exts['SIZE'] = rng.choice([None, '1000', '0'])
        if rng.random() < 0.5:
            exts['AUTH'] = 'PLAIN LOGIN'
        size = rng.choice([None, None, 0, 7, 10, 99, 100, 12345, 2 ** 31, 2 ** 53 + 1, 4 * 10 ** 18])
        auth = rng.choice([None, None, False, False, 'user@example.com', 'a+b=c d', '', 'é@x', 'x' * 5, '<>', '+', '\x7f\x00'])
        kind = rng.choice(['mail', 'mail', 'rcpt'])
        jobs.append((kind, exts, a, size if kind == 'mail' else None, auth if kind == 'mail' else None, utf8))
    mb = ctx.model.batch('c06_build_mail', [[enc_exts(e), a, opt(s), enc_auth(au)] for k, e, a, s, au, u in jobs if k == 'mail'])
    rb = ctx.model.batch('c06_build_rcpt', [[enc_exts(e), a] for k, e, a, s, au, u in jobs if k == 'rcpt'])
    mb, rb = iter(mb), iter(rb)
    lines = []
    for (k, e, a, s, au, u) in jobs:
        mo = dec_optb(next(mb) if k == 'mail' else next(rb))
        ro = real_build(k, e, a, s, au)
        case = dict(kind=k, exts=e, addr=a, size=s, auth=au)
        if ro != mo:
            ctx.mismatch('build_' + k, case, ro, mo)
        lines.append(ro)
    streams = [(l + CRLF) for l in lines if l is not None]
    ms = iter(ctx.model.batch('c06_server_line', streams))
    mwf = iter(ctx.model.batch('c06_wf_addr', [[int(u), a] for k, e, a, s, au, u in jobs]))
    for (k, e, a, s, au, u), line in zip(jobs, lines):
        wf = next(mwf)
        rw = ref_mailbox(a, u)
        if bool(wf[0]) != rw:
            ctx.mismatch('wf_mailbox', dict(addr=a, utf8=u), rw, wf)
        valid = rw or (a == '' and k == 'mail')
        ctx.evaluated(('addr', k, a, tuple(sorted(e)), s, au), nontrivial=(a[:1] == '"' or not a.isascii() or s is not None or au is not None))
        ctx.count('addr:' + ('valid' if valid else 'invalid') + (':utf8' if not a.isascii() else '') + (':quoted' if a[:1] == '"' else ''))
        if line is None:
            if valid and au in (None, False) or (valid and isinstance(au, str) and (u or au.isascii()) and '\ud800' not in au):
                _fail(ctx, 'c06:client-cannot-encode', dict(kind='codec', addr=a, exts=e), 'valid address %r not encodable with %r' % (a, e))
            continue
        o = next(ms)
        rc = real_recv_command(line + CRLF)
        # model: 3 = MAIL, 4 = RCPT
        if o[0] in (3, 4):
            mo = dec_addr_res(o[1])
            rp = real_pieces(k, rc[1]) if rc[0] == k.upper().encode() and rc[1] is not None else ('nocmd', rc)
            if rp != mo or B(o[2]) != rc[2]:
                ctx.mismatch('server_line', dict(stream=line + CRLF), rp, mo)
            if mo[0] == 0 and size_plain(mo[2]):
                full = real_parse(k, rc[1])
                if full != mo:
                    ctx.mismatch('command_' + k, dict(arg=rc[1]), full, mo)
        else:
            ctx.mismatch('server_line', dict(stream=line + CRLF), rc, o)
            continue
        if valid:
            exp_params = []
            if s is not None and 'SIZE' in e:
                exp_params.append((b'SIZE', str(s).encode()))
            if au is not None and 'AUTH' in e:
                if au is False:
                    exp_params.append((b'AUTH', b'<>'))
                else:
                    raw = au.encode('utf-8' if u else 'ascii')
                    x = b''.join(bytes([c]) if (0x21 <= c <= 0x7e and c not in (0x2b, 0x3d)) else b'+%02X' % c for c in raw)
                    exp_params.append((b'AUTH', x if x else True))
            if rp != (0, a, tuple(exp_params)):
                key = 'c06:address-not-recovered'
                if '\\"' in a:
                    key = 'c06:quoted-pair-in-address'
                if rp[0] == 0:
                    key = changed_key(a, rp[1], key)
                _fail(ctx, key, dict(kind='codec', cmd=k, addr=a, exts=e, size=s, auth=au, wire=line),
                         'sent %r, the server reads %r (expected address %r params %r)%s' % (
                             line, rp, a, exp_params,
                             '' if rp[0] != 0 or rp[1] == a else '; code points %s -> %s' % (['U+%04X' % ord(c) for c in a], ['U+%04X' % ord(c) for c in rp[1]])))
    ctx.sample(dict(kind='address', examples=[j[2] for j in jobs[:6]]))


def stream_lines_malformed(ctx, n, maxlen):
    """malformed stream: (a) every byte string over {M,a,SP,TAB,<,CR} to maxlen as a command line through
    IO.recv_command; (b) mutated MAIL/RCPT lines through recv_command + the address part of the handlers"""
    rng = ctx.rng
    alpha = b'Ma \t<\r'
    cases = []
    for L in range(0, maxlen + 1):
        for t in itertools.product(alpha, repeat=L):
            cases.append(bytes(t))
    outs = ctx.model.batch('c06_parse_command', cases)
    for c, o in zip(cases, outs):
        rc = real_recv_command(c + b'\n')
        mo = (None, None) if o == () else (B(o[0]), dec_optb(o[1]))
        # model parse_command works on the line after recv_line (one CR stripped)
        line = c[:-1] if c.endswith(b'\r') else c
        ctx.evaluated(('cmdx', c), nontrivial=(b' ' in c or b'\t' in c))
        if line == c:
            if (rc[0], rc[1]) != mo:
                ctx.mismatch('parse_command', dict(line=c), rc, mo)
    seeds = [b'MAIL FROM:<a@b>', b'mail from: <a@b> SIZE=10', b'MAIL FROM:<"a\\"b>c"@x> SIZE=5 AUTH=<>', b'RCPT TO:<"x y"@z>', b'rcpt To:\t<a@b> NOTIFY=NEVER ORCPT=rfc822;a@b',
             b'MAIL FROM:<>', b'MAIL FROM:<\xc3\xa9@x> SMTPUTF8', b'MAIL FROM:<\xff@x>', b'MAIL FROM:<a@b> size=abc BODY=8BITMIME', b'MAIL FROM:<a@b> X_Y=1 -A=2 A-=3 A=\x7f B==',
             b'MAIL  FROM:<a@b>', b'MAIL FROM :<a@b>', b'MAIL FROM:a@b', b'MAIL FROM:<a@b', b'MAILFROM:<a@b>', b'RCPT TO:<a@b> \x0b\x0c', b'MAIL FROM:<"a>"@b>', b'MAIL FROM:<"a\\>"@b>',
             b'MAIL FROM:<"a\\\\"b>@c>', b'RCPT TO:<a@b>SIZE=1', b'MAIL FROM:<a@b> SIZE=1 SIZE=2 size=3', b'MAIL FROM:<a@b> SIZE=+1_0', b'MAIL FROM:<a@b> SIZE=-5']
    pieces = [b'"', b'\\', b'>', b'<', b' ', b'=', b'-', b'_', b'\r', b'\t', b'A', b'1', b'\xc3', b'\xa9', b'\x00', b'\x7f', b':', b'FROM:', b'TO:', b'SIZE=', b'\n']
    streams = []
    for i in range(n):
        s = bytearray(rng.choice(seeds))
        for _ in range(rng.choice([0, 1, 1, 2, 3])):
            p = rng.randrange(0, len(s) + 1)
            r = rng.random()
            if r < 0.5:
                s[p:p] = rng.choice(pieces)
            elif r < 0.8 and len(s):
                del s[min(p, len(s) - 1)]
            elif len(s):
                s[min(p, len(s) - 1)] = rng.randrange(256)
        streams.append(bytes(s) + rng.choice([CRLF, CRLF, b'\n', b'\r\r\n', b'', b'\r\nNEXT\r\n']))
    outs = ctx.model.batch('c06_server_line', streams)
    for s, o in zip(streams, outs):
        rc = real_recv_command(s)
        ctx.evaluated(('mal', s), nontrivial=True)
        ctx.count('malformed-line-outcome:%d' % o[0])
        if o[0] == 0:
            if rc != ('noline',):
                ctx.mismatch('server_line-noline', dict(stream=s), rc, o)
            continue
        if rc == ('noline',):
            ctx.mismatch('server_line-noline', dict(stream=s), rc, o)
            continue
        if o[0] == 1:
            if rc[0] is not None:
                ctx.mismatch('server_line-notcmd', dict(stream=s), rc, o)
        elif o[0] == 2:
            if (rc[0], rc[1]) != (B(o[1]), dec_optb(o[2])):
                ctx.mismatch('server_line-other', dict(stream=s), rc, o)
        else:
            k = 'mail' if o[0] == 3 else 'rcpt'
            mo = dec_addr_res(o[1])
            if rc[0] != k.upper().encode() or rc[1] is None:
                ctx.mismatch('server_line-cmd', dict(stream=s), rc, o)
                continue
            rp = real_pieces(k, rc[1])
            if rp != mo or rc[2] != B(o[2]):
                ctx.mismatch('server_line-addr', dict(stream=s), (rp, rc[2]), (mo, B(o[2])))
            if mo[0] != 0 or size_plain(mo[2]):
                full = real_parse(k, rc[1])
                if full != mo:
                    ctx.mismatch('command-' + k, dict(arg=rc[1]), full, mo)


def stream_params_exhaustive(ctx, maxlen):
    alpha = b'Ab1-_= \x80'
    cases = []
    for L in range(0, maxlen + 1):
        for t in itertools.product(alpha, repeat=L):
            cases.append(bytes(t))
    outs = ctx.model.batch('c06_gather_params', cases)
    for c, o in zip(cases, outs):
        p = Server._gather_params(None, c)
        rp = tuple((bytes(k), (True if v is True else bytes(v))) for k, v in p.items())
        ctx.evaluated(('gp', c), nontrivial=(b'=' in c))
        if rp != dec_params(o):
            ctx.mismatch('gather_params', dict(rest=c), rp, dec_params(o))
    ctx.count('params-exhaustive', len(cases))


EXT_NAMES = ['PIPELINING', '8BITMIME', 'SIZE', 'AUTH', 'STARTTLS', 'SMTPUTF8', 'ENHANCEDSTATUSCODES', 'X-A', 'X1', '8', 'A-', 'DSN', 'CHUNKING', 'X--Y-']
EXT_PARAMS = [None, None, '1000', 'PLAIN LOGIN', 'a  b', 'é', 'x=y;z', '0', '-', 'CRAM-MD5 DIGEST-MD5', 'a\rb', 'a\tb', '　x', 'x　y']


def stream_extensions(ctx, n, maxlen):
    rng = ctx.rng
    # structured: build -> parse round trip
    jobs = []
    for i in range(n):
        names = rng.sample(EXT_NAMES, rng.randrange(0, 7))
        exts = {}
        for nm in names:
            exts[nm] = rng.choice(EXT_PARAMS)
        header = rng.choice(['Hello relay.example', 'Hello', 'x', 'Hello é', 'edge.example says hi', '2.0.0 x', 'a b  c', 'a\rb', 'X'])
        jobs.append((header, exts))
    mbs = ctx.model.batch('c06_build_string', [[h, enc_exts(e)] for h, e in jobs])
    strings = []
    for (h, e), mb in zip(jobs, mbs):
        x = Extensions()
        for k, v in e.items():
            x.add(k, v)
        s = x.build_string(h)
        if s != U(mb):
            ctx.mismatch('build_string', dict(header=h, exts=e), s, U(mb))
        strings.append(s)
    mps = ctx.model.batch('c06_parse_string', [[[], s] for s in strings])
    for (h, e), s, mp in zip(jobs, strings, mps):
        x = Extensions()
        rh = x.parse_string(s)
        got = (rh, dict(x.extensions))
        mo = (U(mp[0]), dec_exts(mp[1]))
        ctx.evaluated(('ext', h, tuple(e.items())), nontrivial=bool(e))
        if got != mo or list(x.extensions.keys()) != [U(kv[0]) for kv in mp[1]]:
            ctx.mismatch('parse_string', dict(string=s), got, mo)
        inclass = (h and '\n' not in h and all(v is None or (v == v.strip() and v and '\n' not in v) for v in e.values()))
        ws = re.compile(r'\s')
        inclass = inclass and all(v is None or not (ws.match(v[0]) or ws.match(v[-1])) for v in e.values())
        if inclass and (rh != h or list(x.extensions.items()) != list(e.items())):
            _fail(ctx, 'c06:extensions-roundtrip', dict(kind='ext', header=h, exts=e, string=s), 'advertised %r %r, client sees %r %r' % (h, e, rh, x.extensions))
    # malformed: every string over a small alphabet as the EHLO text
    alpha = 'Aa1- \r\n ='
    cases = []
    for L in range(0, maxlen + 1):
        for t in itertools.product(alpha, repeat=L):
            cases.append(''.join(t))
    mps = ctx.model.batch('c06_parse_string', [[[], s] for s in cases])
    for s, mp in zip(cases, mps):
        x = Extensions()
        rh = x.parse_string(s)
        got = (rh, list(x.extensions.items()))
        mo = (U(mp[0]), [(U(kv[0]), (U(kv[1][0]) if kv[1] else None)) for kv in mp[1]])
        ctx.evaluated(('extx', s), nontrivial=('\n' in s))
        if got != mo:
            ctx.mismatch('parse_string-malformed', dict(string=s), got, mo)
    ctx.count('ext-malformed-exhaustive', len(cases))


def real_b64decode(s):
    e = WsgiEdge.__new__(WsgiEdge)
    try:
        return (0, e._b64decode(s))
    except UnicodeEncodeError:
        return (1,)
    except binascii.Error:
        return (2,)
    except UnicodeDecodeError:
        return (3,)


def dec_dec_res(o):
    return (0, U(o[1])) if o[0] == 0 else (o[0],)


def stream_base64(ctx, n, maxlen):
    rng = ctx.rng
    datas = [bytes(rng.randrange(256) for _ in range(rng.choice([0, 1, 2, 3, 4, 5, 6, 7, 20, 57, 100]))) for _ in range(n)]
    encs = ctx.model.batch('c06_b64enc', datas)
    for d, e in zip(datas, encs):
        r = base64.b64encode(d)
        ctx.evaluated(('b64e', d), nontrivial=len(d) % 3 != 0)
        if r != B(e):
            ctx.mismatch('b64encode', dict(data=d), r, B(e))
    alpha = b'AQ/=9 '
    cases = []
    for L in range(0, maxlen + 1):
        for t in itertools.product(alpha, repeat=L):
            cases.append(bytes(t))
    for d in datas:
        e = bytearray(base64.b64encode(d))
        for _ in range(rng.choice([0, 1, 2])):
            if e:
                p = rng.randrange(len(e))
                r = rng.random()
                if r < 0.4:
                    e[p:p] = rng.choice([b'=', b' ', b'\n', b'-', b'_', b'A', b'\xff'])
                elif r < 0.7:
                    del e[p]
                else:
                    e[p] = rng.randrange(256)
        cases.append(bytes(e))
    outs = ctx.model.batch('c06_b64dec', cases)
    for c, o in zip(cases, outs):
        try:
            r = binascii.a2b_base64(c)
        except binascii.Error:
            r = None
        ctx.evaluated(('b64d', c), nontrivial=(b'=' in c))
        if r != dec_optb(o):
            ctx.mismatch('a2b_base64', dict(data=c), r, dec_optb(o))
    ctx.count('b64-malformed-exhaustive', len(cases))
    # text level: _b64encode / _b64decode
    texts = [gen_addr(rng, True) for _ in range(n // 2)] + ['', 'é', '\ud800', 'a\x00b', '😀@x']
    outs = ctx.model.batch('c06_r_b64encode', texts)
    client = HttpRelayClient.__new__(HttpRelayClient)
    vals = []
    for t, o in zip(texts, outs):
        try:
            r = client._b64encode(t)
        except UnicodeEncodeError:
            r = None
        mo = None if not o else U(o[0])
        if r != mo:
            ctx.mismatch('_b64encode', dict(text=t), r, mo)
        if r is not None:
            vals.append((t, r))
    hv = [v for t, v in vals] + ['é', 'YQ', 'YQ=', 'YQ==', '/w==', 'w6k', '4pyT', '7aCA', 'Y Q = =', 'YQ==YQ==', '=YQ==', 'Y']
    outs = ctx.model.batch('c06_w_b64decode', hv)
    for i, (v, o) in enumerate(zip(hv, outs)):
        r = real_b64decode(v)
        ctx.evaluated(('b64t', v), nontrivial=True)
        if r != dec_dec_res(o):
            ctx.mismatch('_b64decode', dict(value=v), r, dec_dec_res(o))
        if i < len(vals) and r != (0, vals[i][0]):
            _fail(ctx, 'c06:base64-roundtrip', dict(kind='b64', text=vals[i][0]), 'encoded %r decodes to %r' % (v, r))


SEPS = [',', ', ', ' ,', ';', ' ; ', ',\t', '　, ']


def stream_http_codec(ctx, n):
    rng = ctx.rng
    client = HttpRelayClient.__new__(HttpRelayClient)

    class R(object):
        ehlo_header, sender_header, recipient_header = HttpRelay.ehlo_header, HttpRelay.sender_header, HttpRelay.recipient_header
    client.relay = R()
    client.ehlo_as = 'relay.example'
    edge = WsgiEdge.__new__(WsgiEdge)
    jobs = []
    for i in range(n):
        sender = rng.choice(['', gen_addr(rng, True), gen_addr(rng, False)])
        rcpts = [gen_addr(rng, rng.random() < 0.5) for _ in range(rng.choice([1, 1, 2, 3, 5]))]
        hd, body = b'Subject: x\r\n\r\n', bytes(rng.randrange(256) for _ in range(rng.randrange(0, 50)))
        jobs.append((sender, rcpts, hd, body, rng.choice(SEPS)))
    mhs = ctx.model.batch('c06_build_headers', [['relay.example', s_, r_, h_, b_] for s_, r_, h_, b_, sp in jobs])
    reals = []
    for (sender, rcpts, hd, body, sep), mo in zip(jobs, mhs):
        rh = client._build_headers(Envelope(sender, rcpts), hd, body)
        mh = [(U(h[0]), U(h[1])) for h in mo[0]] if mo else None
        if rh != mh:
            ctx.mismatch('_build_headers', dict(sender=sender, rcpts=rcpts), rh, mh)
        reals.append(rh)
    mas = ctx.model.batch('c06_http_addresses', [[j[4], [[a, b] for a, b in rh]] for j, rh in zip(jobs, reals)])
    for (sender, rcpts, hd, body, sep), rh, mo in zip(jobs, reals, mas):
        # environ as a WSGI server builds it
        environ = {}
        for name, value in rh:
            key = 'HTTP_' + name.upper().replace('-', '_')
            environ[key] = (environ[key] + sep + value) if key in environ else value
        try:
            got = (edge._get_sender(environ), edge._get_recipients(environ))
        except Exception as e:
            got = ('exc', type(e).__name__)
        ms = dec_dec_res(mo[0])
        mr = [U(x) for x in mo[1][1]] if mo[1][0] == 0 else ('err', mo[1][1][0])
        ctx.evaluated(('httpc', sender, tuple(rcpts), sep), nontrivial=len(rcpts) > 1)
        if got != (ms[1] if ms[0] == 0 else ms, mr):
            ctx.mismatch('http_addresses', dict(sender=sender, rcpts=rcpts, sep=sep), got, (ms, mr))
        if got != (sender, rcpts):
            _fail(ctx, 'c06:http-envelope-roundtrip', dict(kind='httpc', sender=sender, rcpts=rcpts, sep=sep), 'edge reads %r' % (got,))
    # malformed recipient header values
    vals = [None, '', ',', 'YQ==,', ',YQ==', 'YQ==;;YQ==', 'YQ== YQ==', 'YQ==,\xe9', 'YQ,YQ', '  YQ==  ', 'YQ==\t;\tYg==', 'Y,Q', '/w==,YQ==', 'YQ==,/w==', '=', 'A', 'YQ== , Yg== ; Yw==']
    for L in range(1, 5):
        for t in itertools.product('Y=, ;', repeat=L):
            vals.append(''.join(t))
    outs = ctx.model.batch('c06_get_recipients', [opt(v) for v in vals])
    for v, o in zip(vals, outs):
        environ = {} if v is None else {'HTTP_X_ENVELOPE_RECIPIENT': v}
        try:
            r = (0, edge._get_recipients(environ))
        except UnicodeEncodeError:
            r = (1, 1)
        except binascii.Error:
            r = (1, 2)
        except UnicodeDecodeError:
            r = (1, 3)
        mo = (0, [U(x) for x in o[1]]) if o[0] == 0 else (1, o[1][0])
        ctx.evaluated(('rcpthdr', v), nontrivial=True)
        if r != mo:
            ctx.mismatch('_get_recipients', dict(value=v), r, mo)
    # reply header: edge builds, relay parses -- EVERY reply code 100..599 (the edge maps some codes to
    # their own HTTP status), a few message texts each
    msgs = ['2.6.0 Message accepted for delivery', '', 'x', 'say "hi"', 'back\\slash', '4.3.0 Error queuing message', '\xe9', 'a; b=c', 'x" command="y', '5.7.1 no']
    special = ['250', '451', '550', '535', '421', '354', '221', '599', '200', '452', '552', '150', '530', '534', '538', '401', '503', '500', '204']
    client2 = HttpRelayClient.__new__(HttpRelayClient)
    built = []
    for n in range(100, 600):
        code = str(n)
        for msg in (msgs if code in special else msgs[:1] + [msgs[3]]):
            res = _build_http_response(Reply(code, msg))
            hv = dict(res.headers).get('X-Smtp-Reply')      # None = the response carries no X-Smtp-Reply (an observation)
            # what the builder is given: Reply.message (with the enhanced status code re-added)
            built.append((code, msg, Reply(code, msg).message or '', hv, res.status))
    mbs = ctx.model.batch('c06_build_reply_header', [[code, shown] for code, msg, shown, hv, st in built])
    for (code, msg, shown, hv, st), mo in zip(built, mbs):
        ctx.evaluated(('rhb', code, msg), nontrivial=True)
        if (hv, int(st[:3])) != (U(mo[0]), mo[1]):
            ctx.mismatch('_build_http_response', dict(code=code, msg=msg), (hv, st), (U(mo[0]), mo[1]))
        rep = real_process(client2, int(st[:3]), hv)
        want = 0 if code[0] == '2' else (1 if code[0] == '5' else 2)
        if rep != (want, code):
            _fail(ctx, 'c06:http-code-not-reported', dict(kind='rh', code=code, msg=msg),
                  'edge reply %s %r -> status %s, X-Smtp-Reply %r -> relay reports %r' % (code, msg, st, hv, rep))
    built = [x for x in built if x[3] is not None]
    raws = ['', '250', '250;', ' 250 ;', '25;', '2500;', '\u0662\u0665\u0660; message="x"', '650; message="x"', '050;', 'x250;', '250 x;', '\u3000250\u3000;', '1\u0665\u0660;', '999;']
    pj = [(int(st[:3]) if k == 0 else k, hv) for code, msg, shown, hv, st in built for k in (0, 200, 404, 500)]
    pj += [(status, raw) for raw in raws for status in (204, 503, 404, 500)]
    mps = ctx.model.batch('c06_process_response', [[status, hv] for status, hv in pj])
    for (status, hv), mp in zip(pj, mps):
        rep = real_process(client2, status, hv)
        mrep = (mp[0], (U(mp[1][0]) if len(mp) > 1 and mp[1] else None)) if mp[0] != 3 else (3, None)
        ctx.evaluated(('rh', hv, status), nontrivial=True)
        if rep != mrep:
            ctx.mismatch('_process_response', dict(status=status, header=hv), rep, mrep)


class _Res(object):
    def __init__(self, status, hv):
        self.status, self.reason, self.hv = status, 'X', hv

    def getheader(self, name, default=None):
        return self.hv if (name == 'X-Smtp-Reply' and self.hv is not None) else default

    def getheaders(self):
        return [('X-Smtp-Reply', self.hv)]


class _Result(object):
    def __init__(self):
        self.v = None

    def set(self, v):
        self.v = ('set', v)

    def set_exception(self, e):
        self.v = ('exc', e)


def real_process(client, status, hv):
    """-> (0 ok | 1 permanent | 2 transient | 3 ValueError / unparsable code, code or None)"""
    client.conn = None
    r = _Result()
    if HttpRelayClient.reply_code_pattern.match(hv or ''):
        m = HttpRelayClient.reply_code_pattern.match(hv or '')
        try:
            Reply(m.group(1))
        except ValueError:
            # the Reply code setter refuses it: today a ValueError escapes (the pending D15 repair turns it into "no reply")
            return (3, None)
    try:
        client._process_response(_Res(status, hv), r)
    except ValueError:
        return (3, None)
    if r.v is None:
        return ('no-result', None)
    kind, v = r.v
    if kind == 'set':
        return (0, v.code if v is not None else None)
    rp = getattr(v, 'reply', None)
    return (1 if isinstance(v, PermanentRelayError) else 2, rp.code if (rp is not None and isinstance(v, SmtpRelayError)) else None)


# ============================================================ hops
def gen_message(rng, seven_bit):
    """(data handed to Envelope.parse on the relay side)"""
    for _ in range(50):
        fs = C20.gen_fields(rng)
        if not C20.strict_class(fs):
            continue
        if any((not n) or any(c <= 32 or c >= 127 or c == 58 for c in n) for n, _, _ in fs):
            continue
        hd, blank = C20.render(fs, rng, rng.choice(['crlf', 'lf', 'mixed']))
        body = rng.choice([C20.gen_body, C20.gen_body, C05.gen_message])(rng)[:1500]
        if seven_bit:
            body = bytes(c & 0x7f for c in body)
        return hd + blank + body
    return b'Subject: x\r\n\r\nbody\r\n'


def expected_body(hd, body):
    m = hd + body
    if not m or m.endswith(CRLF):
        return body
    return body + CRLF


def hop_cases(ctx):
    """every subset of {PIPELINING, 8BITMIME, SMTPUTF8, SIZE, AUTH} x {EHLO, HELO fallback} x {one connection per
    message, two messages on one connection} x {smtp, lmtp}"""
    rng = ctx.rng
    names = ['PIPELINING', '8BITMIME', 'SMTPUTF8', 'SIZE', 'AUTH']
    per = 1 if ctx.quick else 6
    cases = []
    for proto in ('smtp', 'lmtp'):
        for bits in range(32):
            exts = [n for i, n in enumerate(names) if bits >> i & 1]
            for helo in ((False, True) if proto == 'smtp' else (False,)):
                for reuse in (False, True):
                    for _ in range(per):
                        utf8 = 'SMTPUTF8' in exts and not helo
                        eight = '8BITMIME' in exts and not helo
                        msgs = []
                        for k in range(2):
                            sender = rng.choice(['', gen_addr(rng, utf8), gen_addr(rng, utf8), QUOTED_WITNESS])
                            rcpts = [gen_addr(rng, utf8) for _ in range(rng.choice([1, 2, 3, 5]))]
                            if rng.random() < 0.15:
                                rcpts[rng.randrange(len(rcpts))] = QUOTED_WITNESS
                            if len(set(rcpts)) < len(rcpts):
                                rcpts = list(dict.fromkeys(rcpts))
                            verdict = rng.choice([None, None, None, '451', '550', '452'])
                            msgs.append(dict(sender=sender, rcpts=rcpts, data=b'X-Hop-Id: %d\r\n' % k + gen_message(rng, not eight and rng.random() < 0.85), verdict=verdict))
                        cases.append(dict(proto=proto, exts=exts, helo=helo, reuse=reuse, size=10 ** 7, msgs=msgs))
    return cases


QUOTED_WITNESS = '"a\\"b>c"@x.example'


def d16_symptom(sent, seen):
    """every address arrived intact except addresses with a quoted pair, which arrive cut short or
    (rejected with 501) not at all"""
    j = 0
    for a in sent:
        if j < len(seen) and (a == seen[j] or ('\\"' in a and a.startswith(seen[j]))):
            j += 1
        elif '\\"' in a:
            continue
        else:
            return False
    return j == len(seen)


def judge_hop(ctx, case, out, transport):
    """the property evaluated on what the implementation did"""
    msgs = case['msgs']
    got = {}
    dup = False
    for g in out['got']:
        if g['id'] in got:
            dup = True
        got[g['id']] = g
    helo = bool(case.get('helo'))
    exts = set(case.get('exts', [])) if transport != 'http' else {'8BITMIME', 'SMTPUTF8'}
    eff = set() if helo else exts
    pub = dict(kind='hop', transport=transport, proto=case.get('proto'), exts=sorted(case.get('exts', [])), helo=helo, reuse=bool(case.get('reuse')),
               msgs=[dict(sender=m['sender'], rcpts=m['rcpts'], data=m['data'], verdict=m.get('verdict')) for m in msgs])
    if dup:
        _fail(ctx, 'c06:delivered-twice', pub, 'a message reached the queue more than once: %r' % ([g['id'] for g in out['got']],))
    for i, m in enumerate(msgs):
        if i >= len(out['results']):
            break
        res = out['results'][i]
        env = make_env(m)
        hd, body = env.flatten()
        ascii_addrs = all(a.isascii() for a in [m['sender']] + m['rcpts'])
        in_scope = ascii_addrs or 'SMTPUTF8' in eff
        eightbit = any(c > 127 for c in body)
        label = dict(pub, index=i)
        g = got.get(i)
        if res == ('hang',):
            key = 'c06:hop-hangs'
            if transport == 'http' and i > 0 and case.get('reuse'):
                key = 'c06:http-connection-reuse'
            _fail(ctx, key, label, 'attempt() did not return for message %d (%s at the edge)' % (i, 'queued' if g else 'not queued'))
            return
        if not in_scope:
            ctx.count('hop:out-of-scope-nonascii-without-smtputf8')
            if res[0] == 'ok' and res[1]:
                ctx.note('non-ASCII address without SMTPUTF8 reported delivered: %r' % (res,))
            continue
        if eightbit and '8BITMIME' not in eff and transport != 'http':
            ctx.count('hop:refused-8bit')
            if res[0] == 'ok' or g is not None:
                _fail(ctx, 'c06:8bit-sent-without-8bitmime', label, 'result %r, at the edge: %r' % (res, g))
            continue
        want_code = m.get('verdict') or '250'
        # the envelope must have reached the edge's queue exactly as sent
        if g is None:
            key = 'c06:not-delivered'
            if any('\\"' in a for a in [m['sender']] + m['rcpts']):
                key = 'c06:quoted-pair-in-address'
            if transport == 'http' and i > 0 and case.get('reuse'):
                key = 'c06:http-connection-reuse'
            _fail(ctx, key, label, 'message %d never reached the queue; relay result %r' % (i, res))
            continue
        diffs = []
        if g['sender'] != m['sender']:
            diffs.append('sender %r -> %r' % (m['sender'], g['sender']))
        if g['rcpts'] != m['rcpts']:
            diffs.append('recipients %r -> %r' % (m['rcpts'], g['rcpts']))
        if g['hdr'] != hd:
            diffs.append('header block %r -> %r' % (hd, g['hdr']))
        wantb = body if transport == 'http' else expected_body(hd, body)
        if g['body'] != wantb:
            diffs.append('body %r -> %r' % (wantb[:80], g['body'][:80]))
        if diffs:
            key = 'c06:envelope-changed'
            sent = [m['sender']] + m['rcpts']
            seen = [g['sender']] + g['rcpts']
            # the D16 symptom: an address with a quoted pair arrives cut short, everything else is intact
            if g['hdr'] == hd and g['body'] == wantb and d16_symptom(sent, seen):
                key = 'c06:quoted-pair-in-address'
            elif g['hdr'] == hd and g['body'] == wantb and len(sent) == len(seen) and all(
                    a == b or changed_key(a, b, None) for a, b in zip(sent, seen)):
                key = 'c06:address-code-points-changed'
                diffs.append('code points: ' + '; '.join('%s -> %s' % (['U+%04X' % ord(c) for c in a], ['U+%04X' % ord(c) for c in b])
                                                       for a, b in zip(sent, seen) if a != b))
            _fail(ctx, key, label, '; '.join(diffs))
        # reply code reported
        if want_code[0] == '2':
            if transport == 'http':
                ok = res == ('ok', want_code)
            elif case['proto'] == 'lmtp':
                ok = res[0] == 'ok' and all(v == want_code for v in res[1].values()) and list(res[1].keys()) == m['rcpts']
            else:
                ok = res[0] == 'ok' and all(v == want_code for v in res[1].values()) and set(res[1].keys()) == set(m['rcpts'])
        else:
            if transport != 'http' and case['proto'] == 'lmtp':
                ok = res[0] == 'ok' and all(v == 'E' + want_code for v in res[1].values())
            else:
                ok = res == ('err', 'perm' if want_code[0] == '5' else 'trans', want_code)
        if not ok:
            key = 'c06:code-not-reported'
            if transport == 'http' and i > 0 and case.get('reuse') and res[:2] == ('err', 'trans') and res[2] in (None, '450') and want_code != '450':
                key = 'c06:http-connection-reuse'      # the symptom of D29: a generic transient failure on the kept-alive connection
            elif any('\\"' in a for a in [m['sender']] + m['rcpts']) and diffs:
                key = 'c06:quoted-pair-in-address'
            _fail(ctx, key, label, 'edge answered %s for message %d, the relay reports %r' % (want_code, i, res))
    if transport != 'http':
        for ce, adv in zip(out['client_exts'], out['advertised']):
            if helo:
                if ce != {}:
                    _fail(ctx, 'c06:extensions-differ', pub, 'after HELO the client believes in %r' % (ce,))
            elif adv and ce != adv[-1]:
                _fail(ctx, 'c06:extensions-differ', pub, 'advertised %r, client sees %r' % (adv[-1], ce))


def model_hop_check(ctx, case, out):
    """the model's prediction of wire bytes and delivered envelope against what happened (SMTP/LMTP)"""
    if out['hang'] or not out['client_exts'] or out['client_exts'][0] is None:
        return
    got = {g['id']: g for g in out['got']}
    for i, m in enumerate(case['msgs']):
        conn = 0 if case.get('reuse') else i
        if conn >= len(out['client_exts']) or out['client_exts'][conn] is None:
            return
        ce = out['client_exts'][conn]
        env = make_env(m)
        hd, body = env.flatten()
        res = out['results'][i] if i < len(out['results']) else None
        if C20_inclass(hd) is False:
            continue
        wire = B(ctx.model.call('c06_data_wire', [m['sender'], m['rcpts'], hd, body]))
        o = ctx.model.call('c06_smtp_hop', [enc_exts(ce), m['sender'], m['rcpts'], hd, body, b'', [wire]])
        if o[0] == 0:
            pred = dict(id=i, sender=U(o[1]), rcpts=[U(x) for x in o[2]], hdr=B(o[3]), body=B(o[4]))
            if got.get(i) != pred:
                ctx.mismatch('smtp_hop', dict(exts=ce, msg=m), got.get(i), pred)
            # the client's bytes: MAIL, RCPT..., DATA, message
            mm = dec_optb(ctx.model.call('c06_build_mail', [enc_exts(ce), m['sender'], [], [[]]]))
            rr = [dec_optb(ctx.model.call('c06_build_rcpt', [enc_exts(ce), r])) for r in m['rcpts']]
            cw = out['client_wire'][conn]
            head = mm + CRLF + b''.join(r + CRLF for r in rr) + b'DATA' + CRLF
            if head not in cw or wire not in cw:
                ctx.mismatch('client-wire', dict(exts=ce, msg=m), cw, head + wire)
        elif o[0] == 1:
            if res is None or res[0] == 'ok' or i in got:
                ctx.mismatch('smtp_hop-refused', dict(exts=ce, msg=m), res, o)
        elif o[0] == 2:
            # UnicodeEncodeError in Client._encode: escapes (older tree) or is reported as 553 by the relay client
            if res is None or not (res[0] == 'exc' or res == ('err', 'perm', '553')) or i in got:
                ctx.mismatch('smtp_hop-encode', dict(exts=ce, msg=m), res, o)
            if res is not None and res[0] == 'exc':
                return       # the client greenlet died with the UnicodeEncodeError
        else:
            ctx.mismatch('smtp_hop-other', dict(exts=ce, msg=m), res, o)
    # EHLO reply: wire and what the client made of it
    for conn, (adv, sw, ce) in enumerate(zip(out['advertised'], out['server_wire'], out['client_exts'])):
        if case.get('helo') or not adv:
            continue
        reps = split_replies(sw)
        if len(reps) < 2:
            continue
        greeting = reps[1][1][0].decode('utf-8')
        wire = b''.join(b'250' + (b'-' if j < len(reps[1][1]) - 1 else b' ') + l + CRLF for j, l in enumerate(reps[1][1]))
        mw = B(ctx.model.call('c06_ehlo_wire', [greeting, enc_exts(adv[0])]))
        if mw != wire:
            ctx.mismatch('ehlo-wire', dict(adv=adv[0]), wire, mw)
        mo = ctx.model.call('c06_client_exts', [0, greeting, enc_exts(adv[0]), b'', [wire]])
        if not mo or dec_exts(mo[0]) != ce:
            ctx.mismatch('client-exts', dict(adv=adv[0]), ce, mo)


def C20_inclass(hd):
    """is the flattened header block in the class the model's codec handles (every line <= 78, CRLF)"""
    for line in hd.split(CRLF):
        if len(line) > 78:
            return False
    return True


SIMPLE_MSG = b'X-Hop-Id: %d\r\nSubject: test\r\n\r\nbody\r\n'


def probe_cases():
    """small fixed cases run first, so that a failure is reported on a short replay"""
    out = []
    for proto in ('smtp', 'lmtp'):
        out.append(dict(proto=proto, exts=['PIPELINING', '8BITMIME', 'SMTPUTF8'], helo=False, reuse=False, size=10 ** 7,
                        msgs=[dict(sender=QUOTED_WITNESS, rcpts=['r@example.com'], data=SIMPLE_MSG % 0, verdict=None)]))
        out.append(dict(proto=proto, exts=['PIPELINING', '8BITMIME', 'SMTPUTF8'], helo=False, reuse=True, size=10 ** 7,
                        msgs=[dict(sender='s@example.com', rcpts=['r@example.com', '"\\""@example.com'], data=SIMPLE_MSG % 0, verdict=None),
                              dict(sender='', rcpts=['\xe9@example.com'], data=SIMPLE_MSG % 1, verdict='550')]))
    out.append(dict(proto='smtp', exts=[], helo=True, reuse=False, size=10 ** 7,
                    msgs=[dict(sender='s@example.com', rcpts=['"a b"@example.com'], data=SIMPLE_MSG % 0, verdict='451')]))
    # addresses whose code points a Unicode normalisation would rewrite (decomposed, singletons, jamo, compatibility
    # characters, joiners, variation selectors, bidi marks): local part (atom and quoted) and domain labels
    for proto in ('smtp', 'lmtp'):
        for exts in (['PIPELINING', '8BITMIME', 'SMTPUTF8'], ['8BITMIME', 'SMTPUTF8']):
            out.append(dict(proto=proto, exts=exts, helo=False, reuse=True, size=10 ** 7, msgs=[
                dict(sender='e\u0301@example.com', rcpts=['\u212b.\u2126@\u212a.example', '"a\u0301\u0323 \ufb01"@e\u0301.example'],
                     data=SIMPLE_MSG % 0, verdict=None),
                dict(sender='"\u1112\u1161\u11ab"@\u1112\u1161\u11ab.kr', rcpts=['a\u200db@a\u200cb.example', '\uff41\uff42.x\u00b2@example.com',
                     '\u2764\ufe0f.a\u200eb@example.com', 'q\u0307\u0323@example.com'], data=SIMPLE_MSG % 1, verdict='550')]))
    # outside the property (UTF-8 address, SMTPUTF8 not advertised): model and code must still agree that nothing is sent
    out.append(dict(proto='smtp', exts=['PIPELINING', '8BITMIME'], helo=False, reuse=True, size=10 ** 7,
                    msgs=[dict(sender='\xe9@example.com', rcpts=['r@example.com'], data=SIMPLE_MSG % 0, verdict=None),
                          dict(sender='s@example.com', rcpts=['r@example.com', '\u65e5\u672c@example.com'], data=SIMPLE_MSG % 1, verdict=None)]))
    return out


# ---------------------------------------------------------------- duplicate recipients
DUP_KEY = 'c06:recipient-result-from-another-recipients-reply'
A, Bb, Cc, N1, N2, T1 = ('alice@example.com', 'bob@example.com', 'carol@example.com', 'nobody1@example.com',
                         '"no body"@example.com', 'later@example.com')
DUP_PATTERNS = [
    # (recipients in order, {address: RCPT verdict of the edge})
    ([A, A], {}),
    ([A, Bb, A], {}),
    ([A, A, N1], {N1: '550'}),
    ([A, Bb, A, N1, Cc], {N1: '550'}),
    ([N1, A, A], {N1: '550'}),
    ([A, N1, A], {N1: '550'}),
    ([N1, N1, A], {N1: '550'}),
    ([A, N1, N1, Bb], {N1: '550'}),
    ([A, T1, A, T1, Bb], {T1: '450'}),
    ([A, N1, Bb, T1, A, Cc], {N1: '550', T1: '450'}),
    ([Bb, A, N2, A, N1, Bb, Cc], {N1: '550', N2: '550'}),
    ([N1, N1], {N1: '550'}),
    ([N1, T1, N1], {N1: '550', T1: '450'}),
    ([T1, T1, T1], {T1: '450'}),
    ([A, Bb, Cc, N1], {N1: '550'}),           # no duplicate: control
]


def dup_cases(ctx):
    """envelopes with repeated recipient addresses (adjacent, non-adjacent, before / after a rejected
    recipient) x RCPT verdicts of the edge x {smtp, lmtp} x {PIPELINING on, off} x {EHLO, HELO} x
    {fresh, reused connection}"""
    rng = ctx.rng
    cases = []
    for proto in ('smtp', 'lmtp'):
        for pipelining in (True, False):
            exts = (['PIPELINING'] if pipelining else []) + ['8BITMIME', 'SMTPUTF8']
            pats = list(DUP_PATTERNS)
            for _ in range(6 if ctx.quick else 60):
                pool = list(dict.fromkeys(gen_addr(rng, False) for _ in range(rng.choice([2, 3, 4]))))
                rcpts = [rng.choice(pool) for _ in range(rng.choice([2, 3, 4, 5, 6]))]
                rv = {a: v for a in pool for v in [rng.choice([None, None, '550', '450'])] if v}
                pats.append((rcpts, rv))
            for j, (rcpts, rv) in enumerate(pats):
                helo = proto == 'smtp' and not pipelining and j % 5 == 4
                reuse = j % 2 == 1
                # second message on the same connection / a second connection: same pattern rotated
                r2 = rcpts[1:] + rcpts[:1]
                msgs = [dict(sender='s@example.com', rcpts=list(rcpts), data=SIMPLE_MSG % 0, verdict=None),
                        dict(sender='', rcpts=r2, data=SIMPLE_MSG % 1, verdict=rng.choice([None, None, '451']))]
                cases.append(dict(proto=proto, exts=exts, helo=helo, reuse=reuse, size=10 ** 7, rv=dict(rv), msgs=msgs))
    return cases


def judge_dups(ctx, case, out):
    """(a) the queued envelope carries exactly the accepted occurrences, in order, duplicates kept;
    (b) what the relay reports for an address is a reply the edge gave to that address (or, when all its
    occurrences were accepted, the reply to the message) - never another address's reply"""
    rv = case.get('rv') or {}
    got = {}
    for g in out['got']:
        got.setdefault(g['id'], []).append(g)
    lmtp = case['proto'] == 'lmtp'
    pub = dict(kind='hop', transport='smtp', proto=case['proto'], exts=sorted(case['exts']), helo=bool(case.get('helo')),
               reuse=bool(case.get('reuse')), rv=rv,
               msgs=[dict(sender=m['sender'], rcpts=m['rcpts'], data=m['data'], verdict=m.get('verdict')) for m in case['msgs']])
    for i, m in enumerate(case['msgs']):
        if i >= len(out['results']):
            _fail(ctx, 'c06:hop-hangs', dict(pub, index=i), 'no result for message %d' % i)
            return
        res = out['results'][i]
        label = dict(pub, index=i)
        if res == ('hang',):
            _fail(ctx, 'c06:hop-hangs', label, 'attempt() did not return for message %d' % i)
            return
        rcpts = m['rcpts']
        accepted = [r for r in rcpts if not rv.get(r)]
        distinct = list(dict.fromkeys(rcpts))
        msgcode = m.get('verdict') or '250'
        # (a)
        gl = got.get(i, [])
        if accepted:
            if len(gl) != 1:
                _fail(ctx, 'c06:not-delivered' if not gl else 'c06:delivered-twice', label,
                      'message %d reached the queue %d times; relay result %r' % (i, len(gl), res))
            elif gl[0]['sender'] != m['sender'] or gl[0]['rcpts'] != accepted:
                _fail(ctx, 'c06:duplicate-recipients-not-preserved', label,
                      'edge accepted the occurrences %r (sender %r), its queue got %r (sender %r)' % (accepted, m['sender'], gl[0]['rcpts'], gl[0]['sender']))
        elif gl:
            _fail(ctx, 'c06:envelope-changed', label, 'every recipient was rejected, yet the queue got %r' % (gl,))
        # (b)
        if res[0] == 'err':
            # one error for the whole message: legitimate only if it is the reply every address got
            if accepted:
                allowed = {msgcode} if msgcode[0] != '2' and not lmtp else set()
            else:
                allowed = set(rv[r] for r in rcpts)
                if len(allowed) > 1:
                    allowed = set()
            if res[2] not in allowed or res[1] != ('perm' if res[2][0] == '5' else 'trans'):
                _fail(ctx, DUP_KEY, label, 'message %d: edge replies per address %r, message reply %s; the relay reports %r for all of them'
                      % (i, {r: rv.get(r) or 'accepted' for r in distinct}, msgcode if accepted else '(no DATA)', res))
            continue
        if res[0] != 'ok' or not isinstance(res[1], dict):
            _fail(ctx, DUP_KEY, label, 'message %d: unexpected relay result %r' % (i, res))
            continue
        rep = res[1]
        if list(rep.keys()) != distinct:
            _fail(ctx, DUP_KEY, label, 'message %d: results for %r, recipients (first occurrences) %r' % (i, list(rep.keys()), distinct))
            continue
        for a in distinct:
            want = ('E' + rv[a]) if rv.get(a) else (msgcode if msgcode[0] == '2' else 'E' + msgcode)
            if rep[a] != want:
                other = [b for b in distinct if b != a and rep[a] in ((('E' + rv[b]) if rv.get(b) else None), msgcode)]
                _fail(ctx, DUP_KEY, label,
                      'message %d, recipients %r: the edge answered %s to every occurrence of %r%s, the relay reports %r for it%s'
                      % (i, rcpts, rv.get(a) or '250', a, '' if rv.get(a) else ' and %s to the message' % msgcode, rep[a],
                         (' (the reply given to %r)' % other[0]) if other else ''))


def run_dup_hops(ctx):
    cases = dup_cases(ctx)
    for case in cases:
        out = run_smtp_hop(case)
        ctx.count('hop-dup:%s:%s' % (case['proto'], 'pipelining' if 'PIPELINING' in case['exts'] and not case['helo'] else 'one-by-one'))
        for m in case['msgs']:
            ctx.evaluated(('hop-dup', case['proto'], tuple(case['exts']), case['helo'], case['reuse'], tuple(m['rcpts']),
                           tuple(sorted(case['rv'].items())), m.get('verdict')), nontrivial=len(set(m['rcpts'])) < len(m['rcpts']))
        judge_dups(ctx, case, out)
        if not case['rv']:
            model_hop_check(ctx, case, out)      # the model has no validator: only where nothing is rejected
    ctx.count('hops-duplicate-recipients', len(cases))
    ctx.sample(dict(kind='hop-dup', recipients=[A, Bb, A, N1, Cc], rcpt_verdicts={N1: '550'}))


# ---------------------------------------------------------------- HTTP: every reply code of the edge's queue
CODE_KEY = 'c06:edge-reply-code-not-reported'
CODES_ALWAYS = ['421', '450', '451', '452', '454', '500', '501', '503', '504', '530', '534', '535', '538', '550', '551', '552', '553', '554', '555', '599', '400', '499']


def run_http_codes(ctx):
    """the queue behind WsgiEdge refuses with each 4xx / 5xx reply code (and accepts: 250), through the real
    HttpRelay, http.client and pywsgi: the relay must report exactly the code the queue gave"""
    codes = CODES_ALWAYS + [str(n) for n in range(400, 600) if str(n) not in CODES_ALWAYS]
    batches = [codes[i:i + 25] for i in range(0, len(codes), 25)]
    for bi, batch in enumerate(batches):
        verdicts = [None] + batch
        msgs = [dict(sender='s@example.com', rcpts=['r%d@example.com' % k], data=SIMPLE_MSG % k, verdict=v) for k, v in enumerate(verdicts)]
        case = dict(reuse=(bi % 2 == 0), msgs=msgs)
        out = run_http_hop(case)
        ctx.count('hop:http-codes', len(msgs))
        got = {g['id']: g for g in out['got']}
        seen = {}
        for (code, status, hv) in out.get('replies', []):
            seen.setdefault(code, (status, hv))
        for k, m in enumerate(msgs):
            want = m['verdict'] or '250'
            ctx.evaluated(('http-code', want, case['reuse']), nontrivial=True)
            label = dict(kind='hop', transport='http', reuse=case['reuse'], index=0,
                         msgs=[dict(sender=m['sender'], rcpts=m['rcpts'], data=SIMPLE_MSG % 0, verdict=m['verdict'])])
            if k >= len(out['results']):
                _fail(ctx, 'c06:hop-hangs', label, 'no result (an earlier attempt on the connection did not return)')
                break
            res = out['results'][k]
            exp = ('ok', want) if want[0] == '2' else ('err', 'perm' if want[0] == '5' else 'trans', want)
            if k not in got:
                _fail(ctx, 'c06:not-delivered', label, 'the envelope never reached the edge\'s queue; relay result %r' % (res,))
            if res != exp:
                st = seen.get(want)
                _fail(ctx, CODE_KEY, label,
                      'the queue behind the WSGI edge answered %s (HTTP response %r, X-Smtp-Reply %r), the relay reports %r'
                      % (want, st[0] if st else None, st[1] if st else None, res))


# ---------------------------------------------------------------- sequences: a failed message, then an ordinary one
SEQ_KEY = 'c06:message-after-failed-message-not-delivered'
UADDR = '\u65e5\u672c@example.com'
EIGHT = b'X-Hop-Id: %d\r\nSubject: eight\r\n\r\nb\xf8dy\r\n'
FAIL_KINDS = ['bad-sender', 'bad-first-rcpt', 'bad-later-rcpt', 'bad-last-of-3-rcpt', 'mail-rejected', 'rcpt-rejected-all',
              'rcpt-rejected-some', 'rcpt-deferred-all', 'data-rejected-550', 'data-rejected-451', '8bit-body']


def failing_message(kind, k):
    """(message dict, local = nothing of it may reach the queue)"""
    m = dict(sender='s%d@example.com' % k, rcpts=['a%d@example.com' % k, 'b%d@example.com' % k], data=SIMPLE_MSG % k, verdict=None)
    if kind == 'bad-sender':
        m['sender'] = UADDR
    elif kind == 'bad-first-rcpt':
        m['rcpts'] = [UADDR, 'b%d@example.com' % k]
    elif kind == 'bad-later-rcpt':
        m['rcpts'] = ['a%d@example.com' % k, UADDR]
    elif kind == 'bad-last-of-3-rcpt':
        m['rcpts'] = ['a%d@example.com' % k, 'b%d@example.com' % k, UADDR]
    elif kind == 'mail-rejected':
        m['sender'] = 'refused@example.com'
    elif kind == 'rcpt-rejected-all':
        m['rcpts'] = ['nobody1@example.com', 'nobody2@example.com']
    elif kind == 'rcpt-rejected-some':
        m['rcpts'] = ['a%d@example.com' % k, 'nobody1@example.com']
    elif kind == 'rcpt-deferred-all':
        m['rcpts'] = ['later@example.com']
    elif kind == 'data-rejected-550':
        m['verdict'] = '550'
    elif kind == 'data-rejected-451':
        m['verdict'] = '451'
    elif kind == '8bit-body':
        m['data'] = EIGHT % k
    return m


SEQ_RV = {'nobody1@example.com': '550', 'nobody2@example.com': '550', 'later@example.com': '450'}
SEQ_MV = {'refused@example.com': '550'}


def seq_cases(ctx):
    """one connection, 2-3 messages: an earlier message fails locally or remotely in each way, a later ordinary
    message follows.  Server configurations: without SMTPUTF8 (and, for the 8-bit kind, without 8BITMIME),
    PIPELINING on / off, HELO fallback; smtp and lmtp"""
    cases = []
    for proto in ('smtp', 'lmtp'):
        for cfg in ('pipelining', 'plain', 'helo'):
            if cfg == 'helo' and proto == 'lmtp':
                continue
            exts = {'pipelining': ['PIPELINING'], 'plain': [], 'helo': ['PIPELINING', '8BITMIME', 'SMTPUTF8']}[cfg]
            for kind in FAIL_KINDS:
                shapes = [[kind, 'ok'], ['ok', kind, 'ok'], [kind, kind, 'ok']] if not ctx.quick or kind.startswith('bad') else [[kind, 'ok'], ['ok', kind, 'ok']]
                for shape in shapes:
                    msgs = []
                    for k, what in enumerate(shape):
                        if what == 'ok':
                            msgs.append(dict(sender='ok%d@example.com' % k, rcpts=['x%d@example.com' % k, '"y %d"@example.com' % k],
                                             data=SIMPLE_MSG % k, verdict=None, ordinary=True))
                        else:
                            msgs.append(failing_message(what, k))
                    cases.append(dict(proto=proto, exts=exts, helo=(cfg == 'helo'), reuse=True, size=10 ** 7,
                                      rv=dict(SEQ_RV), mv=dict(SEQ_MV), msgs=msgs, shape=shape))
    return cases


def run_sequences(ctx):
    for case in seq_cases(ctx):
        out = run_smtp_hop(case)
        ctx.count('hop-seq:%s' % case['proto'])
        pub = dict(kind='hop', transport='smtp', proto=case['proto'], exts=sorted(case['exts']), helo=case['helo'], reuse=True,
                   rv=case['rv'], mv=case['mv'], shape=case['shape'],
                   msgs=[dict(sender=m['sender'], rcpts=m['rcpts'], data=m['data'], verdict=m.get('verdict')) for m in case['msgs']])
        byid = {}
        for g in out['got']:
            byid.setdefault(g['id'], []).append(g)
        eff = set() if case['helo'] else set(case['exts'])
        for k, m in enumerate(case['msgs']):
            ctx.evaluated(('hop-seq', case['proto'], tuple(case['exts']), case['helo'], tuple(case['shape']), k), nontrivial=True)
            res = out['results'][k] if k < len(out['results']) else ('missing',)
            label = dict(pub, index=k)
            if res in (('hang',), ('missing',)):
                _fail(ctx, 'c06:hop-hangs', label, 'attempt() did not return for message %d of %r' % (k, case['shape']))
                break
            if m.get('ordinary'):
                # metamorphic: the same message alone on a fresh connection to the same edge
                solo = run_smtp_hop(dict(case, reuse=False, msgs=[m]))
                sres = solo['results'][0] if solo['results'] else ('missing',)
                sgot = [dict(g, id=None) for g in solo['got']]
                here = [dict(g, id=None) for g in byid.get(k, [])]
                env = make_env(m)
                hd, body = env.flatten()
                intact = (len(here) == 1 and here[0]['sender'] == m['sender'] and here[0]['rcpts'] == m['rcpts']
                          and here[0]['hdr'] == hd and here[0]['body'] == expected_body(hd, body))
                okres = res[0] == 'ok' and isinstance(res[1], dict) and all(v == '250' for v in res[1].values()) and list(res[1].keys()) == m['rcpts']
                if res != sres or here != sgot or not intact or not okres:
                    _fail(ctx, SEQ_KEY, label,
                          'after %r on the same connection, message %d (sender %r) is reported %r and reaches the queue as %r; '
                          'alone on a fresh connection: %r / %r'
                          % (case['shape'][:k], k, m['sender'], res, [(g['sender'], g['rcpts']) for g in here], sres,
                             [(g['sender'], g['rcpts']) for g in sgot]))
            else:
                kind = case['shape'][k]
                local = kind.startswith('bad') or kind == '8bit-body'
                if kind.startswith('bad') and 'SMTPUTF8' in eff:
                    local = False
                if kind == '8bit-body' and '8BITMIME' in eff:
                    local = False
                if local and (res[0] == 'ok' or byid.get(k)):
                    _fail(ctx, 'c06:unsendable-message-sent', label, 'message %d (%s) could not be sent as it is, yet: result %r, queue %r' % (k, kind, res, byid.get(k)))
        # nothing but the messages of the case may be in the queue (no empty or merged envelopes)
        for g in out['got']:
            if g['id'] is None or g['id'] >= len(case['msgs']) or len(byid.get(g['id'], [])) > 1:
                _fail(ctx, 'c06:unexpected-envelope-queued', pub, 'the edge queued sender=%r rcpts=%r body=%r, which no message of the case is' % (g['sender'], g['rcpts'], g['body'][:60]))
                break
            m = case['msgs'][g['id']]
            want_r = [r for r in m['rcpts'] if not case['rv'].get(r)]
            if g['sender'] != m['sender'] or g['rcpts'] != want_r:
                _fail(ctx, 'c06:unexpected-envelope-queued', pub, 'the edge queued sender=%r rcpts=%r for message %d (sender %r, accepted recipients %r)'
                      % (g['sender'], g['rcpts'], g['id'], m['sender'], want_r))
                break


def run_hops(ctx):
    cases = probe_cases() + hop_cases(ctx)
    for case in cases:
        out = run_smtp_hop(case)
        tag = '%s:%s:%s' % (case['proto'], 'helo' if case['helo'] else 'ehlo', 'reuse' if case['reuse'] else 'fresh')
        ctx.count('hop:' + tag)
        for m in case['msgs']:
            ctx.evaluated(('hop', case['proto'], tuple(case['exts']), case['helo'], case['reuse'], m['sender'], tuple(m['rcpts']), m['data'], m.get('verdict')),
                          nontrivial=True)
            ctx.count('hop-rcpts:%d' % len(m['rcpts']))
        judge_hop(ctx, case, out, 'smtp')
        model_hop_check(ctx, case, out)
        ctx.sample(dict(kind='hop', proto=case['proto'], exts=case['exts'], helo=case['helo'], reuse=case['reuse'],
                        sender=case['msgs'][0]['sender'], rcpts=case['msgs'][0]['rcpts'], result=repr(out['results'][:1])), cap=5)
    ctx.count('hops-smtp-lmtp', len(cases))


def run_http_hops(ctx, n):
    rng = ctx.rng
    hang_seen = False
    for i in range(-2, n):
        reuse = i % 2 == 1
        if reuse and hang_seen:
            continue
        msgs = []
        for k in range(2):
            if i == -2:       # normalisation-unstable addresses through the base64 headers
                reuse = False
                msgs.append(dict(sender=['e\u0301@\u212b.example', '"\u1112\u1161\u11ab \ufb01"@example.com'][k],
                                 rcpts=[['\u2126@example.com', 'a\u0301\u0323@a\u200db.example'], ['\u2764\ufe0f@example.com']][k],
                                 data=SIMPLE_MSG % k, verdict=None))
                continue
            if i == -1:       # small fixed case first: two messages on one kept-alive connection
                reuse = True
                msgs.append(dict(sender='s@example.com', rcpts=['r%d@example.com' % k], data=SIMPLE_MSG % k, verdict=None))
                continue
            sender = rng.choice(['', gen_addr(rng, True), gen_addr(rng, False), QUOTED_WITNESS])
            rcpts = list(dict.fromkeys(gen_addr(rng, rng.random() < 0.5) for _ in range(rng.choice([1, 2, 3, 5]))))
            msgs.append(dict(sender=sender, rcpts=rcpts, data=b'X-Hop-Id: %d\r\n' % k + gen_message(rng, False), verdict=rng.choice([None, None, '451', '550', '535'])))
        case = dict(reuse=reuse, msgs=msgs)
        out = run_http_hop(case)
        ctx.count('hop:http:' + ('reuse' if reuse else 'fresh'))
        for m in msgs:
            ctx.evaluated(('hop-http', reuse, m['sender'], tuple(m['rcpts']), m['data'], m.get('verdict')), nontrivial=True)
        if out['hang']:
            hang_seen = True
        judge_hop(ctx, case, out, 'http')
        if reuse and not out['hang'] and out['connections'] != 1:
            ctx.note('HTTP relay with idle_timeout opened %d connections for 2 messages' % out['connections'])
        # model: headers -> addresses, and the hop
        for j, m in enumerate(msgs):
            if j >= len(out['headers']) or j >= len(out['environ']):
                break
            env = make_env(m)
            hd, body = env.flatten()
            mh = ctx.model.call('c06_build_headers', ['relay.example', m['sender'], m['rcpts'], hd, body])
            mhl = [(U(h[0]), U(h[1])) for h in mh[0]] if mh else None
            if mhl != out['headers'][j]:
                ctx.mismatch('http-headers', dict(msg=m), out['headers'][j], mhl)
            # environ built by the real pywsgi vs the model's merge
            e = out['environ'][j]
            want_r = ','.join(v for k, v in out['headers'][j] if k == 'X-Envelope-Recipient')
            if e.get('HTTP_X_ENVELOPE_RECIPIENT') != want_r or e.get('HTTP_X_ENVELOPE_SENDER', '') != dict(out['headers'][j]).get('X-Envelope-Sender'):
                ctx.mismatch('wsgi-environ', dict(msg=m), e, want_r)
            if C20_inclass(hd):
                o = ctx.model.call('c06_http_hop', [',', 'relay.example', m['sender'], m['rcpts'], hd, body])
                gj = [g for g in out['got'] if g['id'] == j]
                if gj:
                    pred = dict(id=j, sender=U(o[1]), rcpts=[U(x) for x in o[2]], hdr=B(o[3]), body=B(o[4])) if o[0] == 0 else o
                    if gj[0] != pred:
                        ctx.mismatch('http_hop', dict(msg=m), gj[0], pred)
        for (code, status, hv), m in zip(out['replies'], msgs):
            if code != (m.get('verdict') or '250'):
                ctx.mismatch('edge-reply-code', dict(msg=m), code, m.get('verdict'))


# ============================================================ entry points
def run(ctx):
    gevent.get_hub().exception_stream = io.StringIO()      # greenlets that die on purpose (old trees) stay quiet
    ctx.extra['rule'] = (
        'codecs: every quoted local part over {a,",\\,>,@,SP} to the stated length + random grammar addresses (dot-string, quoted-string, '
        'UTF-8, literals, null sender, a list of invalid ones) x extension sets x SIZE/AUTH parameters through Client.mailfrom/rcptto and '
        'Server._command_MAIL/_command_RCPT; mutated command lines; every parameter string over {A,b,1,-,_,=,SP,0x80} and every command '
        'line over {M,a,SP,TAB,<,CR} to the stated lengths; EHLO strings structured + every string over {A,a,1,-,SP,CR,LF,U+2028,=}; base64 '
        'random + every string over {A,Q,/,=,9,SP}; HTTP headers with several merge separators, malformed recipient headers, reply headers. '
        'hops: real relay client <-> real edge for every subset of {PIPELINING,8BITMIME,SMTPUTF8,SIZE,AUTH} x {EHLO,HELO} x {fresh,reused '
        'connection} x {smtp,lmtp}, 2 messages each (1-5 recipients, C20/C05 bodies, queue verdicts 250/451/452/550), and HTTP hops; '
        'duplicate-recipient hops: fixed + random recipient lists with repeated addresses (adjacent, non-adjacent, around rejected ones) x '
        'per-address RCPT verdicts 250/550/450 of an edge validator x {smtp,lmtp} x {PIPELINING on,off}. '
        'non-trivial = quoted / non-ASCII / parametrised addresses, malformed lines containing separators, every hop message')
    ctx.extra['trusted_base'] = [
        'C06_hop is a composition: DATA framing (C05_roundtrip), envelope parse/flatten (C20_body_exact, hypothesis codec_ok about email), reply wire (C17) are imported theorems',
        'http.client, gevent.pywsgi (header merge with ","), wsgiref.headers are environment; exercised for real by the HTTP hops',
        'reference Mailbox grammar of the oracle: regular expression in harness/props/c06.py (compared with wf_mailbox of the model on every generated address)',
    ]
    q = ctx.quick
    stream_quoted_exhaustive(ctx, 5 if q else 6)
    stream_addresses(ctx, 1500 if q else 20000)
    stream_lines_malformed(ctx, 1500 if q else 20000, 4 if q else 5)
    stream_params_exhaustive(ctx, 4 if q else 5)
    stream_extensions(ctx, 300 if q else 4000, 4 if q else 5)
    stream_base64(ctx, 300 if q else 3000, 5 if q else 6)
    stream_http_codec(ctx, 150 if q else 2000)
    run_http_codes(ctx)
    run_sequences(ctx)
    run_dup_hops(ctx)
    run_hops(ctx)
    run_http_hops(ctx, 30 if q else 300)
    ctx.note('Client.mailfrom never adds the SMTPUTF8 / BODY=8BITMIME parameters (RFC 6531 3.4, RFC 6152); the library\'s own edge does not ask for them')
    ctx.note('the message text of X-Smtp-Reply is cut at the first double quote / shows doubled backslashes (builder escapes, parser does not unescape); the property speaks of the code only')


def _unjson(x):
    if isinstance(x, dict):
        if set(x.keys()) == {'hex'}:
            return bytes.fromhex(x['hex'])
        return {k: _unjson(v) for k, v in x.items()}
    if isinstance(x, list):
        return [_unjson(v) for v in x]
    return x


def replay(ctx, case):
    c = _unjson(case.get('case', case))
    kind = c.get('kind')
    if kind == 'codec':
        wire = c['wire']
        if 'addr' in c and 'exts' in c:
            # rebuild the command with the client of the tree under test
            k0 = c.get('cmd', 'mail')
            now = real_build(k0, c['exts'], c['addr'], c.get('size'), c.get('auth'))
            print('address           : %r  %s' % (c['addr'], ' '.join('U+%04X' % ord(x) for x in c['addr'])))
            if now is not None:
                wire = now
                got = real_pieces(k0, real_recv_command(now + CRLF)[1])
                if got[0] == 0:
                    print('server reads      : %r  %s' % (got[1], ' '.join('U+%04X' % ord(x) for x in got[1])))
                print('same code points  :', got[0] == 0 and got[1] == c['addr'])
        print('client sends      :', wire)
        rc = real_recv_command(wire + CRLF)
        k = 'mail' if rc[0] == b'MAIL' else 'rcpt'
        print('server understands:', real_pieces(k, rc[1]))
        if ctx.model:
            print('model (repaired)  :', dec_addr_res(ctx.model.call('c06_parse_' + k, rc[1])))
            if k == 'mail':
                print('model (D16 scanner):', dec_addr_res(ctx.model.call('c06_parse_mail_d16', rc[1])))
        return 0
    if kind == 'hop':
        hop = dict(proto=c.get('proto'), exts=c.get('exts', []), helo=c.get('helo'), reuse=c.get('reuse'), size=10 ** 7, msgs=c['msgs'], rv=c.get('rv') or {}, mv=c.get('mv') or {})
        out = run_http_hop(hop) if c.get('transport') == 'http' else run_smtp_hop(hop)
        if hop['rv']:
            print('RCPT verdicts of the edge:', hop['rv'])
        for i, m in enumerate(hop['msgs']):
            print('sent     %d: sender=%r rcpts=%r verdict=%r' % (i, m['sender'], m['rcpts'], m.get('verdict')))
        for i, g in enumerate(out['got']):
            print('received %d: sender=%r rcpts=%r' % (i, g['sender'], g['rcpts']))
        print('relay results:', out['results'])
        if 'client_wire' in out:
            print('client wire :', out['client_wire'])
        return 0
    print(c)
    return 0
