"""C08 - nothing crosses the STARTTLS boundary; AUTH only when permitted.

Correspondence of model/Tls.v with the REAL slimta.smtp.server.Server + slimta.edge.smtp.SmtpSession
over a gevent socketpair with REAL TLS (self-signed certificate in harness/certs), the real
slimta.smtp.client.Client against a scripted TLS server, AuthSession/pysasl, base64 - and the
property oracle evaluated on what the implementation did (independent of the model).

A server case is a client script: a list of actions
    ('send', bytes)   one write on the current channel (plain socket or TLS)
    ('tls',)          the client starts the TLS handshake on its side
    ('raw', bytes)    bytes written on the raw socket where a ClientHello is expected
After every action the client waits until the server blocks in IO.raw_recv having read every
application byte sent so far (no sleeps), then drains the replies.  The chunks the server's raw_recv
returned on the plain and on the TLS socket are the model's wire."""
import os, re, base64, itertools, json
import gevent, gevent.event
import gevent.socket as gsocket
import gevent.ssl as gssl
import email.utils
import pysasl

from vp.core import B, canon

import slimta.smtp.server as server_mod
import slimta.smtp.client as client_mod
import slimta.smtp.auth as auth_mod
import slimta.edge.smtp as edge_mod
from slimta.smtp.io import IO
from slimta.smtp.server import Server
from slimta.smtp.client import Client
from slimta.smtp.auth import AuthSession
from slimta.smtp import ConnectionLost, BadReply, SmtpError
from slimta.edge.smtp import SmtpSession, SmtpValidators

ASSUMPTIONS = [
    'TLS itself (gevent.ssl / OpenSSL) is a channel swap: bytes read from the SSLSocket were protected by the handshake, bytes read from the plain socket were not',
    'plain-text bytes still unread in the kernel when the handshake starts make the handshake fail (they are never application data); cases put the pipelined suffix in the same write as STARTTLS so that it is in recv_buffer',
    'pysasl mechanisms raise only ServerChallenge / AuthenticationError / ValueError (checked for PLAIN, LOGIN, CRAM-MD5 on the generated responses)',
    'handle_tls/handle_tls2 validators do not raise; command_timeout not modelled (C14); DATA framing is C05/C09 (bodies here are CRLF lines, no size limit)',
    'validators are functions of (handler, argument): the verdict table of a case',
    'AuthSession._parse_arg is compared on arguments recv_command can produce (no LF, no trailing white space)',
]

CERT = os.path.join(os.path.dirname(os.path.dirname(os.path.abspath(__file__))), 'certs', 'test.crt')
KEY = os.path.join(os.path.dirname(os.path.dirname(os.path.abspath(__file__))), 'certs', 'test.key')
MSGID = '<c08.1@verif.example>'
MECHS = [b'PLAIN', b'LOGIN', b'CRAM-MD5']
ADDR = ('192.0.2.1', 4321)

K_BANNER, K_EHLO, K_HELO, K_AUTH, K_RSET, K_MAIL, K_RCPT, K_DATA, K_HAVE, K_QUEUED, K_STLS = range(11)

_ctx = {}


def contexts():
    if not _ctx:
        s = gssl.SSLContext(gssl.PROTOCOL_TLS_SERVER)
        s.load_cert_chain(CERT, KEY)
        c = gssl.SSLContext(gssl.PROTOCOL_TLS_CLIENT)
        c.check_hostname = False
        c.verify_mode = gssl.CERT_NONE
        _ctx['s'], _ctx['c'] = s, c
    return _ctx['s'], _ctx['c']


# ---------------------------------------------------------------- patches from outside (restored at the end)
class Tap(object):
    """what one IO object read, and the quiescence signal"""

    def __init__(self):
        self.sent = 0          # application bytes written by the peer so far
        self.received = 0      # application bytes raw_recv returned so far
        self.chunks = []       # (encrypted?, data) per raw_recv
        self.quiet = gevent.event.Event()
        self.done = False
        self.hs_started = False
        self.in_recv = False
        self.in_handshake = False

    def at_recv(self):
        if self.received >= self.sent:
            self.quiet.set()


CUR = {}


class TapIO(IO):
    def raw_recv(self):
        tap = getattr(self, '_vp_tap', None) or CUR.get('tap')
        if tap is None:
            return super(TapIO, self).raw_recv()
        enc = self.encrypted
        tap.at_recv()
        tap.in_recv = True
        try:
            data = super(TapIO, self).raw_recv()
        except ConnectionLost:
            tap.chunks.append((enc, b''))
            raise
        finally:
            tap.in_recv = False
        tap.chunks.append((enc, data))
        tap.received += len(data)
        return data

    def encrypt_socket_server(self, context):
        # the server now waits for the ClientHello: also a point where it has done all it can
        tap = getattr(self, '_vp_tap', None) or CUR.get('tap')
        if tap is not None:
            tap.hs_started = True
            tap.in_handshake = True
            tap.quiet.set()
        try:
            return super(TapIO, self).encrypt_socket_server(context)
        finally:
            if tap is not None:
                tap.in_handshake = False


class FakePtr(object):
    def __init__(self, ip):
        pass

    def start(self):
        pass

    def finish(self, runtime=None):
        return None


from pysasl.mechanism import ServerMechanism, ServerChallenge as _SC
from pysasl.creds.server import ServerCredentials as _ServerCreds


class TokenCredentials(_ServerCreds):
    def __init__(self, token, kind):
        super(TokenCredentials, self).__init__()
        self._token = token
        self._kind = kind

    @property
    def authcid(self):
        return self._token

    @property
    def authzid(self):
        return self._token

    def verify(self, identity):
        return False


class TokenMechanism(ServerMechanism):
    """a site / plug-in SASL mechanism: the client's answer to the challenge 'Token:' is a bearer token"""
    _kind = 3

    def server_attempt(self, responses):
        if not responses:
            raise _SC(b'Token:')
        return TokenCredentials(responses[0].response.decode('utf-8'), self._kind), None


class TokenInsecure(TokenMechanism):
    insecure = True          # the mechanism says itself that it puts the secret on the wire
    _kind = 2


class TokenSecure(TokenMechanism):
    insecure = False


TOKEN_MECHS = [b'X-TOK-I', b'X-TOK-S', b'X-TOK-N']


def token_mechanisms():
    return [TokenInsecure(b'X-TOK-I'), TokenSecure(b'X-TOK-S'), TokenMechanism(b'X-TOK-N')]


_saved = {}


def install():
    _saved['server_IO'] = server_mod.IO
    _saved['client_IO'] = client_mod.IO
    _saved['ptr'] = edge_mod.PtrLookup
    _saved['msgid'] = email.utils.make_msgid
    _saved['builtin'] = pysasl.SASLAuth.__dict__['_get_builtin_mechanisms']
    server_mod.IO = TapIO
    client_mod.IO = TapIO
    edge_mod.PtrLookup = FakePtr
    email.utils.make_msgid = lambda *a, **kw: MSGID
    orig = pysasl.SASLAuth._get_builtin_mechanisms
    cache = []

    def cached(cls):
        # pysasl's entry-point scan, memoised, plus the harness's plug-in mechanisms (what a site
        # registers through the pysasl.mechanism entry-point group)
        if not cache:
            cache.extend(orig())
            cache.extend(token_mechanisms())
        return list(cache)
    pysasl.SASLAuth._get_builtin_mechanisms = classmethod(cached)


def uninstall():
    server_mod.IO = _saved['server_IO']
    client_mod.IO = _saved['client_IO']
    edge_mod.PtrLookup = _saved['ptr']
    email.utils.make_msgid = _saved['msgid']
    pysasl.SASLAuth._get_builtin_mechanisms = _saved['builtin']
    CUR.clear()


# ---------------------------------------------------------------- the application: verdict tables, trace
class Rec(object):
    def __init__(self, case):
        self.case = case
        self.events = []
        self.vt = {(k, bytes(a)): v for k, a, v in case.get('verdicts', [])}
        self.server = None
        self.session = None
        self.end = None
        self.stale = []       # (handler, session.ehlo_as) seen at the first callback after the handshake
        self.after_tls = False

    def enc(self):
        return int(bool(self.server is not None and self.server.io.encrypted))

    def verdict(self, k, arg, reply):
        v = self.vt.get((k, arg), 0)
        if v == 1:
            raise RuntimeError('scripted validator failure')
        if v:
            reply.code = str(v)


def _params(ps):
    return tuple((bytes(k), () if v is True else (bytes(v),)) for k, v in ps.items())


def _creds(c):
    if isinstance(c, TokenCredentials):
        return (c._kind, c._token.encode('utf-8'), b'', c._token.encode('utf-8'))
    if isinstance(c, pysasl.mechanism.crammd5.CramMD5Result):
        return (1, c._username.encode('utf-8'), bytes(c._digest), bytes(c._challenge))
    return (0, c.authcid.encode('utf-8'), c._secret.encode('utf-8'), c.authzid.encode('utf-8'))


class TraceSession(SmtpSession):
    """the real SmtpSession; every handler is wrapped to record (handler, arguments, encryption flag,
    reply code when it returns | raised).  No handler is added."""

    def __init__(self, rec, *a):
        self._rec = rec
        rec.session = self
        super(TraceSession, self).__init__(*a)

    def _wrap(self, name, kid, arg, ps, reply, call):
        rec = self._rec
        enc = rec.enc()
        if rec.after_tls:
            rec.after_tls = False
            rec.stale.append((name, self.ehlo_as))
        try:
            call()
        except BaseException:
            rec.events.append((0, enc, (0, kid, arg, ps, ())))
            raise
        rec.events.append((0, enc, (0, kid, arg, ps, (int(reply.code),))))

    def BANNER_(self, reply):
        self._wrap('BANNER_', K_BANNER, b'', (), reply, lambda: SmtpSession.BANNER_(self, reply))

    def EHLO(self, reply, a):
        self._wrap('EHLO', K_EHLO, a.encode('utf-8'), (), reply, lambda: SmtpSession.EHLO(self, reply, a))

    def HELO(self, reply, a):
        self._wrap('HELO', K_HELO, a.encode('utf-8'), (), reply, lambda: SmtpSession.HELO(self, reply, a))

    def RSET(self, reply):
        self._wrap('RSET', K_RSET, b'', (), reply, lambda: SmtpSession.RSET(self, reply))

    def MAIL(self, reply, a, ps):
        self._wrap('MAIL', K_MAIL, a.encode('utf-8'), _params(ps), reply, lambda: SmtpSession.MAIL(self, reply, a, ps))

    def RCPT(self, reply, a, ps):
        self._wrap('RCPT', K_RCPT, a.encode('utf-8'), _params(ps), reply, lambda: SmtpSession.RCPT(self, reply, a, ps))

    def DATA(self, reply):
        self._wrap('DATA', K_DATA, b'', (), reply, lambda: SmtpSession.DATA(self, reply))

    def HAVE_DATA(self, reply, data, err):
        self._wrap('HAVE_DATA', K_HAVE, bytes(data or b''), (), reply,
                   lambda: SmtpSession.HAVE_DATA(self, reply, data, err))

    def TLSHANDSHAKE2(self, sock):
        SmtpSession.TLSHANDSHAKE2(self, sock)
        self._rec.events.append((0, self._rec.enc(), (1,)))
        self._rec.after_tls = True

    def AUTH(self, reply, creds):
        rec = self._rec
        enc = rec.enc()
        c = _creds(creds)
        if rec.after_tls:
            rec.after_tls = False
            rec.stale.append(('AUTH', self.ehlo_as))
        try:
            SmtpSession.AUTH(self, reply, creds)
        except BaseException:
            rec.events.append((1, enc, c, ()))
            raise
        rec.events.append((1, enc, c, (int(reply.code),)))


class TraceSessionHook(TraceSession):
    """the same plus a STARTTLS hook (Server calls handlers.STARTTLS(reply, extensions) if there is
    one; SmtpSession has none): used only by cases that give the hook a verdict"""

    def STARTTLS(self, reply, extensions):
        self._rec.verdict(K_STLS, b'', reply)


def make_validators(rec):
    class V(SmtpValidators):
        def handle_banner(self, reply, address):
            rec.verdict(K_BANNER, b'', reply)

        def handle_ehlo(self, reply, a):
            rec.verdict(K_EHLO, a.encode('utf-8'), reply)

        def handle_helo(self, reply, a):
            rec.verdict(K_HELO, a.encode('utf-8'), reply)

        def handle_mail(self, reply, a, ps):
            rec.verdict(K_MAIL, a.encode('utf-8'), reply)

        def handle_rcpt(self, reply, a, ps):
            rec.verdict(K_RCPT, a.encode('utf-8'), reply)

        def handle_data(self, reply):
            rec.verdict(K_DATA, b'', reply)

        def handle_have_data(self, reply, data):
            rec.verdict(K_HAVE, bytes(data), reply)

        def handle_queued(self, reply, results):
            rec.verdict(K_QUEUED, b'', reply)

        def handle_auth(self, reply, creds):
            rec.verdict(K_AUTH, creds.authcid.encode('utf-8'), reply)
    return V


def handoff_for(rec):
    def handoff(env):
        rec.events.append((0, rec.enc(), (2, env.sender.encode('utf-8'), tuple(r.encode('utf-8') for r in env.recipients))))
        return [(env, 'id-1')]
    return handoff


# ---------------------------------------------------------------- the scripted client
NONBLOCK = (BlockingIOError, gssl.SSLWantReadError, gssl.SSLWantWriteError, gsocket.timeout)


def drain(sock):
    """everything the peer has written so far; (data, eof)"""
    out = b''
    eof = False
    sock.settimeout(0.0)
    try:
        while True:
            try:
                d = sock.recv(65536)
            except NONBLOCK:
                break
            except (gssl.SSLError, OSError):
                eof = True
                break
            if d == b'':
                eof = True
                break
            out += d
    finally:
        sock.settimeout(None)
    return out, eof


REPLY_LINE = re.compile(br'^(\d\d\d)([ -])(.*)$')


def parse_replies(data):
    """final reply lines: [(code, text)]; None if a line is not a reply line"""
    res = []
    for ln in data.split(b'\r\n'):
        if not ln:
            continue
        m = REPLY_LINE.match(ln)
        if not m:
            return None
        if m.group(2) == b' ':
            res.append((int(m.group(1)), m.group(3)))
    return res


class Stuck(Exception):
    pass


def run_server_case(case):
    """runs the real Server + SmtpSession under the case's client script"""
    sctx, cctx = contexts()
    a, b = gsocket.socketpair()
    tap = Tap()
    CUR['tap'] = tap
    rec = Rec(case)
    cls = TraceSessionHook if any(k == K_STLS for k, a, v in case.get('verdicts', [])) else TraceSession
    session = cls(rec, ADDR, make_validators(rec), handoff_for(rec))
    server = Server(a, session, ADDR, auth=(list(MECHS) + list(TOKEN_MECHS) if case['auth'] == 3 else list(MECHS) if case['auth'] == 2 else bool(case['auth'])),
                    context=(sctx if case['context'] else None), tls_immediately=bool(case['imm']))
    rec.server = server

    def serve():
        try:
            server.handle()
            rec.end = 1                      # handle() returned: closed by a 221/421
        except ConnectionLost:
            rec.end = 3
        except BaseException as e:
            rec.end = 2
            rec.crash = type(e).__name__
        finally:
            tap.done = True
            tap.quiet.set()
            try:
                server.io.close()      # on TLS: unwrap() waits for the client's close_notify / EOF
            except BaseException:
                pass

    g = gevent.spawn(serve)
    sock = b
    on_tls = False
    steps = []          # per action: (channel, raw bytes drained, parsed replies)
    tls_lines_sent = 0
    tls_bytes = b''
    hs = None

    def settle():
        if not tap.quiet.wait(5.0):
            raise Stuck('server did not become quiescent: %r' % (case,))

    nev = []            # number of callbacks recorded when each step was collected

    def collect(kind):
        data, eof = drain(sock)
        steps.append((int(on_tls), data, parse_replies(data)))
        nev.append(len(rec.events))

    try:
        if not case['imm']:
            settle()
            collect('banner')
        for act in case['script']:
            if tap.done:
                break
            if act[0] == 'send':
                if tap.in_handshake:
                    break                  # the server waits for a ClientHello this script does not send
                tap.quiet.clear()
                tap.sent += len(act[1])
                if on_tls:
                    tls_bytes += act[1]
                try:
                    sock.sendall(act[1])
                except (OSError, gssl.SSLError):
                    break
                settle()
                collect('send')
            elif act[0] == 'tls':
                if not (case['imm'] and not steps) and not tap.in_handshake:
                    steps.append((int(on_tls), b'', []))     # STARTTLS was refused: the client goes on in clear text
                    nev.append(len(rec.events))
                    continue
                tap.quiet.clear()
                try:
                    with gevent.Timeout(5.0, Stuck('client handshake stuck: %r' % (case,))):
                        sock = cctx.wrap_socket(sock, server_hostname='localhost')
                    on_tls = True
                    hs = 1
                except (gssl.SSLError, OSError):
                    hs = 0
                    break
                if not (tap.done or (tap.in_recv and tap.received >= tap.sent)):
                    tap.quiet.clear()      # the server has not come back from its side of the handshake yet
                settle()
                collect('tls')
            elif act[0] == 'raw':
                tap.quiet.clear()
                hs = 0
                try:
                    sock.sendall(act[1])
                except OSError:
                    break
                settle()
                collect('raw')
    finally:
        try:
            sock.close()
        except BaseException:
            pass
        g.join(5.0)
        if not g.dead:
            g.kill()
            raise Stuck('server greenlet did not end: %r' % (case,))
        CUR['tap'] = None
    ext = server.extensions
    keys = set(ext.extensions.keys()) if hasattr(ext, 'extensions') else set()
    env = session.envelope
    state = (int(bool(server.bannered)), server.ehlo_as.encode('utf-8') if server.ehlo_as else None,
             int(bool(server.have_mailfrom)), int(bool(server.have_rcptto)), int(bool(server.authed)),
             int(bool(server.io.encrypted)), int('STARTTLS' in ext), int('AUTH' in ext),
             (env.sender.encode('utf-8'), tuple(r.encode('utf-8') for r in env.recipients)) if env is not None else None,
             session.ehlo_as.encode('utf-8') if session.ehlo_as else None,
             session.auth[0].encode('utf-8') if session.auth else None,
             int(session.security == 'TLS'))
    if hs is None and tap.hs_started and not server.io.encrypted:
        hs = 0           # the server waited for a ClientHello that never came
    return dict(nev=nev, steps=steps, events=rec.events, end=rec.end, crash=getattr(rec, 'crash', None), state=state,
                plain=[d for e, d in tap.chunks if not e], tls=[d for e, d in tap.chunks if e],
                hs=hs, stale=rec.stale, tls_bytes=tls_bytes)


# ---------------------------------------------------------------- model side
def model_input(case, r):
    hs = 1 if r['hs'] is None else r['hs']
    cfg = [case['context'], case['imm'], 1, 1 if case['auth'] else 0, []]
    vt = [[k, a, v] for k, a, v in case.get('verdicts', []) if k != K_QUEUED]
    qt = [[9, b'', v] for k, a, v in case.get('verdicts', []) if k == K_QUEUED]
    return [cfg, [1 if case['auth'] in (2, 3) else 0, MSGID.encode(), 1 if case['auth'] == 3 else 0], vt, qt, [], hs, r['plain'], r['tls']]


def model_view(o):
    """model output -> (reply sequence [(chan, code)], 334 payloads, events, end, state, outs)"""
    outs, st, mode, buf, buf_tls = o
    replies, chals, events = [], [], []
    end = 0
    for kind, raw, alltls, enc, rs, ch, evs, fin, xf in outs:
        for e in evs:
            # an accepted EHLO: its reply lists Server.extensions as they are then
            if e[0] == 0 and e[2][0] == 0 and e[2][1] == K_EHLO and e[2][4] == (250,):
                replies.append(('ehlo-extensions', enc, tuple(xf)))
        for c in rs:
            replies.append((enc, c))
        chals.extend(B(x) for x in ch)
        for e in evs:
            events.append(e)
        end = fin
    return replies, chals, tuple(events), end, st, outs


BASE_EXTS = {b'8BITMIME', b'PIPELINING', b'ENHANCEDSTATUSCODES', b'SMTPUTF8'}


def reply_units(data):
    """every complete reply in `data`: (code, text of the first line, text of the last line,
    first words of the continuation lines)"""
    res = []
    cur = None
    for ln in data.split(b'\r\n'):
        m = REPLY_LINE.match(ln)
        if not m:
            continue
        if cur is None:
            cur = [int(m.group(1)), m.group(3), m.group(3), set()]
        else:
            cur[2] = m.group(3)
            cur[3].add(m.group(3).split(b' ')[0].upper())
        if m.group(2) == b' ':
            res.append(tuple(cur))
            cur = None
    return res


def ext_flags(kw):
    base = 1 if BASE_EXTS <= kw else (0 if not (BASE_EXTS & kw) else 2)
    return (base, int(b'STARTTLS' in kw), int(b'AUTH' in kw))


def is_hello(unit):
    return unit[0] == 250 and unit[1].startswith(b'Hello ')


def impl_view(r):
    """reply codes with their channel; in front of the 250 of every accepted EHLO the extension
    flags its reply lists (accepted EHLO/HELO callbacks and 'Hello' replies correspond in order)"""
    replies, chals = [], []
    bad = None
    hellos = [ev[2][1] for ev in r['events'] if ev[0] == 0 and ev[2][0] == 0 and ev[2][1] in (K_EHLO, K_HELO) and ev[2][4] == (250,)]
    hi = 0
    for chan, data, parsed in r['steps']:
        if parsed is None:
            bad = data
            continue
        for u in reply_units(data):
            if is_hello(u) and hi < len(hellos):
                if hellos[hi] == K_EHLO:
                    replies.append(('ehlo-extensions', chan, ext_flags(u[3])))
                hi += 1
            replies.append((chan, u[0]))
            if u[0] == 334:
                chals.append(u[2])
    return replies, chals, canon(tuple(r['events'])), r['end'], bad


def impl_state_canon(s):
    (bannered, ehlo, mail, rcpt, authed, enc, stls, auth, env, e_ehlo, e_auth, e_tls) = s
    return (bannered, ehlo, mail, rcpt, authed, enc, stls, auth, env, e_ehlo, e_auth, e_tls)


def model_state_canon(st):
    # e_state of extract/E_Server.v
    (bannered, ehlo, mail, rcpt, authed, enc, xbase, xstls, xauth, xsize, env, e_ehlo, e_auth, esmtp, etls) = st
    opt = lambda v: B(v[0]) if v else None
    envv = None
    if env:
        envv = (B(env[0][0]), tuple(B(x) for x in env[0][1]))
    return (bannered, opt(ehlo), mail, rcpt, authed, enc, xstls, xauth, envv, opt(e_ehlo), opt(e_auth), etls)


def compare_server(ctx, case, r, mo):
    m_replies, m_chals, m_events, m_end, m_state, outs = model_view(mo)
    i_replies, i_chals, i_events, i_end, bad = impl_view(r)
    ok = True
    if bad is not None:
        ctx.mismatch('unparsable-reply', case, bad, None)
        ok = False
    m_replies = [tuple(x) for x in m_replies]
    if r['hs'] == 0:
        # a failed REAL handshake leaves no usable socket (gevent closes it): the 421 the code
        # buffers cannot be sent and flush_send raises OSError out of handle().  model/Server.v and
        # the suite use a context mock that leaves the socket usable.  Not part of the property.
        ctx.note('after a failed real handshake the tls_failure 421 cannot be sent (socket closed by gevent.ssl); '
                 'handle() ends with OSError instead of returning - compared modulo this')
        if m_replies and m_replies[-1] == (0, 421):
            m_replies = m_replies[:-1]
        if m_end == 1 and i_end == 2 and r['crash'] == 'OSError':
            i_end = 1
    if m_replies != i_replies:
        ctx.mismatch('replies', case, i_replies, m_replies)
        ok = False
    if m_chals != i_chals:
        ctx.mismatch('334-payload', case, i_chals, m_chals)
        ok = False
    if m_events != i_events:
        ctx.mismatch('callback-trace', case, i_events, m_events)
        ok = False
    # end of session: the client closes at the end of its script, so `lost` is the normal end
    if m_end != i_end and not (m_end == 0 and i_end == 3):
        ctx.mismatch('session-end', case, i_end, m_end)
        ok = False
    if model_state_canon(m_state) != impl_state_canon(r['state']):
        ctx.mismatch('final-state', case, impl_state_canon(r['state']), model_state_canon(m_state))
        ok = False
    # the model's own statement on this run (theorem C08_no_plaintext_after_tls, evaluated)
    for kind, raw, alltls, enc, rs, ch, evs, fin, xf in outs:
        if enc and not alltls:
            ctx.mismatch('model-consumed-plaintext-while-encrypted', case, None, B(raw))
            ok = False
    return ok


# ---------------------------------------------------------------- property oracle on the implementation
PER_KEY = 4


def fail(ctx, key, case, what):
    """ctx.fail, at most PER_KEY reports per key (ctx keeps 200 failures in all: one frequent
    finding must not crowd out the others); every occurrence is counted"""
    n = ctx.dist.get('fails:' + key, 0)
    ctx.count('fails:' + key)
    if n < PER_KEY:
        ctx.fail(key, case, what)


def lines_in(data):
    return data.count(b'\n')


def oracle_server(ctx, case, r, twin=None):
    """the property statement evaluated on what the implementation did"""
    replies_tls = 0
    tls_sent = b''
    script = case['script']
    # (1) at every quiescence point: replies received over TLS <= complete lines sent over TLS (+ banner)
    allowance = 1 if case['imm'] else 0
    si = 0
    steps = r['steps']
    idx = 0 if case['imm'] else 1
    sent_tls_lines = 0
    acts = [a for a in script]
    for n, act in enumerate(acts):
        if idx >= len(steps):
            break
        chan, data, parsed = steps[idx]
        idx += 1
        if act[0] == 'send' and chan:
            sent_tls_lines += lines_in(act[1])
        if chan and parsed is not None:
            replies_tls += len(parsed)
        if chan and replies_tls > sent_tls_lines + allowance:
            fail(ctx, 'c08:plaintext-executed-after-starttls', case,
                     'over TLS the server sent %d replies after only %d command lines had been sent over TLS: '
                     'bytes pipelined in clear text behind STARTTLS were executed after the handshake (last replies %r)'
                     % (replies_tls, sent_tls_lines, parsed))
            break
    # (2) handler arguments after the handshake must come from bytes sent over TLS
    seen_tls = False
    for ev in r['events']:
        if ev[0] == 0 and ev[2][0] == 1:
            seen_tls = True
            continue
        if not seen_tls or case['imm']:
            continue
        if ev[0] == 0 and ev[2][0] == 0:
            kid, arg = ev[2][1], ev[2][2]
            if kid in (K_EHLO, K_HELO, K_MAIL, K_RCPT) and arg and arg not in r['tls_bytes']:
                fail(ctx, 'c08:plaintext-executed-after-starttls', case,
                         'handler %d called after the handshake with argument %r that was never sent over TLS' % (kid, arg))
                break
            if kid == K_RCPT and ev[2][4]:
                # a recipient accepted after the handshake needs MAIL after the handshake
                pass
    # (3) just-greeted state: the first transaction command over TLS without a new EHLO/HELO
    #     must not reach its handler
    seen_tls = False
    greeted = False
    for ev in r['events']:
        if ev[0] == 0 and ev[2][0] == 1:
            seen_tls = True
            continue
        if not seen_tls or case['imm']:
            continue
        if ev[0] == 0 and ev[2][0] == 0:
            kid = ev[2][1]
            if kid in (K_EHLO, K_HELO) and ev[2][4] == (250,):
                greeted = True
            if kid in (K_MAIL, K_RCPT, K_DATA, K_HAVE) and not greeted:
                fail(ctx, 'c08:transaction-survives-starttls', case,
                         'handler %d was called after the handshake before any new EHLO/HELO: the server is not back in its just-greeted state' % kid)
                break
        if ev[0] == 0 and ev[2][0] == 2 and not greeted:
            fail(ctx, 'c08:transaction-survives-starttls', case, 'an envelope was queued after the handshake without a new EHLO/HELO')
            break
        if ev[0] == 1 and not greeted:
            fail(ctx, 'c08:transaction-survives-starttls', case, 'AUTH handler called after the handshake before any new EHLO/HELO')
            break
    # (3b) STARTTLS is not offered nor accepted on an encrypted session: EVERY reply received over
    #      TLS is looked at; and MAIL/RCPT/DATA sent over TLS before a new EHLO/HELO get 503
    base = 0 if case['imm'] else 1
    greeted_tls = bool(case['imm'])
    reported = set()
    partial = False          # the previous write ended in the middle of a line
    for i, act in enumerate(script):
        j = base + i
        if j >= len(r['steps']):
            break
        chan, data, parsed = r['steps'][j]
        if act[0] != 'send':
            partial = False
        if act[0] == 'send':
            words0 = [ln.split(None, 1)[0].upper() if ln.split() else b'' for ln in act[1].split(b'\r\n') if ln]
            units0 = reply_units(data)
            was_partial = partial
            partial = not act[1].endswith(b'\n')
            if len(words0) == 1 and len(units0) == 1 and not partial and not was_partial and j >= 1 and j - 1 < len(r['nev']):
                # a single command line: was a greeting accepted (callback left 250) before it, since the handshake?
                greeted = False
                mode_cmd = True
                for ev in r['events'][:r['nev'][j - 1]]:
                    if ev[0] == 0 and ev[2][0] == 1:
                        greeted = False
                    elif ev[0] == 0 and ev[2][0] == 0 and ev[2][1] in (K_EHLO, K_HELO) and ev[2][4] == (250,):
                        greeted = True
                prev = r['steps'][j - 1][2]
                in_exchange = bool(prev) and prev[-1][0] in (334, 354)      # this line is an answer / content, not a command
                w, u = words0[0], units0[0]
                if w in (b'AUTH', b'MAIL', b'STARTTLS') and not greeted and not in_exchange and u[0] < 400 and 'nogreet' not in reported:
                    reported.add('nogreet')
                    fail(ctx, 'c08:identity-without-accepted-greeting', case,
                         '%s was answered %d %r although no EHLO/HELO had been accepted by the application (since the start / the handshake): '
                         'it must be refused with 503' % (w.decode(), u[0], u[2]))
            if i == case.get('all_lines_answered') and len(words0) != len(units0):
                fail(ctx, 'c08:refused-starttls-drops-pipelined-commands', case,
                     'the %d command lines of %r got %d replies %r: STARTTLS was refused, so what was pipelined behind it are ordinary commands'
                     % (len(words0), act[1], len(units0), data))
        if not chan:
            continue
        for u in reply_units(data):
            if u[0] == 250 and b'STARTTLS' in u[3] and 'offered' not in reported:
                reported.add('offered')
                fail(ctx, 'c08:starttls-offered-after-handshake', case,
                     'a reply received over TLS (to %r) still lists STARTTLS: %r' % (act[1] if len(act) > 1 else act, data))
        if act[0] != 'send':
            continue
        words = [ln.split(None, 1)[0].upper() if ln.split() else b'' for ln in act[1].split(b'\r\n') if ln]
        units = reply_units(data)
        if len(words) == len(units):       # one reply per command line: pair them
            for w, u in zip(words, units):
                if w == b'STARTTLS' and u[0] == 220 and 'accepted' not in reported:
                    reported.add('accepted')
                    fail(ctx, 'c08:starttls-offered-after-handshake', case,
                         'a STARTTLS command sent over TLS was answered %d %r: STARTTLS is still accepted after the handshake' % (u[0], u[2]))
                if w in (b'MAIL', b'RCPT', b'DATA') and not greeted_tls and not case['imm'] and u[0] < 400 and 'tx' not in reported:
                    reported.add('tx')
                    fail(ctx, 'c08:transaction-survives-starttls', case,
                         '%s sent over TLS before any new EHLO/HELO was accepted with %d %r (a well-formed one must get 503, a malformed one 5xx)' % (w.decode(), u[0], u[2]))
                if w in (b'EHLO', b'HELO') and u[0] == 250:
                    greeted_tls = True
    # (4) SmtpSession view of the client's identity at the first callback after the handshake
    for name, ehlo_as in r['stale']:
        if ehlo_as is not None and not case['imm']:
            fail(ctx, 'c08:edge-ehlo-identity-survives-starttls', case,
                     'SmtpSession.ehlo_as is still %r (given in clear text) at the first callback (%s) after the handshake' % (ehlo_as, name))
    # (5) AUTH: handler only with the gates open.  An EHLO identity exists only through a greeting
    #     the application accepted (handler left 250) since the start / the handshake.
    st = dict(ehlo=False, authed=False, mail=False, ident=None)
    for ev in r['events']:
        if ev[0] == 0 and ev[2][0] == 1:
            st['ehlo'] = False
            st['mail'] = False
            st['ident'] = None
        elif ev[0] == 0 and ev[2][0] == 0:
            kid, code = ev[2][1], ev[2][4]
            if kid in (K_EHLO, K_HELO) and code == (250,):
                st['ehlo'] = True
                st['mail'] = False
                st['ident'] = ev[2][2]
            elif kid == K_MAIL:
                if not st['ehlo']:
                    fail(ctx, 'c08:identity-without-accepted-greeting', case,
                         'MAIL handler called although no EHLO/HELO was accepted by the application (since the start / the handshake)')
                if code == (250,):
                    st['mail'] = True
            elif kid == K_RSET or kid == K_HAVE:
                st['mail'] = False
        elif ev[0] == 1:
            enc, creds, code = ev[1], ev[2], ev[3]
            if not st['ehlo'] or st['authed'] or st['mail']:
                fail(ctx, 'c08:auth-outside-permitted-state', case, 'AUTH handler called with %r' % (st,))
            if creds[0] in (0, 2) and not enc:      # PLAIN/LOGIN credentials, or a mechanism that flags itself insecure
                fail(ctx, 'c08:plaintext-mechanism-without-tls', case,
                         'a plain-text SASL mechanism was accepted on an unencrypted session: AUTH handler called with authcid %r, encryption flag 0' % (creds[1],))
            if code == (235,):
                st['authed'] = True
                st['cid'] = creds[1]
    if r['state'][1] != st['ident']:
        fail(ctx, 'c08:identity-without-accepted-greeting', case,
             'Server.ehlo_as is %r at the end of the session; the last greeting the application accepted (since the handshake) was %r'
             % (r['state'][1], st['ident']))
    if bool(r['state'][4]) != st['authed']:
        fail(ctx, 'c08:authed-without-235', case, 'Server.authed=%r but the AUTH handler kept 235: %r' % (r['state'][4], st['authed']))
    if st['authed'] and r['state'][10] is not None and r['state'][10] != st['cid']:
        fail(ctx, 'c08:credentials-differ', case, 'SmtpSession.auth identity %r, the accepted credentials had authcid %r' % (r['state'][10], st['cid']))
    if (r['state'][10] is not None) != st['authed']:
        fail(ctx, 'c08:authed-without-235', case, 'SmtpSession.auth=%r, handler kept 235: %r' % (r['state'][10], st['authed']))
    # (6) every AUTH line gets 334 / 5xx (or the application's answer) and the session goes on
    exp = case.get('auth_lines')
    if exp is not None:
        # exp: indexes of script actions that are AUTH command / answer lines
        base = 0 if case['imm'] else 1
        for i in exp:
            j = base + i
            if j >= len(r['steps']):
                fail(ctx, 'c08:malformed-auth-ends-session', case, 'no reply to AUTH line %r: the session had ended' % (script[i],))
                break
            chan, data, parsed = r['steps'][j]
            app = case.get('app_decides', ())
            if i in app:
                continue
            if parsed is None or len(parsed) != 1 or not (parsed[0][0] == 334 or 500 <= parsed[0][0] <= 599 or parsed[0][0] == 235):
                fail(ctx, 'c08:malformed-auth-ends-session', case,
                         'AUTH line %r was answered with %r (expected one 334 or 5xx reply, session continuing)' % (script[i][1], data))
                break
        probe = case.get('probe')
        if probe is not None:
            j = base + probe
            if j >= len(r['steps']) or not r['steps'][j][2] or r['steps'][j][2][0][0] != 250:
                fail(ctx, 'c08:malformed-auth-ends-session', case,
                         'the NOOP after the AUTH lines was not answered with 250: %r (session end %r %r)' % (
                             r['steps'][j][1] if j < len(r['steps']) else None, r['end'], r['crash']))
    # (6b) an AUTH line without initial response that is permitted must be answered with the
    #      mechanism's first challenge - whatever earlier AUTH lines of the session carried
    clear_plain = any(ev[0] == 1 and ev[2][0] in (0, 2) and not ev[1] for ev in r['events'])   # reported under (5)
    for i in (() if clear_plain else case.get('challenged', ())):
        j = (0 if case['imm'] else 1) + i
        if j >= len(r['steps']):
            break
        chan, data, parsed = r['steps'][j]
        if not parsed or parsed[0][0] != 334:
            fail(ctx, 'c08:auth-exchange-uses-earlier-attempt', case,
                 'AUTH line %r (no initial response, permitted here) was answered %r instead of the first 334 challenge: '
                 'the exchange did not start from scratch' % (script[i][1], data))
            break
    # (7) credentials: what the handler was given = what this client sent
    want = case.get('creds')
    if want is not None and r['end'] != 2 and not any(ev[0] == 1 and ev[2][0] in (0, 2) and not ev[1] for ev in r['events']):
        # (a plain-text mechanism that got through in clear text, or a crashed session, is reported above)
        got = [ev[2] for ev in r['events'] if ev[0] == 1]
        if got != [tuple(w) for w in want]:
            fail(ctx, 'c08:credentials-differ', case, 'AUTH handler was given %r, the client supplied %r' % (got, want))


def tls_phase(r):
    """what happened after the handshake: replies received over TLS and callbacks, for the metamorphic oracle"""
    reps = [tuple(p) for chan, data, p in r['steps'] if chan and p is not None for p in [tuple(p)]]
    evs = []
    seen = False
    for ev in r['events']:
        if ev[0] == 0 and ev[2][0] == 1:
            seen = True
            continue
        if seen:
            evs.append(ev)
    return reps, evs


# ---------------------------------------------------------------- client side: real Client, scripted TLS server
def _readline(sock):
    buf = b''
    while not buf.endswith(b'\n'):
        d = sock.recv(4096)
        if not d:
            return None
        buf += d
    return buf


def run_client_case(case):
    """case: reply (to STARTTLS) + extra (pipelined behind it in the same write), wrap (server starts TLS),
    after: replies the server gives over the then-current channel to the following commands"""
    sctx, cctx = contexts()
    a, b = gsocket.socketpair()
    tap = Tap()
    CUR['tap'] = tap
    client = Client(a, ('localhost', 25))
    srv = dict(tls=0, err=None)

    def serve():
        sock = b
        try:
            sock.sendall(b'220 plain.example ESMTP\r\n')
            if _readline(sock) is None:
                return
            sock.sendall(b'250-plain.example\r\n250-XPLAIN\r\n250 STARTTLS\r\n')
            if _readline(sock) is None:
                return
            sock.sendall(case['reply'] + case['extra'])
            if case['wrap']:
                sock = sctx.wrap_socket(sock, server_side=True)
                srv['tls'] = 1
            for rep in case['after']:
                if _readline(sock) is None:
                    return
                sock.sendall(rep)
            _readline(sock)
        except BaseException as e:
            srv['err'] = type(e).__name__
        finally:
            try:
                sock.close()
            except BaseException:
                pass

    g = gevent.spawn(serve)
    calls = []       # (encrypted when the reply was parsed, code | error)

    def call(f):
        enc = int(client.io.encrypted)
        try:
            with gevent.Timeout(5.0):
                rep = f()
            calls.append((enc, rep.code.encode('ascii') if rep.code else b'', rep.message))
            return True
        except BadReply:
            calls.append((enc, 'bad', None))
        except ConnectionLost:
            calls.append((enc, 'lost', None))
        except gevent.Timeout:
            calls.append((enc, 'stuck', None))
        except (OSError, gssl.SSLError) as e:
            calls.append((enc, 'oserror', None))
        return False

    try:
        ok = call(client.get_banner) and call(lambda: client.ehlo('c.example')) and call(lambda: client.starttls(cctx))
        enc_after = int(client.io.encrypted)
        n = 0
        while ok and n < len(case['after']):
            if n == 0:
                ok = call(lambda: client.ehlo('c.example'))
            else:
                ok = call(lambda: client.custom_command(b'NOOP'))
            n += 1
        exts = sorted(client.extensions.extensions.keys()) if hasattr(client.extensions, 'extensions') else []
    finally:
        try:
            client.io.socket.close()
        except BaseException:
            pass
        g.join(5.0)
        if not g.dead:
            g.kill()
        CUR['tap'] = None
    return dict(calls=calls, enc_after=enc_after, exts=exts, srv=srv,
                plain=[d for e, d in tap.chunks if not e], tls=[d for e, d in tap.chunks if e])


def compare_client(ctx, case, r, mo):
    ops = [0, 0, 1] + [0] * len(case['after'])
    want = []
    for (enc, code, used, alltls, fin) in mo:
        if fin == 0 or fin == 3:
            want.append((enc, B(code)))
        elif fin == 1:
            want.append((enc, 'bad'))
        else:
            want.append((enc, 'lost'))
        if enc and not alltls:
            ctx.mismatch('model-client-parsed-plaintext-while-encrypted', case, None, B(used))
    got = [(enc, code) for enc, code, msg in r['calls']]
    if got != want[:len(got)] or len(got) < len(want) and want[len(got) - 1][1] not in ('bad', 'lost'):
        ctx.mismatch('client-replies', case, got, want)
        return False
    return True


def oracle_client(ctx, case, r):
    """replies the client hands out after the handshake are those the server sent over TLS, in order"""
    if not (case['wrap'] and r['enc_after']):
        return
    post = [c for c in r['calls'][3:]]
    sent = []
    for rep in case['after']:
        p = parse_replies(rep)
        sent.append(p[-1] if p else None)
    for i, (enc, code, msg) in enumerate(post):
        exp = sent[i] if i < len(sent) else None
        token = [b'tls.example', b'over-tls-2', b'over-tls-3'][i] if i < 3 else b''
        if exp is None or code != str(exp[0]).encode() or token.decode() not in (msg or ''):
            fail(ctx, 'c08:client-plaintext-reply-after-starttls', case,
                     'after the handshake the client returned reply %r %r to its command no. %d; over TLS the server sent %r - '
                     'a reply received in clear text behind the 220 was used' % (code, msg, i + 1, exp))
            return
    if post and b'XINJECTED' in case['extra'] and 'XINJECTED' in r['exts']:
        fail(ctx, 'c08:client-plaintext-reply-after-starttls', case,
                 'client.extensions after the post-handshake EHLO holds XINJECTED, announced only in clear text: %r' % (r['exts'],))


# ---------------------------------------------------------------- real Client.auth against the real Server
def sized(n, uni):
    """a text of exactly n UTF-8 bytes; multi-byte characters so that byte offsets 57, 76 ... fall inside one"""
    if not uni:
        return ('abcdefghij' * (n // 10 + 1))[:n]
    out, size, k = [], 0, 0
    alphabet = ['\u4e2d', '\u00e9', '\u0416']      # stable under saslprep (CRAM-MD5 prepares its strings)
    while True:
        c = alphabet[k % 3]
        b = len(c.encode('utf-8'))
        if size + b > n:
            break
        out.append(c)
        size += b
        k += 1
    return ''.join(out) + 'x' * (n - size)


def pair_params(case):
    long_text = sized(case['n'], case['uni'])
    cid = long_text if case['field'] == 'cid' else 'user'
    sec = long_text if case['field'] == 'secret' else 'pw'
    zid = 'zid-\u00e9' if case['zid'] else None
    return cid, sec, zid


def run_pair_case(case):
    """real Client (get_banner / ehlo / starttls | encrypt / auth / NOOP) against the real Server + SmtpSession
    over a socketpair with real TLS.  case: mech, n (bytes), uni, field, zid, imm"""
    from pysasl.prep import saslprep
    import hmac, hashlib
    sctx, cctx = contexts()
    a, b = gsocket.socketpair()
    stap, ctap = Tap(), Tap()
    CUR['tap'] = None
    scase = dict(context=1, imm=case['imm'], auth=2, verdicts=[])
    rec = Rec(scase)
    session = TraceSession(rec, ADDR, make_validators(rec), handoff_for(rec))
    server = Server(a, session, ADDR, auth=list(MECHS), context=sctx, tls_immediately=bool(case['imm']))
    server.io._vp_tap = stap
    rec.server = server
    rec.crash = None

    def serve():
        try:
            server.handle()
            rec.end = 1
        except ConnectionLost:
            rec.end = 3
        except BaseException as e:
            rec.end = 2
            rec.crash = type(e).__name__
        finally:
            try:
                server.io.close()
            except BaseException:
                pass

    g = gevent.spawn(serve)
    client = Client(b, ('localhost', 25))
    client.io._vp_tap = ctap
    cid, sec, zid = pair_params(case)
    calls = []
    err = None
    try:
        with gevent.Timeout(10.0):
            if case['imm']:
                client.encrypt(cctx)
            calls.append(('banner', client.get_banner().code))
            calls.append(('ehlo', client.ehlo('c.example').code))
            if not case['imm']:
                calls.append(('starttls', client.starttls(cctx).code))
                calls.append(('ehlo', client.ehlo('c.example').code))
            rep = client.auth(cid, sec, zid, mechanism=case['mech'])
            calls.append(('auth', rep.code))
            calls.append(('noop', client.custom_command(b'NOOP').code))
    except BaseException as e:
        err = type(e).__name__
    finally:
        try:
            client.io.socket.close()
        except BaseException:
            pass
        g.join(5.0)
        if not g.dead:
            g.kill()
    env = session.envelope
    ext = server.extensions
    state = (int(bool(server.bannered)), server.ehlo_as.encode('utf-8') if server.ehlo_as else None,
             int(bool(server.have_mailfrom)), int(bool(server.have_rcptto)), int(bool(server.authed)),
             int(bool(server.io.encrypted)), int('STARTTLS' in ext), int('AUTH' in ext),
             (env.sender.encode('utf-8'), tuple(x.encode('utf-8') for x in env.recipients)) if env is not None else None,
             session.ehlo_as.encode('utf-8') if session.ehlo_as else None,
             session.auth[0].encode('utf-8') if session.auth else None,
             int(session.security == 'TLS'))
    # what the client put on the wire = what the server's socket delivered
    wire = b''.join(d for e, d in stap.chunks)
    got = [(e, d) for e, d in ctap.chunks]
    steps = []
    for chan in (0, 1):
        data = b''.join(d for e, d in got if int(e) == chan)
        if data:
            steps.append((chan, data, parse_replies(data)))
    # what the client was given, as the server's handler must see it, and the SASL responses
    cidb, secb = cid.encode('utf-8'), sec.encode('utf-8')
    if case['mech'] == b'PLAIN':
        zidb = (zid or '').encode('utf-8')
        want = (0, cidb, secb, zidb or cidb)
        responses = [zidb + b'\0' + cidb + b'\0' + secb]
        first_with = True
    elif case['mech'] == b'LOGIN':
        want = (0, cidb, secb, cidb)
        responses = [cidb, secb]
        first_with = False
    else:
        pc, ps = saslprep(cid).encode('utf-8'), saslprep(sec).encode('utf-8')
        dig = hmac.new(ps, MSGID.encode(), hashlib.md5).hexdigest().encode('ascii')
        want = (1, pc, dig, MSGID.encode())
        responses = [pc + b' ' + dig]
        first_with = False
    return dict(steps=steps, events=rec.events, end=rec.end, crash=rec.crash, state=state, nev=[],
                plain=[d for e, d in stap.chunks if not e], tls=[d for e, d in stap.chunks if e],
                hs=1, stale=rec.stale, tls_bytes=b'', calls=calls, err=err, wire=wire, want=want,
                responses=responses, first_with=first_with, scase=scase)


def oracle_pair(ctx, case, r, encoded):
    """credentials shown to the application = credentials the client was given; each SASL response is one
    line on the client's wire, the one the model's encoder gives"""
    got = [ev[2] for ev in r['events'] if ev[0] == 1]
    if got != [r['want']]:
        fail(ctx, 'c08:credentials-differ', case,
             'Client.auth was given %s credentials of %d bytes (%s); the server\'s AUTH handler was shown %r, expected %r (client calls %r, error %r)'
             % (case['mech'].decode(), case['n'], case['field'], [(g[0], g[1][:40], g[2][:40], g[3][:40]) for g in got],
                (r['want'][0], r['want'][1][:40], r['want'][2][:40], r['want'][3][:40]), r['calls'], r['err']))
    lines = r['wire'].split(b'\r\n')
    try:
        k = [i for i, l in enumerate(lines) if l.upper().startswith(b'AUTH ')][0]
    except IndexError:
        fail(ctx, 'c08:client-auth-response-not-one-line', case, 'no AUTH command on the client\'s wire: %r' % (r['wire'][:200],))
        return
    exp = []
    enc = [B(e) for e in encoded]
    if r['first_with']:
        exp.append(b'AUTH ' + case['mech'] + b' ' + enc[0])
        exp += enc[1:]
    else:
        exp.append(b'AUTH ' + case['mech'])
        exp += enc
    exp.append(b'NOOP')
    seen = lines[k:k + len(exp)]
    if seen != exp:
        fail(ctx, 'c08:client-auth-response-not-one-line', case,
             'the client\'s wire for the AUTH exchange is %d lines %r; one line per SASL response, base64 without line breaks, is %r'
             % (len([l for l in lines[k:] if l]), [l[:90] for l in lines[k:k + len(exp) + 2]], [l[:90] for l in exp]))


PAIR_LENGTHS = [1, 10, 40, 56, 57, 58, 100, 300, 1000]


def pair_cases():
    cs = []
    for imm in (1, 0):
        for mech in (b'PLAIN', b'LOGIN', b'CRAM-MD5'):
            for n in PAIR_LENGTHS:
                for uni in (0, 1):
                    for field in ('cid', 'secret'):
                        for zid in ((0, 1) if mech == b'PLAIN' else (0,)):
                            cs.append(dict(kind='pair', imm=imm, mech=mech, n=n, uni=uni, field=field, zid=zid,
                                           name='pair/%s/%s/%d/%s/%s/zid%d' % ('imm' if imm else 'starttls', mech.decode(), n,
                                                                                'unicode' if uni else 'ascii', field, zid)))
    return cs


# ---------------------------------------------------------------- case generation
def b64(x):
    return base64.b64encode(x)


PLAIN_OK = b64(b'\0user\0pw')
PLAIN_UNI_RAW = 'zid\0é中\0\U0001f600pw'.encode('utf-8')
PLAIN_UNI = b64(PLAIN_UNI_RAW)
CR_OK = (0, b'user', b'pw', b'user')
CR_UNI = (0, 'é中'.encode('utf-8'), '\U0001f600pw'.encode('utf-8'), b'zid')
TOK = 'tok-\u00e9\u4e2d'.encode('utf-8')
TOK_B64 = b64(TOK)
CRAM_RESP = b64(b'bob 0123abcd')
CR_CRAM = (1, b'bob', b'0123abcd', MSGID.encode())

# (AUTH line, answer lines, credentials the handler must see when the exchange is permitted | None)
AUTH_SHAPES = [
    (b'AUTH PLAIN ' + PLAIN_OK, [], [CR_OK]),
    (b'AUTH PLAIN', [PLAIN_OK], [CR_OK]),
    (b'auth plain ' + PLAIN_OK, [], [CR_OK]),
    (b'AUTH PLAIN ' + PLAIN_UNI, [], [CR_UNI]),
    (b'AUTH PLAIN', [PLAIN_UNI], [CR_UNI]),
    (b'AUTH PLAIN\t ' + PLAIN_OK, [], [CR_OK]),
    (b'AUTH PLAIN =', [], []),
    (b'AUTH PLAIN *', [], []),
    (b'AUTH PLAIN', [b'*'], []),
    (b'AUTH PLAIN !!!!', [], []),
    (b'AUTH PLAIN QQ=Q', [], []),
    (b'AUTH PLAIN Q', [], []),
    (b'AUTH PLAIN', [b''], []),
    (b'AUTH PLAIN', [b'Q'], []),
    (b'AUTH PLAIN', [b'\xff\xfe'], []),
    (b'AUTH PLAIN a b', [], []),
    (b'AUTH PLAIN ' + b64(b'nonul'), [], []),
    (b'AUTH PLAIN ' + b64(b'\0\0pw'), [], []),
    (b'AUTH PLAIN ' + b64(b'\0\xff\xfe\0pw'), [], []),
    (b'AUTH PLAIN ' + b64(b'a\0b\0c\0d'), [], []),
    (b'AUTH PLAIN ' + b64(b'\0user\0'), [], [(0, b'user', b'', b'user')]),
    (b'AUTH LOGIN', [b64(b'user'), b64(b'pw')], [CR_OK]),
    (b'AUTH LOGIN ' + b64(b'user'), [b64(b'pw')], [CR_OK]),
    (b'AUTH LOGIN', [b64('é中'.encode('utf-8')), b64('\U0001f600'.encode('utf-8'))],
     [(0, 'é中'.encode('utf-8'), '\U0001f600'.encode('utf-8'), 'é中'.encode('utf-8'))]),
    (b'AUTH LOGIN', [b'*'], []),
    (b'AUTH LOGIN', [b64(b'user'), b'*'], []),
    (b'AUTH LOGIN', [b64(b'user'), b'!bad!x'], []),
    (b'AUTH LOGIN =', [b64(b'pw')], [(0, b'', b'pw', b'')]),
    (b'AUTH LOGIN', [b64(b'\xff'), b64(b'pw')], []),
    (b'AUTH LOGIN', [b'', b''], [(0, b'', b'', b'')]),
    (b'AUTH CRAM-MD5', [CRAM_RESP], [CR_CRAM]),
    (b'AUTH cram-md5', [CRAM_RESP], [CR_CRAM]),
    (b'AUTH CRAM-MD5 ' + CRAM_RESP, [], [CR_CRAM]),
    (b'AUTH CRAM-MD5', [b64(b'nodigest')], []),
    (b'AUTH CRAM-MD5', [b'*'], []),
    (b'AUTH CRAM-MD5', [b64('é中 abcd'.encode('utf-8'))], [(1, 'é中'.encode('utf-8'), b'abcd', MSGID.encode())]),
    (b'AUTH CRAM-MD5', [b64(b'a\nb cd')], []),
    (b'AUTH CRAM-MD5', [b64(b'\xff cd')], []),
    (b'AUTH CRAM-MD5', [b64(b'bob ')], []),
    (b'AUTH', [], []),
    (b'AUTH  ', [], []),
    (b'auth', [], []),
    (b'AUTH FOO', [], []),
    (b'AUTH FOO bar', [], []),
    (b'AUTH pl@in', [], []),
    (b'AUTH -_-', [], []),
    (b'AUTH XOAUTH2 abc', [], []),
    (b'AUTH PLAIN' + b'\x0b' + PLAIN_OK, [], [CR_OK]),
    # site mechanisms (TokenMechanism): X-TOK-I flags itself insecure, X-TOK-S says insecure = False,
    # X-TOK-N has no such attribute; none of the names is in slimta.smtp.auth.insecure_mechanisms
    (b'AUTH X-TOK-I ' + TOK_B64, [], [(2, TOK, b'', TOK)]),
    (b'AUTH X-TOK-I', [TOK_B64], [(2, TOK, b'', TOK)]),
    (b'AUTH X-TOK-S ' + TOK_B64, [], [(3, TOK, b'', TOK)]),
    (b'AUTH X-TOK-S', [TOK_B64], [(3, TOK, b'', TOK)]),
    (b'AUTH X-TOK-N ' + TOK_B64, [], [(3, TOK, b'', TOK)]),
    (b'AUTH x-tok-n', [TOK_B64], [(3, TOK, b'', TOK)]),
    (b'AUTH X-TOK-I *', [], []),
    (b'AUTH X-TOK-N', [b64(b'\xff')], []),
    # refused before any challenge, but carrying an initial response
    (b'AUTH NTLM ' + PLAIN_UNI, [], []),
    (b'AUTH FOO ' + b64(b'mallory'), [], []),
]
INSECURE_NAMES = (b'PLAIN', b'LOGIN', b'X-TOK-I')
KNOWN_NAMES = (b'PLAIN', b'LOGIN', b'CRAM-MD5', b'X-TOK-I', b'X-TOK-S', b'X-TOK-N')
SHORT_SHAPES = [0, 1, 7, 21, 30, 39, 42]

AUTH_STATES = ['ehlo', 'noehlo', 'mail', 'authed', 'failed']
AUTH_CHANNELS = ['clear', 'starttls', 'imm']


def auth_case(channel, state, shape_i, verdict=0, second=True):
    line, answers, creds = AUTH_SHAPES[shape_i]
    script = []
    if channel == 'imm':
        script.append(('tls',))
    elif channel == 'starttls':
        script += [('send', b'EHLO a.example\r\n'), ('send', b'STARTTLS\r\n'), ('tls',)]
    if state != 'noehlo':
        script.append(('send', b'EHLO b.example\r\n'))
    if state == 'mail':
        script.append(('send', b'MAIL FROM:<s@x.example>\r\n'))
    elif state == 'authed':
        script += [('send', b'AUTH CRAM-MD5\r\n'), ('send', b64(b'first abcd') + b'\r\n')]
    elif state == 'failed':
        script.append(('send', b'AUTH CRAM-MD5 *\r\n'))
    first = len(script)
    script.append(('send', line + b'\r\n'))
    for a in answers:
        script.append(('send', a + b'\r\n'))
    auth_lines = list(range(first, len(script)))
    encrypted = channel != 'clear'
    plain_mech = line.split()[1:2] and line.split()[1].upper() in INSECURE_NAMES
    permitted = state in ('ehlo', 'failed') and (encrypted or not plain_mech)
    case = dict(kind='server', context=0 if channel == 'clear' else 1, imm=1 if channel == 'imm' else 0, auth=3,
                script=script, auth_lines=auth_lines, name='auth/%s/%s/%d/v%d' % (channel, state, shape_i, verdict))
    want = list(creds) if permitted else []
    if state == 'authed':
        want = [(1, b'first', b'abcd', MSGID.encode())] + want
    case['creds'] = want
    verdicts = []
    if verdict and want:
        verdicts.append((K_AUTH, want[-1][1], verdict))
    case['verdicts'] = verdicts
    app_ends = verdict in (1, 421, 221) and permitted and creds
    if verdict and permitted and creds:
        case['app_decides'] = [auth_lines[-1]]      # the reply to this line is the application's
    if not app_ends:
        case['probe'] = len(script)
        script.append(('send', b'NOOP\r\n'))
        if second:
            script.append(('send', b'AUTH CRAM-MD5\r\n'))
            script.append(('send', b64(b'again abcd') + b'\r\n'))
            if permitted and creds and verdict in (0, 235) and state != 'authed':
                pass     # refused with 503: no further credentials
            elif state == 'authed':
                pass
            elif state in ('ehlo', 'failed'):
                # the first attempt did not authenticate: the second one may
                case['creds'] = want + [(1, b'again', b'abcd', MSGID.encode())]
    return case


PREFIXES = [
    ('ehlo', [b'EHLO a.example\r\n'], True),
    ('mail', [b'EHLO a.example\r\n', b'MAIL FROM:<s@x.example>\r\n'], True),
    ('rcpt', [b'EHLO a.example\r\n', b'MAIL FROM:<s@x.example>\r\n', b'RCPT TO:<r@x.example>\r\n'], True),
    ('done', [b'EHLO a.example\r\n', b'MAIL FROM:<s@x.example>\r\n', b'RCPT TO:<r@x.example>\r\n', b'DATA\r\n',
              b'Subject: one\r\n\r\nbody\r\n..dot\r\n.\r\n'], True),
    ('mail550', [b'EHLO a.example\r\n', b'MAIL FROM:<bad@x.example>\r\n'], True),
    ('authed', [b'EHLO a.example\r\n', b'AUTH CRAM-MD5\r\n', b64(b'first abcd') + b'\r\n'], False),
    ('helo', [b'HELO a.example\r\n'], False),
    ('none', [], False),
]

SUFFIXES = [
    ('empty', b''),
    ('rcpt', b'RCPT TO:<x@y.example>\r\n'),
    ('noop', b'NOOP\r\n'),
    ('garbage', b'\x00\xff\x16\x03\x01 garbage\r\n'),
    ('half', b'RCPT TO:<x@'),
    ('burst', b'MAIL FROM:<evil@x.example>\r\nRCPT TO:<v@x.example>\r\nDATA\r\n'),
    ('ehlo', b'EHLO evil.example\r\n'),
    ('auth', b'AUTH CRAM-MD5\r\n'),
    ('quit', b'QUIT\r\n'),
]

FOLLOWUPS = [
    ('noop-quit', [b'NOOP\r\n', b'QUIT\r\n']),
    ('rcpt', [b'RCPT TO:<r2@x.example>\r\n', b'DATA\r\n']),
    ('mail', [b'MAIL FROM:<s2@x.example>\r\n']),
    ('transaction', [b'EHLO b.example\r\n', b'MAIL FROM:<s2@x.example>\r\n', b'RCPT TO:<r2@x.example>\r\n', b'DATA\r\n',
                     b'Subject: two\r\n\r\nover tls\r\n.\r\n', b'QUIT\r\n']),
    ('half-rest', [b'y.example>\r\n', b'NOOP\r\n']),
    ('starttls-again', [b'STARTTLS\r\n', b'EHLO b.example\r\n', b'STARTTLS\r\n']),
    ('auth', [b'AUTH PLAIN ' + PLAIN_OK + b'\r\n', b'EHLO b.example\r\n', b'AUTH PLAIN ' + PLAIN_OK + b'\r\n', b'MAIL FROM:<s3@x.example>\r\n']),
    ('helo-mail', [b'HELO b.example\r\n', b'MAIL FROM:<s2@x.example>\r\n', b'RCPT TO:<r2@x.example>\r\n']),
    ('pipelined', [b'EHLO b.example\r\nMAIL FROM:<s2@x.example>\r\nRCPT TO:<r2@x.example>\r\nRSET\r\nNOOP\r\n']),
]

STARTTLS_LINES = [b'STARTTLS', b'starttls', b'STARTTLS  ']


def starttls_case(pi, si, fi, line=b'STARTTLS'):
    pname, plines, _ = PREFIXES[pi]
    sname, suffix = SUFFIXES[si]
    fname, flines = FOLLOWUPS[fi]
    script = [('send', l) for l in plines]
    script.append(('send', line + b'\r\n' + suffix))
    script.append(('tls',))
    script += [('send', l) for l in flines]
    return dict(kind='server', context=1, imm=0, auth=2, script=script,
                verdicts=[(K_MAIL, b'bad@x.example', 550)],
                name='starttls/%s/%s/%s' % (pname, sname, fname), group=(fi, line), prefix=pname, suffix=sname)


RANDOM_POOL = [
    [b'EHLO r.example'], [b'EHLO r.example'], [b'HELO r.example'], [b'EHLO \xff'], [b'EHLO'],
    [b'MAIL FROM:<s@x.example>'], [b'MAIL FROM:<s@x.example>'], [b'MAIL FROM:<bad@x.example>'], [b'MAIL'], [b'MAIL FROM:<u@x> SIZE=10'],
    [b'RCPT TO:<r@x.example>'], [b'RCPT TO:<r@x.example>'], [b'RCPT TO:<r450@x.example>'], [b'RCPT TO:<r421@x.example>'],
    [b'DATA', b'Subject: r', b'', b'line', b'..stuffed', b'.'], [b'DATA', b'.'], [b'DATA x'],
    [b'RSET'], [b'NOOP'], [b'VRFY x'], [b'\x00\x01 junk'], [b''], [b'QUIT'],
    [b'STARTTLS'], [b'STARTTLS'], [b'STARTTLS'], [b'STARTTLS x'],
]


def random_case(rng, n):
    channel = rng.choice(['clear', 'starttls', 'starttls', 'imm'])
    toks = []
    for _ in range(rng.randrange(2, 12)):
        if rng.random() < 0.3:
            line, answers, _ = AUTH_SHAPES[rng.randrange(len(AUTH_SHAPES))]
            toks.append([line] + list(answers))
        else:
            toks.append(rng.choice(RANDOM_POOL))
    lines = [l + b'\r\n' for t in toks for l in t]
    sends = []
    cur = b''
    for l in lines:
        cur += l
        is_stls = l.upper().startswith(b'STARTTLS')
        if is_stls and rng.random() < 0.5:
            cur += rng.choice([s for _, s in SUFFIXES])
        if is_stls or rng.random() > 0.3:
            if len(cur) > 3 and rng.random() < 0.15 and not is_stls:
                k = rng.randrange(1, len(cur))
                sends += [('send', cur[:k]), ('send', cur[k:])]
            else:
                sends.append(('send', cur))
            if is_stls:
                sends.append(('tls',))
            cur = b''
    if cur:
        sends.append(('send', cur))
    script = ([('tls',)] if channel == 'imm' else []) + sends
    verdicts = [(K_MAIL, b'bad@x.example', 550), (K_RCPT, b'r450@x.example', 450), (K_RCPT, b'r421@x.example', 421)]
    if rng.random() < 0.3:
        verdicts.append((K_AUTH, b'user', rng.choice([535, 421, 1, 454])))
    if rng.random() < 0.1:
        verdicts.append((K_HAVE, b'Subject: r\r\n\r\nline\r\n.stuffed\r\n', rng.choice([550, 421, 1])))
    if rng.random() < 0.1:
        verdicts.append((K_QUEUED, b'', rng.choice([451, 421])))
    if rng.random() < 0.1:
        verdicts.append((K_DATA, b'', rng.choice([554, 421, 1])))
    return dict(kind='server', context=0 if channel == 'clear' else 1, imm=1 if channel == 'imm' else 0,
                auth=rng.choice([2, 2, 1, 0]), script=script, verdicts=verdicts, name='random/%d' % n)


GRAPH_ATOMS = [
    ('E', b'EHLO p.example\r\n'), ('H', b'HELO p.example\r\n'), ('M', b'MAIL FROM:<s@x.example>\r\n'),
    ('R', b'RCPT TO:<r@x.example>\r\n'), ('S', b'RSET\r\n'),
]
GRAPH_FOLLOW = [
    ('ehlo', [b'EHLO t.example\r\n']),
    ('helo', [b'HELO t.example\r\n']),
    ('ehlo-ehlo', [b'EHLO t.example\r\n', b'EHLO u.example\r\n']),
    ('helo-ehlo', [b'HELO t.example\r\n', b'EHLO u.example\r\n']),
    ('starttls', [b'STARTTLS\r\n']),
    ('ehlo-starttls', [b'EHLO t.example\r\n', b'STARTTLS\r\n']),
    ('helo-ehlo-starttls', [b'HELO t.example\r\n', b'EHLO u.example\r\n', b'STARTTLS\r\n']),
    ('mail', [b'MAIL FROM:<s2@x.example>\r\n']),
    ('rcpt', [b'RCPT TO:<r2@x.example>\r\n']),
    ('data', [b'DATA\r\n']),
    ('auth', [b'AUTH CRAM-MD5\r\n']),
]


def graph_cases():
    """every session prefix of length 1..3 over {EHLO, HELO, MAIL, RCPT, RSET}, then STARTTLS (the
    handshake is done whenever the server accepts it), then each follow-up over TLS (in clear text
    when STARTTLS was refused)"""
    cs = []
    for n in (1, 2, 3):
        for combo in itertools.product(GRAPH_ATOMS, repeat=n):
            pname = ''.join(a for a, _ in combo)
            for fname, flines in GRAPH_FOLLOW:
                script = [('send', l) for _, l in combo] + [('send', b'STARTTLS\r\n'), ('tls',)] + [('send', l) for l in flines]
                cs.append(dict(kind='server', context=1, imm=0, auth=2, script=script, verdicts=[],
                               name='graph/%s/%s' % (pname, fname)))
    return cs


GREET_PREFIXES = [
    ('Ebad', [b'EHLO bad.example\r\n']),
    ('Eok-Ebad', [b'EHLO ok.example\r\n', b'EHLO bad.example\r\n']),
    ('Hbad', [b'HELO bad.example\r\n']),
    ('Eok-Hbad', [b'EHLO ok.example\r\n', b'HELO bad.example\r\n']),
    ('Ebad-Hbad', [b'EHLO bad.example\r\n', b'HELO bad.example\r\n']),
    ('Ebad-Eok', [b'EHLO bad.example\r\n', b'EHLO ok.example\r\n']),
]


def greet_cases(ctx):
    """the application rejects a greeting (EHLO/HELO handler sets 550 / 450 / 421 / raises): in clear
    text, after STARTTLS, with immediate TLS; then AUTH (every shape), MAIL, STARTTLS"""
    cs = []
    follow = [('mail', [b'MAIL FROM:<s@x.example>\r\n', b'RCPT TO:<r@x.example>\r\n']),
              ('starttls', [b'STARTTLS\r\n'])]
    for v in (550, 450, 421, 1):
        for pname, plines in GREET_PREFIXES:
            for place in ('clear', 'starttls', 'imm'):
                pre = []
                if place == 'imm':
                    pre = [('tls',)]
                elif place == 'starttls':
                    pre = [('send', b'EHLO a.example\r\n'), ('send', b'STARTTLS\r\n'), ('tls',)]
                full = (v == 550 and pname == 'Ebad') or not ctx.quick
                shapes = range(len(AUTH_SHAPES)) if full else SHORT_SHAPES
                fl = list(follow) + [('auth%d' % sh, [AUTH_SHAPES[sh][0] + b'\r\n'] + [a + b'\r\n' for a in AUTH_SHAPES[sh][1]]) for sh in shapes]
                for fname, flines in fl:
                    script = pre + [('send', l) for l in plines] + [('send', l) for l in flines]
                    if fname == 'starttls':
                        script.append(('tls',))
                    script.append(('send', b'NOOP\r\n'))
                    cs.append(dict(kind='server', context=1, imm=1 if place == 'imm' else 0, auth=2, script=script,
                                   verdicts=[(K_EHLO, b'bad.example', v), (K_HELO, b'bad.example', v)],
                                   name='greet/%s/%s/%s/%s' % (v, pname, place, fname)))
    return cs


def refused_starttls_cases():
    """the STARTTLS hook refuses (454 / 250 / 554), closes (421) or raises; commands pipelined behind the
    STARTTLS line in the same write are then ordinary commands"""
    cs = []
    tails = [b'', b'MAIL FROM:<s@x.example>\r\nRCPT TO:<r@x.example>\r\n', b'NOOP\r\n', b'MAIL FROM:<s@x.ex']
    for v in (454, 250, 554, 421, 1):
        for ti, tail in enumerate(tails):
            for pre in ([b'EHLO a.example\r\n'], [b'EHLO a.example\r\n', b'MAIL FROM:<p@x.example>\r\n']):
                script = [('send', l) for l in pre] + [('send', b'STARTTLS\r\n' + tail), ('tls',),
                                                         ('send', b'ample>\r\n' if ti == 3 else b'NOOP\r\n'), ('send', b'RSET\r\n')]
                c = dict(kind='server', context=1, imm=0, auth=2, script=script, verdicts=[(K_STLS, b'', v)],
                         name='starttls-hook/%s/%d/%d' % (v, ti, len(pre)))
                if v in (454, 250, 554) and ti in (1, 2):
                    c['all_lines_answered'] = len(pre)
                cs.append(c)
    return cs


def shape_mech(i):
    parts = AUTH_SHAPES[i][0].split()
    return parts[1].upper() if len(parts) > 1 else None


def has_initial(i):
    return len(AUTH_SHAPES[i][0].split()) > 2


def multi_auth_case(place, idxs, name=None):
    """several AUTH attempts in one session.  place: 'tls' all under immediate TLS; 'across' the first in
    clear text, then STARTTLS + EHLO, the others over TLS; 'clear' all in clear text.  The credentials the
    handler must see and the AUTH lines that must be challenged are those of each attempt ALONE."""
    script = []
    enc = False
    if place == 'tls':
        script.append(('tls',))
        enc = True
    script.append(('send', b'EHLO b.example\r\n'))
    want, challenged, auth_lines = [], [], []
    authed = False
    for n, i in enumerate(idxs):
        line, answers, creds = AUTH_SHAPES[i]
        if place == 'across' and n == 1:
            script += [('send', b'STARTTLS\r\n'), ('tls',), ('send', b'EHLO c.example\r\n')]
            enc = True
        mech = shape_mech(i)
        permitted = (not authed) and mech in KNOWN_NAMES and (enc or mech not in INSECURE_NAMES)
        if permitted and not has_initial(i):
            challenged.append(len(script))
        auth_lines.append(len(script))
        script.append(('send', line + b'\r\n'))
        for a in answers:
            script.append(('send', a + b'\r\n'))
        if permitted:
            want += list(creds)
            if creds:
                authed = True
    script.append(('send', b'NOOP\r\n'))
    return dict(kind='server', context=0 if place == 'clear' else 1, imm=1 if place == 'tls' else 0, auth=3,
                script=script, verdicts=[], creds=want, challenged=challenged,
                name=name or 'multi-auth/%s/%s' % (place, '-'.join(str(i) for i in idxs)))


def multi_auth_cases(ctx):
    n = len(AUTH_SHAPES)
    cs = []
    if ctx.quick:
        firsts = [i for i in range(n) if has_initial(i)]
        seconds = [i for i in range(n) if not has_initial(i)]
        for place in ('tls', 'across'):
            for i in firsts:
                for j in seconds:
                    cs.append(multi_auth_case(place, (i, j)))
        for _ in range(300):
            cs.append(multi_auth_case(ctx.rng.choice(['tls', 'across', 'clear']), (ctx.rng.randrange(n), ctx.rng.randrange(n))))
        for _ in range(150):
            cs.append(multi_auth_case(ctx.rng.choice(['tls', 'across', 'clear']), tuple(ctx.rng.randrange(n) for _ in range(3))))
    else:
        for place in ('tls', 'across', 'clear'):
            for i in range(n):
                for j in range(n):
                    cs.append(multi_auth_case(place, (i, j)))
        for _ in range(4000):
            cs.append(multi_auth_case(ctx.rng.choice(['tls', 'across', 'clear']), tuple(ctx.rng.randrange(n) for _ in range(3))))
    return cs


def misc_cases():
    cs = []
    # handshake that fails (the client talks plain text where the ClientHello should be)
    for pi in (0, 2):
        script = [('send', l) for l in PREFIXES[pi][1]] + [('send', b'STARTTLS\r\n'), ('raw', b'NOOP\r\n')]
        cs.append(dict(kind='server', context=1, imm=0, auth=2, script=script, verdicts=[], name='starttls-fails/%s' % PREFIXES[pi][0]))
    # STARTTLS refused: argument, not offered, before EHLO; then the session goes on in clear text
    for line in (b'STARTTLS now\r\n', b'STARTTLS\r\n'):
        for pre in ([], [b'EHLO a.example\r\n'], [b'HELO a.example\r\n']):
            for context in (0, 1):
                script = [('send', l) for l in pre] + [('send', line + b'NOOP\r\n')]
                if context and pre == [b'EHLO a.example\r\n'] and line == b'STARTTLS\r\n':
                    continue
                script += [('send', b'MAIL FROM:<s@x.example>\r\n'), ('send', b'QUIT\r\n')]
                cs.append(dict(kind='server', context=context, imm=0, auth=2, script=script, verdicts=[],
                               name='starttls-refused/%d/%r/%r' % (context, line, pre)))
    # immediate TLS: whole sessions
    for fi in range(len(FOLLOWUPS)):
        script = [('tls',)] + [('send', l) for l in FOLLOWUPS[fi][1]]
        cs.append(dict(kind='server', context=1, imm=1, auth=2, script=script, verdicts=[], name='imm/%s' % FOLLOWUPS[fi][0]))
    # banner verdicts with immediate TLS
    for v in (554, 421, 1):
        cs.append(dict(kind='server', context=1, imm=1, auth=1, script=[('tls',), ('send', b'EHLO a.example\r\n')],
                       verdicts=[(K_BANNER, b'', v)], name='imm/banner-%d' % v))
    # default mechanisms (auth=True): CRAM-MD5 unknown
    for ch in ('clear', 'imm'):
        c = auth_case(ch, 'ehlo', 30)
        c['auth'] = 1
        c['creds'] = []
        c['name'] += '/defaults'
        cs.append(c)
    # no AUTH extension at all
    c = auth_case('imm', 'ehlo', 0)
    c['auth'] = 0
    c['creds'] = []
    c['name'] += '/noauth'
    cs.append(c)
    return cs


CLIENT_EXTRAS = [
    b'',
    b'250 injected.example\r\n',
    b'250-injected.example\r\n250 XINJECTED\r\n',
    b'550 5.0.0 injected failure\r\n',
    b'250-injected.example\r\n250-XINJ',
    b'garbage\r\n',
    b'250 one\r\n250 two\r\n',
    b'\r\n',
    b'2',
]
CLIENT_AFTER = [b'250-tls.example\r\n250-XTLS\r\n250 SIZE 1\r\n', b'251 over-tls-2\r\n', b'252 over-tls-3\r\n']


def client_cases():
    cs = []
    for extra in CLIENT_EXTRAS:
        for n in (1, 2, 3):
            cs.append(dict(kind='client', reply=b'220 2.0.0 go ahead\r\n', extra=extra, wrap=1, after=CLIENT_AFTER[:n],
                           name='client/220/%r/%d' % (extra, n)))
        cs.append(dict(kind='client', reply=b'220-multi\r\n220 go\r\n', extra=extra, wrap=1, after=CLIENT_AFTER[:2],
                       name='client/220-multi/%r' % (extra,)))
    # STARTTLS refused: no handshake, the session goes on in clear text (a pipelined extra reply is then
    # simply the next reply)
    for extra in (b'', b'250 next\r\n'):
        cs.append(dict(kind='client', reply=b'454 4.7.0 not now\r\n', extra=extra, wrap=0, after=CLIENT_AFTER[:2] if not extra else CLIENT_AFTER[:1],
                       name='client/454/%r' % (extra,)))
    return cs


# ---------------------------------------------------------------- primitives: base64, _parse_arg, mechanisms
def prim_b64(ctx):
    alpha = [b'A', b'Q', b'=', b'!', b' ', b'/']
    n = 6 if ctx.quick else 7
    ins = [b''.join(t) for k in range(n + 1) for t in itertools.product(alpha, repeat=k)]
    rng = ctx.rng
    pool = b'ABCDwxyz0189+/=-_ \t\xff\x00\r'
    for _ in range(3000 if ctx.quick else 30000):
        ins.append(bytes(rng.choice(pool) for _ in range(rng.randrange(0, 14))))
    for _ in range(1500):
        ins.append(base64.b64encode(bytes(rng.randrange(256) for _ in range(rng.randrange(0, 10)))))
    outs = ctx.model.batch('c08_b64dec', ins)
    for i, o in zip(ins, outs):
        try:
            want = base64.b64decode(i)
        except ValueError:
            want = None
        got = B(o[0]) if o else None
        ctx.evaluated(('b64dec', i), nontrivial=bool(i) and want != b'')
        ctx.count('b64dec:' + ('error' if want is None else 'ok'))
        if got != want:
            ctx.mismatch('b64decode', i, want, got)
    raws = [bytes(rng.randrange(256) for _ in range(rng.randrange(0, 20))) for _ in range(2000)]
    outs = ctx.model.batch('c08_b64enc', raws)
    for i, o in zip(raws, outs):
        ctx.evaluated(('b64enc', i), nontrivial=bool(i))
        if B(o) != base64.b64encode(i):
            ctx.mismatch('b64encode', i, base64.b64encode(i), B(o))
    ctx.extra['b64_exhaustive'] = 'every string over {A,Q,=,!,blank,/} up to length %d' % n


def prim_parse_arg(ctx):
    alpha = [b'P', b'l', b'-', b'_', b' ', b'\t', b'=', b'@', b'9']
    n = 5
    ins = []
    for k in range(1, n + 1):
        for t in itertools.product(alpha, repeat=k):
            s = b''.join(t)
            if s[-1:] in b' \t':
                continue
            ins.append(s)
    ins += [l.split(None, 1)[1] for l, _, _ in AUTH_SHAPES if len(l.split(None, 1)) > 1 and l.split(None, 1)[1].strip() == l.split(None, 1)[1]]
    outs = ctx.model.batch('c08_parse_auth', ins)
    for i, o in zip(ins, outs):
        # whatever the code under test does here must become a comparison result, never a harness error
        try:
            a = AuthSession(None, None)
            res = a._parse_arg(i)
            if isinstance(res, tuple) and len(res) == 2 and isinstance(res[0], bytes) and (res[1] is None or isinstance(res[1], bytes)):
                want = (res[0],) if res[1] is None else (res[0], res[1])
            else:
                want = ('unexpected result', repr(res))
        except SmtpError:
            want = ()
        except Exception as e:
            want = ('exception', type(e).__name__)
        got = tuple(B(x) for x in o)
        ctx.evaluated(('parse_arg', i), nontrivial=len(want) > 0)
        ctx.count('parse_arg:%d' % len(want))
        if got != want:
            ctx.mismatch('_parse_arg', i, want, got)


def prim_mech(ctx):
    from pysasl.mechanism import ServerChallenge, ChallengeResponse
    from pysasl.exception import AuthenticationError
    rng = ctx.rng
    auth = pysasl.SASLAuth.named(MECHS + TOKEN_MECHS)
    pool = [b'', b'\0', b' ', b'a', b'user', b'pw', b'\xff', 'é'.encode('utf-8'), '\U0001f600'.encode('utf-8'), b'\n', b'\xed\xa0\x80', b'\xc0\xaf']

    def resp():
        return b''.join(rng.choice(pool) for _ in range(rng.randrange(0, 7)))
    ins = []
    for name in MECHS + TOKEN_MECHS:
        ins.append((name, []))
        for _ in range(700 if ctx.quick else 6000):
            ins.append((name, [(MSGID.encode() if name == b'CRAM-MD5' else b'c', resp()) for _ in range(rng.randrange(1, 4))]))
        for parts in itertools.product([b'', b'a', 'é'.encode('utf-8'), b'\xff'], repeat=3):
            ins.append((name, [(b'c', b'\0'.join(parts)), (b'c', parts[1])]))
            ins.append((name, [(b'c', b' '.join(parts))]))
    outs = ctx.model.batch('c08_mech', [[MSGID.encode(), n, [[c, r] for c, r in rs]] for n, rs in ins])
    for (name, rs), o in zip(ins, outs):
        m = auth.get_server(name)
        try:
            creds, _ = m.server_attempt([ChallengeResponse(c, r) for c, r in rs])
            want = (0, canon(_creds(creds)))
        except ServerChallenge as ch:
            want = (1, canon(bytes(ch.data)))
        except AuthenticationError:
            want = (2,)
        except ValueError:
            want = (3,)
        except BaseException as e:
            want = ('other', type(e).__name__)
        got = o[1] if o else None
        ctx.evaluated(('mech', name, rs), nontrivial=want[0] in (0, 2, 3))
        ctx.count('mech:%s:%s' % (name.decode(), want[0]))
        if want[0] == 'other':
            fail(ctx, 'c08:mechanism-raises-unexpected', dict(kind='mech', name=name, resps=rs),
                     'pysasl %s.server_attempt raised %s: neither ServerChallenge, AuthenticationError nor ValueError - the AUTH command would end the session with 421' % (name, want[1]))
        elif got != want:
            ctx.mismatch('mechanism', (name, rs), want, got)
        want_insecure = int(bool(getattr(m, 'insecure', name in INSECURE_NAMES)))
        if o and o[0] != want_insecure:
            ctx.mismatch('insecure-flag', name, want_insecure, o[0])


# ---------------------------------------------------------------- run
def all_server_cases(ctx):
    cases = []
    for pi in range(len(PREFIXES)):
        for si in range(len(SUFFIXES)):
            for fi in range(len(FOLLOWUPS)):
                cases.append(starttls_case(pi, si, fi))
    for line in STARTTLS_LINES[1:]:
        for si in (0, 1, 4):
            for fi in (1, 3):
                cases.append(starttls_case(1, si, fi, line))
    for ch in AUTH_CHANNELS:
        for st in AUTH_STATES:
            shapes = range(len(AUTH_SHAPES)) if (st == 'ehlo' or not ctx.quick) else SHORT_SHAPES
            for sh in shapes:
                cases.append(auth_case(ch, st, sh))
    for ch in AUTH_CHANNELS:
        for v in (535, 421, 1, 250, 235, 454):
            for sh in (0, 21, 30):
                cases.append(auth_case(ch, 'ehlo', sh, verdict=v))
    cases += misc_cases()
    cases += graph_cases()
    cases += greet_cases(ctx)
    cases += refused_starttls_cases()
    cases += multi_auth_cases(ctx)
    for n in range(400 if ctx.quick else 8000):
        cases.append(random_case(ctx.rng, n))
    return cases


def metamorphic(ctx, results):
    """the TLS phase of a session must not depend on what was pipelined in clear text behind STARTTLS
    (same prefix, empty suffix as the reference) nor on the transaction that was open before it
    (prefix EHLO as the reference)"""
    ref = {}
    for case, r in results:
        if case.get('group') is not None and case['suffix'] == 'empty':
            ref[(case['group'], case['prefix'])] = (case, r)
    for case, r in results:
        g = case.get('group')
        if g is None or case['prefix'] in ('authed', 'helo', 'none'):
            continue
        if case['suffix'] != 'empty':
            key = 'c08:plaintext-executed-after-starttls'
            what = 'the bytes pipelined in clear text behind STARTTLS'
            rc = ref.get((g, case['prefix']))
        else:
            key = 'c08:transaction-survives-starttls'
            what = 'the transaction opened before STARTTLS'
            rc = ref.get((g, 'ehlo'))
        if rc is None or rc[0] is case or r['hs'] != 1 or rc[1]['hs'] != 1:
            continue
        if tls_phase(r) != tls_phase(rc[1]):
            c = dict(case)
            c['twin'] = dict(rc[0])
            fail(ctx, key, c, 'the session after the handshake differs from the same session without %s: replies over TLS and callbacks %r, '
                 'expected %r' % (what, tls_phase(r), tls_phase(rc[1])))


def quiet_logs():
    import logging
    lg = logging.getLogger('slimta')
    old = lg.level
    lg.setLevel(logging.CRITICAL + 10)
    return lambda: lg.setLevel(old)


def run(ctx):
    restore = quiet_logs()
    install()
    try:
        prim_b64(ctx)
        prim_parse_arg(ctx)
        prim_mech(ctx)
        cases = all_server_cases(ctx)
        results = []
        for case in cases:
            r = run_server_case(case)
            results.append((case, r))
        outs = ctx.model.batch('c08_session', [model_input(c, r) for c, r in results])
        for (case, r), mo in zip(results, outs):
            ok = compare_server(ctx, case, r, mo)
            oracle_server(ctx, case, r)
            tls_lines = sum(1 for ch, d, p in r['steps'] if ch)
            ctx.evaluated(case['name'], nontrivial=bool(r['tls']) or len(r['events']) > 2)
            ctx.count('server:' + case['name'].split('/')[0])
            ctx.count('server-end:%s' % r['end'])
            if case['name'] in ('starttls/rcpt/rcpt/transaction', 'auth/imm/ehlo/3/v0'):
                ctx.sample(dict(case=case['name'], script=[list(a) for a in case['script']],
                                replies=[(ch, p) for ch, d, p in r['steps']], events=r['events']))
        metamorphic(ctx, results)
        pcases = pair_cases()
        pres = [(c, run_pair_case(c)) for c in pcases]
        pouts = ctx.model.batch('c08_session', [model_input(r['scase'], r) for c, r in pres])
        encs = ctx.model.batch('c08_b64enc', [x for c, r in pres for x in r['responses']])
        ei = 0
        for (case, r), mo in zip(pres, pouts):
            k = len(r['responses'])
            compare_server(ctx, dict(case, context=1, auth=2, verdicts=[]), r, mo)
            oracle_pair(ctx, case, r, encs[ei:ei + k])
            ei += k
            ctx.evaluated(case['name'], nontrivial=True)
            ctx.count('pair:' + case['mech'].decode())
        ccases = client_cases()
        cres = [(c, run_client_case(c)) for c in ccases]
        couts = ctx.model.batch('c08_client', [[1, r['plain'], r['tls'], [0, 0, 1] + [0] * len(c['after'])] for c, r in cres])
        for (case, r), mo in zip(cres, couts):
            compare_client(ctx, case, r, mo)
            oracle_client(ctx, case, r)
            ctx.evaluated(case['name'], nontrivial=bool(case['extra']))
            ctx.count('client:' + case['name'].split('/')[1])
        ctx.sample(dict(case=ccases[6]['name'], calls=cres[6][1]['calls']))
    finally:
        uninstall()
        restore()
    ctx.extra['rule'] = (
        'REAL TLS over a gevent socketpair (certificate harness/certs). Server: every session prefix that reaches STARTTLS (EHLO; open transaction '
        'MAIL, MAIL+RCPT; finished transaction; rejected MAIL; authenticated) and those that do not (HELO, none) x bytes pipelined behind the STARTTLS line in the '
        'same write {empty, RCPT, NOOP, binary garbage, half a line, MAIL+RCPT+DATA burst, EHLO, AUTH, QUIT} x what follows over TLS {9 follow-ups incl. a full '
        'transaction, the rest of the half line, STARTTLS again, AUTH, HELO, a pipelined burst}; failing handshake; immediate TLS; AUTH: %d argument shapes '
        '(PLAIN/LOGIN/CRAM-MD5/unknown x none, initial response, =, *, bad base64, empty, Unicode, invalid UTF-8, bare AUTH) x {clear, STARTTLS, immediate TLS} x '
        '{after EHLO, before EHLO, inside a transaction, after success, after a failed attempt} x handler verdicts; each followed by NOOP and a second AUTH. '
        'Real Client.auth against the real Server (both ends real, TLS immediate and via STARTTLS): PLAIN/LOGIN/CRAM-MD5 x credential lengths '
        '{1,10,40,56,57,58,100,300,1000} bytes x {ASCII, multi-byte Unicode} x {authcid, secret} x authzid present/absent; the handler\'s credentials object must equal what '
        'Client.auth was given and the client\'s wire must be the model encoder\'s one line per SASL response. Client: real Client.starttls() against a scripted TLS server that pipelines %d kinds of extra bytes behind its 220. Compared with the model: every reply '
        'code with the channel it arrived on, 334 payloads, callback trace with the encryption flag and the credentials object, final Server/SmtpSession state, '
        'session end. Primitives: base64.b64decode exhaustive over a 6-letter alphabet + random, AuthSession._parse_arg exhaustive to length 5, pysasl mechanisms on '
        'random and structured responses. non-trivial = bytes were read over TLS or more than two callbacks happened / non-empty input.' % (len(AUTH_SHAPES), len(CLIENT_EXTRAS)))
    ctx.extra['exhaustive'] = False
    ctx.extra['traces_validated_against_impl'] = len(cases) + len(ccases)
    ctx.extra['trusted_base'] = [
        'gevent.ssl/OpenSSL as the channel swap; harness TapIO (subclass of IO put into slimta.smtp.server/client namespaces) records what raw_recv returned and signals quiescence',
        'pysasl entry-point scan memoised; email.utils.make_msgid fixed (CRAM-MD5 challenge); PtrLookup stubbed',
        'oracle: reply/line counting over TLS, handler arguments must occur in the bytes sent over TLS, metamorphic comparison of the TLS phase across pipelined suffixes and prefixes',
    ]


# ---------------------------------------------------------------- replay
def unjson(x):
    if isinstance(x, dict):
        if set(x.keys()) == {'hex'}:
            return bytes.fromhex(x['hex'])
        return {k: unjson(v) for k, v in x.items()}
    if isinstance(x, list):
        return [unjson(v) for v in x]
    return x


def fix_case(c):
    c = unjson(c)
    if 'script' in c:
        c['script'] = [tuple(a) for a in c['script']]
    if 'verdicts' in c:
        c['verdicts'] = [tuple(v) for v in c['verdicts']]
    if 'creds' in c:
        c['creds'] = [tuple(v) for v in c['creds']]
    if 'group' in c and c['group'] is not None:
        c['group'] = tuple(c['group'])
    if 'twin' in c:
        c['twin'] = fix_case(c['twin'])
    return c


def replay(ctx, doc):
    case = fix_case(doc.get('case', doc))
    restore = quiet_logs()
    install()
    try:
        if case.get('kind') == 'client':
            r = run_client_case(case)
            print('client calls (encrypted?, code, message):')
            for c in r['calls']:
                print('   ', c)
            print('extensions:', r['exts'])
            oracle_client(ctx, case, r)
        elif case.get('kind') == 'pair':
            r = run_pair_case(case)
            print('client calls:', r['calls'], 'error:', r['err'])
            print('client wire:', [l[:100] for l in r['wire'].split(b'\r\n')])
            print('callbacks:', [(e[0], e[1], tuple(x[:50] if isinstance(x, bytes) else x for x in e[2]) if e[0] == 1 else e[2]) for e in r['events']])
            oracle_pair(ctx, case, r, ctx.model.batch('c08_b64enc', r['responses']))
        elif case.get('kind') == 'mech':
            print(case)
        else:
            r = run_server_case(case)
            for act, st in zip(([('connect',)] if not case['imm'] else []) + list(case['script']), r['steps']):
                print('C:', act)
                print('   S[%s]: %r' % ('tls' if st[0] else 'clear', st[1]))
            print('callbacks:', r['events'])
            oracle_server(ctx, case, r)
            if 'twin' in case:
                r2 = run_server_case(case['twin'])
                metamorphic(ctx, [(case['twin'], r2), (case, r)])
    finally:
        uninstall()
        restore()
    known = {f['key'] for f in ctx.known if f.get('status') == 'known'}
    for f in ctx.failures:
        print('%s %s: %s' % ('KNOWN-FINDING' if f['key'] in known else 'FAIL', f['key'], f['what']))
    return 1 if any(f['key'] not in known for f in ctx.failures) else 0
