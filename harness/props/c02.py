"""C02 - an edge acknowledges a message only after custody of every recipient
is taken.

Correspondence of model/Edge.v with the real code and the property oracle on
the real code:

 * queue stream: real SmtpEdge (+ real slimta.smtp.server.Server on an
   in-memory socket, driven command by command inside gevent) and real WsgiEdge
   (called as a WSGI application with a hand-built environ), on top of a real
   Queue with real split policies, a storage stub whose k-th write returns an
   id / raises QueueError (with or without an attached reply) / raises another
   exception, each either immediately or after blocking on an event the harness
   releases (slow write), and a relay stub that never delivers.
 * results stream: both edges on top of a queue stub returning arbitrary result
   lists (ids, QueueError, RelayError).
 * proxy stream: both edges on top of the real ProxyQueue with relay stubs
   returning every result shape for 1-3 recipients.
"""
import base64, errno, io, itertools, logging, re

import gevent
import gevent.queue
from gevent.event import Event

from slimta.edge.smtp import SmtpEdge, SmtpSession
from slimta.edge.wsgi import WsgiEdge, WsgiResponse
import slimta.edge.smtp as edge_smtp_mod
import slimta.edge.wsgi as edge_wsgi_mod
from slimta.envelope import Envelope
from slimta.queue import Queue, QueueStorage, QueueError
from slimta.queue.proxy import ProxyQueue
from slimta.relay import Relay, PermanentRelayError, TransientRelayError
from slimta.smtp.reply import Reply
from slimta.policy.split import RecipientSplit, RecipientDomainSplit
from slimta.policy.headers import AddDateHeader

from vp.core import B

ASSUMPTIONS = [
    'a write may end with an exception of any family (QueueError, Exception subclasses such as OSError or a backend client error, gevent.Timeout, other BaseException-only classes such as the GreenletExit of a killed write); a real KeyboardInterrupt/SystemExit is not injected because the gevent hub re-raises those in the main greenlet (a custom BaseException-only class stands for them)',
    'when a BaseException-only exception leaves the edge there is no reply from the edge at all (SMTP: session over, socket closed; WSGI: the application raises and the WSGI server - gevent.pywsgi - answers 500 by itself): counted as "not acknowledged", the answer being recorded as "dropped"',
    'spelling of the HTTP recipient list: not in the written quantifier of C02 (header parsing is C06 territory) and not modelled; judged by the oracle only',
    'model/Edge.v has no pool parameter: store_pool / relay_pool / bounce_queue only affect scheduling, never the results of enqueue(); this is checked by running the write-fault matrix under 6 non-default Queue configurations against the same model and against the default-configuration run (a relay pool smaller than the number of never-finishing attempts would block enqueue itself: C12 finding, excluded)',
    'model/Edge.v is generic in the number of envelopes (every theorem quantifies over all lists of write behaviours); the count dimension (up to 100 envelopes) ties that to the code',
    'session stream: validators accept with the default codes (250 / 354) and refuse with 4xx/5xx other than 421 (a 251/252 answer to RCPT or a closing 421/221 is not in the scripted alphabet)',
    'concurrent messages: the model lets every message perform the events of its own sequential run under an arbitrary schedule (per-call state of enqueue/_run_policies is local; the store hands out fresh ids); the concurrent stream checks exactly this on the real code, per client',
    'no SmtpValidators/WsgiValidators class is installed (a handle_queued validator may rewrite the reply arbitrarily)',
    'storage ids are fresh (Queue.enqueue spawns an attempt only for ids not in active_ids)',
    'a slow write is a write that blocks on an event and then completes; a write that never completes never produces an answer (C14 is about time limits)',
    'reply codes attached to QueueError/RelayError are set through Reply.code (three digits [1-5]dd) or left unset',
    'when only part of the envelopes was stored the client is told 4xx/5xx and may retry the whole message: recipients already stored may get a duplicate; the property tolerates that',
    'the policy chain is "whatever list of envelopes it produced" (content/recipient conservation of policies is C16)',
]

MSG = b'From: sender@example.com\r\nSubject: c02\r\n\r\nbody line\r\n'
SENDER = 'sender@example.com'


class Boom(Exception):
    """the non-QueueError exception raised by stubs"""


class HarnessError(Exception):
    pass


class BackendError(ConnectionError):
    """what a storage backend's client library raises"""


class Fatal(BaseException):
    """a BaseException-only class that gevent does not treat specially (unlike a real
    KeyboardInterrupt, which the hub re-raises in the main greenlet)"""


class FakePtrLookup(object):
    def __init__(self, ip):
        pass

    def start(self):
        pass

    def finish(self, runtime=None):
        return None

    def kill(self, block=True):
        pass


# ---------------------------------------------------------------- stubs
# write kinds: (name, attached)   attached: None = no attribute, '' = Reply() without code, 'ddd'
KINDS = {
    'id': None,
    'qerr': ('q', None),
    'qerr450': ('q', '450'),
    'qerr550': ('q', '550'),
    'qerr250': ('q', '250'),
    'qerr354': ('q', '354'),
    'qerrnocode': ('q', ''),
    # any other way a write can end: ('x', family, factory); family 0 = Exception subclass,
    # 1 = gevent.Timeout (BaseException only), 2 = another BaseException-only class
    'exc': ('x', 0, lambda: Boom('stub exception')),
    'oserror': ('x', 0, lambda: OSError(errno.ENOSPC, 'No space left on device')),
    'backend': ('x', 0, lambda: BackendError('connection to the storage backend lost')),
    'timeout': ('x', 1, lambda: gevent.Timeout(5)),          # the backend's own `with gevent.Timeout(n)` fired
    'killed': ('x', 2, lambda: gevent.GreenletExit()),       # the write greenlet was killed
    'fatal': ('x', 2, lambda: Fatal('interrupt-like')),      # any other BaseException-only class
}
CORE = ['id', 'qerr', 'qerr550', 'exc']
EXTRA = ['qerr450', 'qerr250', 'qerr354', 'qerrnocode']
FAMILIES = ['oserror', 'backend', 'timeout', 'killed', 'fatal']
BASE_ONLY = ('timeout', 'killed', 'fatal')


def mk_reply(code):
    return Reply() if code == '' else Reply(code, 'attached by the stub')


def enc_reply(code):
    return [] if code == '' else [code.encode()]


def enc_att(code):
    return [] if code is None else [enc_reply(code)]


def enc_wout(kind):
    k = KINDS[kind]
    if k is None:
        return [0]
    if k[0] == 'q':
        return [1, enc_att(k[1])]
    return [2, k[1]]


class StoreStub(QueueStorage):
    def __init__(self, behs, log):
        super(StoreStub, self).__init__()
        self.behs = behs          # [(kind, slow)]
        self.log = log
        self.calls = 0
        self.contents = {}        # id -> list of recipients
        self.blocked_list = []    # (k, Event) of every slow write that is blocked right now
        self.write_rcpts = []     # recipients of the k-th write

    def write(self, envelope, timestamp):
        k = self.calls
        self.calls += 1
        if k >= len(self.behs):
            raise HarnessError('more writes than envelopes expected')
        kind, slow = self.behs[k]
        self.write_rcpts.append(list(envelope.recipients))
        self.log.append((0, k))
        if slow:
            gate = (k, Event())
            self.blocked_list.append(gate)
            gate[1].wait()
            self.blocked_list.remove(gate)
        spec = KINDS[kind]
        if spec is None:
            id = 'id%d' % k
            self.contents[id] = list(envelope.recipients)
            self.log.append((2, k))
            return id
        self.log.append((3, k))
        if spec[0] == 'q':
            e = QueueError('stub failure')
            if spec[1] is not None:
                e.reply = mk_reply(spec[1])
            raise e
        raise spec[2]()

    @property
    def blocked(self):
        return self.blocked_list[0] if self.blocked_list else None

    def stored_rcpts(self):
        return sorted(r for rs in self.contents.values() for r in rs)


class NeverRelay(Relay):
    """records the attempt and never finishes it"""

    def __init__(self):
        super(NeverRelay, self).__init__()
        self.attempted = []
        self.greenlets = []

    def attempt(self, envelope, attempts):
        self.attempted.append(list(envelope.recipients))
        self.greenlets.append(gevent.getcurrent())
        Event().wait()


class DuplexSock(object):
    """in-memory socket: recv() blocks the server greenlet until the harness
    feeds bytes; sendall() appends to the transcript and calls on_send"""

    def __init__(self, on_send):
        self.inbox = gevent.queue.Queue()
        self.sent = b''
        self.on_send = on_send
        self.waiting = False
        self.closed = False

    def fileno(self):
        return -1

    def getpeername(self):
        return ('192.0.2.7', 4242)

    def getsockname(self):
        return ('192.0.2.2', 25)

    def recv(self, n=4096):
        self.waiting = True
        data = self.inbox.get()
        self.waiting = False
        return data

    def sendall(self, data):
        data = bytes(data)
        self.sent += data
        self.on_send(data)

    def send(self, data):
        self.sendall(data)
        return len(data)

    def close(self):
        self.closed = True

    def feed(self, data):
        self.waiting = False
        self.inbox.put(data)


REPLY_LINE = re.compile(br'^(\d\d\d) [^\r\n]*\r\n', re.M)


def settle(cond, what):
    for _ in range(20000):
        if cond():
            return
        gevent.sleep(0)
    raise HarnessError('no quiescence: ' + what)


# ---------------------------------------------------------------- running an edge
def recipients_for(chain, n):
    """recipients such that the chain produces exactly n envelopes"""
    if chain in ('split', 'date+split'):
        return ['rcpt%d@example.com' % i for i in range(n)]
    if chain == 'none':
        assert n == 1
        return ['rcpt0@example.com', 'rcpt1@example.com']
    if chain == 'domain':
        return [('rcpt%d%s@dom%d.example' % (i, s, i)) for i in range(n) for s in 'ab']
    if chain == 'domain+split':
        # domain 0 has two recipients (split again by RecipientSplit), the others one
        if n == 1:
            return ['rcpt0@dom0.example']
        return ['rcpt0a@dom0.example', 'rcpt0b@dom0.example'] + ['rcpt%d@dom%d.example' % (i, i) for i in range(1, n - 1)]
    raise ValueError(chain)


def add_policies(queue, chain):
    if chain == 'split':
        queue.add_policy(RecipientSplit())
    elif chain == 'date+split':
        queue.add_policy(AddDateHeader())
        queue.add_policy(RecipientSplit())
    elif chain == 'domain':
        queue.add_policy(RecipientDomainSplit())
    elif chain == 'domain+split':
        queue.add_policy(RecipientDomainSplit())
        queue.add_policy(RecipientSplit())


class Run(object):
    """one message through one edge; `queue` is any queue-like object, `gate`
    returns the (key, Event) the code under test is currently blocked on"""

    def __init__(self, edge_kind, queue, rcpts, gate, log, snapshot):
        self.edge_kind = edge_kind
        self.queue = queue
        self.rcpts = rcpts
        self.gate = gate
        self.log = log
        self.snapshot = snapshot
        self.answer = None            # '250' / 204 ...
        self.at_reply = None          # snapshot() at the instant the answer appeared
        self.early = []               # answers seen while blocked
        self.prefixes = []            # log at each blocked instant

    # -- answers
    def _answered(self, value):
        if self.answer is None:
            self.answer = value
            self.at_reply = self.snapshot()
            self.log.append((8, value) if self.edge_kind == 'smtp' else (9, value))

    def _dropped(self, g):
        """no answer and the greenlet serving the client is gone: the exception left the edge (SMTP:
        session over, socket closed without a reply; WSGI: the application raised, the WSGI server
        answers 500 on its own).  Recorded as the answer 'dropped'."""
        if self.answer is None and g.dead:
            self.answer = 'dropped'
            self.at_reply = self.snapshot()

    def _pump(self, g, done):
        """let the edge run; at every blocked write/relay: observe, tick, release"""
        while True:
            settle(lambda: done() or self.gate() is not None or g.dead, 'edge neither answered nor blocked')
            if self.gate() is None:
                # answered (or died): let every pending greenlet run - a write that
                # blocks only now was not waited for by the answer
                for _ in range(3):
                    gevent.sleep(0)
                if self.gate() is None:
                    return
            gt = self.gate()
            # blocked: give every other greenlet the chance to run, then look
            for _ in range(3):
                gevent.sleep(0)
            if self.answer is not None:
                self.early.append(self.answer)
            self.log.append((1,))
            self.prefixes.append(list(self.log))
            gt[1].set()
            settle(lambda: self.gate() is not gt, 'gate not left')

    def run_smtp(self):
        state = {'body_sent': False}

        def on_send(data):
            if state['body_sent']:
                m = REPLY_LINE.search(data)
                if m:
                    self._answered(m.group(1).decode())

        sock = DuplexSock(on_send)
        edge = SmtpEdge(None, self.queue, hostname='edge.test')
        g = gevent.spawn(edge.handle, sock, ('192.0.2.7', 4242))

        def nreplies():
            return len(REPLY_LINE.findall(sock.sent))

        def command(data, want):
            sock.feed(data)
            settle(lambda: nreplies() >= want or g.dead, 'no reply to %r' % data)
            if nreplies() < want:
                raise HarnessError('session died at %r: %r' % (data, sock.sent))

        settle(lambda: nreplies() >= 1 or g.dead, 'banner')
        n = 1
        for cmd in [b'EHLO client.test\r\n', b'MAIL FROM:<%s>\r\n' % SENDER.encode()] + \
                [b'RCPT TO:<%s>\r\n' % r.encode() for r in self.rcpts] + [b'DATA\r\n']:
            n += 1
            command(cmd, n)
        if not sock.sent.endswith(b'\r\n') or REPLY_LINE.findall(sock.sent)[-1] != b'354':
            raise HarnessError('DATA not accepted: %r' % sock.sent)
        state['body_sent'] = True
        sock.feed(MSG + b'.\r\n')
        self._pump(g, lambda: self.answer is not None)
        if self.answer is None and not g.dead:
            settle(lambda: self.answer is not None or g.dead, 'final reply')
        self._dropped(g)
        # end the session
        if not g.dead:
            sock.feed(b'QUIT\r\n')
            settle(lambda: g.dead or sock.waiting, 'quit')
            if not g.dead:
                sock.feed(b'')
        g.join(timeout=1)
        self.transcript = sock.sent
        return self

    def run_wsgi(self):
        def b64(s):
            return base64.b64encode(s.encode()).decode()

        environ = {
            'REQUEST_METHOD': 'POST', 'PATH_INFO': '/', 'CONTENT_TYPE': 'message/rfc822',
            'CONTENT_LENGTH': str(len(MSG)), 'wsgi.input': io.BytesIO(MSG), 'wsgi.url_scheme': 'http',
            'REMOTE_ADDR': '192.0.2.7', 'HTTP_X_EHLO': 'client.test',
            'HTTP_X_ENVELOPE_SENDER': b64(SENDER),
            'HTTP_X_ENVELOPE_RECIPIENT': ', '.join(b64(r) for r in self.rcpts),
        }

        def start_response(status, headers):
            self._answered(int(status[:3]))

        edge = WsgiEdge(self.queue, hostname='edge.test')
        g = gevent.spawn(edge, environ, start_response)
        self._pump(g, lambda: self.answer is not None)
        g.join(timeout=1)
        self._dropped(g)
        self.transcript = None
        return self

    def go(self):
        return self.run_smtp() if self.edge_kind == 'smtp' else self.run_wsgi()


def fail(ctx, key, case, what, cap=3):
    """ctx.fail, but at most `cap` recorded cases per key (the enumeration goes from small to
    large cases, so the first ones are the smallest); the rest is only counted"""
    seen = ctx.extra.setdefault('_c02_fail', {})
    seen[key] = seen.get(key, 0) + 1
    if seen[key] <= cap:
        ctx.fail(key, case, what)
    else:
        ctx.count('oracle-fail:' + key)


def ack_key(kinds):
    """names the input class of a 2xx answer given although a write/result failed"""
    bad_att = [k for k in kinds if k in ('qerr250', 'qerr354', 'qerrnocode', 'rel250')]
    if kinds and kinds[0] == 'id' and any(k != 'id' for k in kinds):
        return 'c02:2xx-although-a-later-envelope-failed'
    if bad_att and kinds[0] in bad_att:
        return 'c02:2xx-from-reply-attached-to-error'
    return 'c02:2xx-without-custody-of-every-envelope'


def cls(answer):
    """reply class of an SMTP code string or an HTTP status"""
    if answer is None or answer == 'dropped':
        return None
    return int(answer[0]) if isinstance(answer, str) else answer // 100


# ---------------------------------------------------------------- queue stream
def queue_cases(ctx):
    """(chain, behs) with behs = ((kind, slow), ...)"""
    cases = []
    seen = set()

    def add(chain, kinds, slows, relay=True, cfg='default'):
        c = (chain, tuple(zip(kinds, slows)), relay, cfg)
        if c not in seen:
            seen.add(c)
            cases.append(c)

    maxlen = 4
    for L in range(1, maxlen + 1):
        for kinds in itertools.product(CORE, repeat=L):
            add('split', kinds, (False,) * L)
            for p in range(L):                              # one slow write, every position
                add('split', kinds, tuple(i == p for i in range(L)))
    # all kinds (attached replies of every class), every subset of slow writes
    allk = CORE + EXTRA
    for L in range(1, (2 if ctx.quick else 3) + 1):
        for kinds in itertools.product(allk, repeat=L):
            for slows in itertools.product((False, True), repeat=L):
                add('split', kinds, slows)
    if not ctx.quick:
        for kinds in itertools.product(allk, repeat=4):
            add('split', kinds, (False,) * 4)
            add('split', kinds, (True,) * 4)
    # other policy chains
    for chain in ('date+split', 'domain', 'domain+split'):
        for L in range(1, (3 if ctx.quick else 4) + 1):
            for kinds in itertools.product(['id', 'qerr', 'exc'] if ctx.quick else CORE, repeat=L):
                add(chain, kinds, (False,) * L)
                add(chain, kinds, tuple(i == L - 1 for i in range(L)))
    for kind in allk:
        add('none', (kind,), (False,))
        add('none', (kind,), (True,))
    # a Queue without relay (no attempts are spawned)
    for L in (1, 2):
        for kinds in itertools.product(CORE, repeat=L):
            add('split', kinds, (False,) * L, relay=False)
    # every exception family a write can end with, at every position, alone and next to a QueueError,
    # immediately or after having blocked; with and without a store pool
    for fam in FAMILIES:
        for L in (1, 2, 3):
            for kinds in itertools.product(('id', 'qerr', fam), repeat=L):
                if fam not in kinds:
                    continue
                add('split', kinds, (False,) * L)
                add('split', kinds, tuple(k == fam for k in kinds))
                if L <= 2:
                    for cfg in ('store_pool=2', 'store_pool=Pool(10)'):
                        add('split', kinds, (False,) * L, cfg=cfg)
        add('none', (fam,), (False,))
        add('domain', ('id', fam), (False, False))
    # COUNT: many envelopes from one message (n recipients under RecipientSplit, n domains with two
    # recipients each under RecipientDomainSplit); all writes ok / the last one fails / a middle one fails
    for n in COUNTS:
        for chain in ('split', 'domain'):
            for bad in (None, n - 1, n // 2):
                for failkind in (('qerr',) if ctx.quick else ('qerr', 'qerr550', 'exc')):
                    kinds = tuple(failkind if i == bad else 'id' for i in range(n))
                    add(chain, kinds, (False,) * n)
            if not ctx.quick:
                add(chain, ('id',) * n, tuple(i == n - 1 for i in range(n)))
    # CONFIGURATION: the pools of the real Queue x the write-fault matrix
    for cfg in QUEUE_CONFIGS:
        if cfg == 'default':
            continue
        for L in (1, 2, 3):
            for kinds in itertools.product(CORE, repeat=L):
                add('split', kinds, (False,) * L, cfg=cfg)
                add('split', kinds, tuple(i == L - 1 for i in range(L)), cfg=cfg)
                if L <= 2 or not ctx.quick:
                    for p in range(L - 1):
                        add('split', kinds, tuple(i == p for i in range(L)), cfg=cfg)
        for kinds in (('id',) * 33, ('id',) * 32 + ('qerr',), ('id', 'qerr') + ('id',) * 38):
            add('split', kinds, (False,) * len(kinds), cfg=cfg)
    return cases


COUNTS = (1, 2, 3, 31, 32, 33, 40, 63, 64, 65, 100)

# constructor arguments of the real Queue that touch enqueue(): store_pool (int or Pool), relay_pool,
# bounce_queue.  (A bounded relay pool smaller than the number of attempts that never finish would
# block enqueue() itself - that is C12's bounded-pool finding, not judged here - so the relay pool
# is large enough for the never-delivering relay stub.)
QUEUE_CONFIGS = {
    'default': {},
    'store_pool=1': dict(store_pool=1),
    'store_pool=2': dict(store_pool=2),
    'store_pool=Pool(10)': dict(store_pool='Pool10'),
    'relay_pool=Pool(200)': dict(relay_pool='Pool200'),
    'store_pool=2,relay_pool=Pool(200)': dict(store_pool=2, relay_pool='Pool200'),
    'store_pool=Pool(10),bounce_queue': dict(store_pool='Pool10', bounce_queue=True),
}


def queue_kwargs(cfg):
    from gevent.pool import Pool
    kw = {}
    for k, v in QUEUE_CONFIGS[cfg].items():
        if k == 'bounce_queue':
            kw[k] = Queue(StoreStub([], []), None)
        else:
            kw[k] = Pool(int(v[4:])) if isinstance(v, str) else v
    return kw


def model_input(behs, hang_at=None, relay=True):
    out = []
    for i, (kind, slow) in enumerate(behs):
        if hang_at is not None and i == hang_at:
            out.append([1])
            break
        out.append([0, 1 if slow else 0, enc_wout(kind)])
    return [1 if relay else 0, out]


def canon_trace(t, drop=(4,)):
    """model trace -> list of tuples comparable with the harness log"""
    out = []
    for e in t:
        if e[0] in drop:
            continue
        if e[0] == 8:
            out.append((8, B(e[1]).decode()))
        else:
            out.append(tuple(e))
    return out


def run_queue_case(edge_kind, chain, behs, with_relay=True, cfg='default'):
    n = len(behs)
    rcpts = recipients_for(chain, n)
    log = []
    store = StoreStub(list(behs), log)
    relay = NeverRelay()
    queue = Queue(store, relay if with_relay else None, **queue_kwargs(cfg))
    add_policies(queue, chain)
    r = Run(edge_kind, queue, rcpts, lambda: store.blocked, log, store.stored_rcpts)
    try:
        r.go()
        for _ in range(5):            # let spawned attempts reach the relay stub
            gevent.sleep(0)
    finally:
        gevent.killall(relay.greenlets, block=True, timeout=1)
    # envelopes attempted, as indexes of the write that stored them
    att = []
    for rc in relay.attempted:
        if rc not in store.write_rcpts:
            raise HarnessError('attempt for an envelope that was never written: %r' % rc)
        att.append(store.write_rcpts.index(rc))
    return dict(answer=r.answer, log=list(log), at_reply=r.at_reply, attempted=sorted(att), prefixes=r.prefixes,
                early=r.early, rcpts=rcpts, writes=store.calls, stored_final=store.stored_rcpts(),
                write_rcpts=store.write_rcpts)


def judge_queue(ctx, case, behs, out):
    """the property, stated on what the real code did"""
    failed = [i for i, (k, s) in enumerate(behs) if k != 'id']
    c = cls(out['answer'])
    if out['early']:
        fail(ctx, 'c02:reply-before-write-completed', case,
                 'answer %r was on the wire while a storage write was still blocked' % (out['early'],))
    if out['answer'] is None:
        fail(ctx, 'c02:no-answer', case, 'the edge never answered although every write completed')
        return
    if out['answer'] == 'dropped':
        # never an acknowledgement; tolerated only when a write ended in a BaseException-only class
        if not any(k in BASE_ONLY for k, _ in behs):
            fail(ctx, 'c02:no-answer', case, 'the client was dropped without a 4xx/5xx answer; failed writes %r' % (failed,))
        return
    if c == 2:
        missing = [r for r in out['rcpts'] if r not in out['at_reply']]
        if failed or missing or out['writes'] != len(behs):
            fail(ctx, ack_key([k for k, _ in behs]), case,
                     'answer %r but at that instant storage held %r of recipients %r (failed writes: %r)' % (
                         out['answer'], out['at_reply'], out['rcpts'], failed))
    elif c not in (4, 5):
        fail(ctx, 'c02:answer-class', case, 'answer %r is neither 2xx nor 4xx/5xx' % (out['answer'],))
    # (a failed write with an answer outside 4xx/5xx is one of the two failures above)
    # attempts only for stored envelopes
    for k in out['attempted']:
        if behs[k][0] != 'id':
            fail(ctx, 'c02:attempt-for-unstored-envelope', case, 'attempt spawned for write %d which failed' % k)


def run_queue_stream(ctx):
    cases = queue_cases(ctx)
    inputs = []
    index = []
    for ci, (chain, behs, with_relay, cfg) in enumerate(cases):
        index.append(len(inputs))
        inputs.append(model_input(behs, relay=with_relay))
        for i, (k, s) in enumerate(behs):
            if s:
                inputs.append(model_input(behs, hang_at=i, relay=with_relay))
    outs = ctx.model.batch('c02_queue', inputs)
    default_answers = {}
    for ci, (chain, behs, with_relay, cfg) in enumerate(cases):
        m = outs[index[ci]]
        hangs = [outs[index[ci] + 1 + j] for j in range(sum(1 for b in behs if b[1]))]
        for ei, edge_kind in enumerate(('smtp', 'wsgi')):
            out = run_queue_case(edge_kind, chain, behs, with_relay, cfg)
            nontrivial = len(behs) > 1 or behs[0][0] != 'id' or behs[0][1]
            ctx.evaluated(('queue', edge_kind, chain, behs, with_relay, cfg), nontrivial=nontrivial)
            if len(behs) > 4:
                ctx.count('queue:envelopes:%d' % len(behs))
            if cfg != 'default':
                ctx.count('queue:config:' + cfg)
            ctx.count('queue:%s:len%s' % (edge_kind, len(behs) if len(behs) <= 4 else '>4'))
            ctx.count('queue:chain:' + chain)
            ctx.count('queue:answer:%s' % (out['answer'],))
            for k, s in behs:
                ctx.count('write:' + k + (':slow' if s else ''))
            case = dict(stream='queue', edge=edge_kind, chain=chain, writes=[list(b) for b in behs], relay=with_relay)
            if cfg != 'default':
                case['config'] = cfg
            judge_queue(ctx, case, behs, out)
            # the answer must not depend on the pool configuration (implementation against itself)
            dkey = (edge_kind, chain, behs, with_relay)
            if cfg == 'default':
                default_answers[dkey] = (out['answer'], out['at_reply'])
            elif dkey in default_answers and default_answers[dkey] != (out['answer'], out['at_reply']):
                fail(ctx, 'c02:answer-depends-on-pool-configuration', case,
                     'with %s: answer %r, stored at that instant %r; with the default configuration: %r' % (
                         cfg, out['answer'], out['at_reply'], default_answers[dkey]))
            # ---- correspondence
            m_trace = canon_trace(m[ei][0])
            m_ans = m[ei][1]
            m_ans = None if m_ans == () else 'dropped' if m_ans == ((),) else (
                B(m_ans[0]).decode() if edge_kind == 'smtp' else m_ans[0])
            m_att = sorted(m[2])
            m_stored = sorted(r for e in m_trace if e[0] == 2 for r in out['write_rcpts'][e[1]]) if all(
                e[1] < len(out['write_rcpts']) for e in m_trace if e[0] == 2) else None
            impl = dict(trace=out['log'], answer=out['answer'], attempted=out['attempted'], stored_at_reply=out['at_reply'])
            model = dict(trace=m_trace, answer=m_ans, attempted=m_att, stored_at_reply=m_stored)
            if impl != model:
                ctx.mismatch('queue-' + edge_kind, case, impl, model)
            # the blocked instants against the model's Hang runs
            if len(out['prefixes']) != len(hangs):
                ctx.mismatch('queue-blocked-count', case, len(out['prefixes']), len(hangs))
            else:
                for pre, h in zip(out['prefixes'], hangs):
                    if pre != canon_trace(h[ei][0]) or h[ei][1] != ():
                        ctx.mismatch('queue-blocked-prefix', case, pre, canon_trace(h[ei][0]))
            ctx.sample(dict(case=case, answer=out['answer'], trace=out['log'], stored_at_reply=out['at_reply'],
                            attempted=out['attempted']), cap=4)
    return len(cases)


# ---------------------------------------------------------------- results stream
RES_KINDS = ['id', 'qerr', 'qerrnocode', 'qerr450', 'qerr550', 'qerr250', 'qerr354', 'rel450', 'rel550', 'rel250']


def mk_result(kind):
    if kind == 'id':
        return 'abcdef0123456789'
    if kind.startswith('rel'):
        return TransientRelayError('stub', Reply(kind[3:], 'relay said so')) if kind[3] != '5' else \
            PermanentRelayError('stub', Reply(kind[3:], 'relay said so'))
    e = QueueError('stub')
    att = KINDS[kind][1]
    if att is not None:
        e.reply = mk_reply(att)
    return e


def enc_result(kind):
    if kind == 'id':
        return [0, 7]
    if kind.startswith('rel'):
        return [2, enc_reply(kind[3:])]
    return [1, enc_att(KINDS[kind][1])]


class ListQueue(object):
    def __init__(self, kinds):
        self.kinds = kinds

    def enqueue(self, envelope):
        return [(envelope, mk_result(k)) for k in self.kinds]


def impl_results(kinds):
    """(smtp code or ('exc', name), http status or ('exc', name)) by calling the handlers directly"""
    q = ListQueue(kinds)
    edge = SmtpEdge(None, q, hostname='edge.test')
    sess = SmtpSession(('192.0.2.7', 4242), None, edge.handoff)
    sess.envelope = Envelope(SENDER, ['rcpt0@example.com'])
    sess.ehlo_as = 'client.test'
    reply = Reply('250', '2.6.0 Message accepted for delivery')
    try:
        sess.HAVE_DATA(reply, MSG, None)
        s = reply.code
    except Exception as e:
        s = ('exc', type(e).__name__)
    wedge = WsgiEdge(q, hostname='edge.test')
    env = Envelope(SENDER, ['rcpt0@example.com'])
    env.parse(MSG)
    try:
        wedge._enqueue_envelope(env)
        w = ('exc', 'no response raised')
    except WsgiResponse as res:
        w = int(res.status[:3])
    except Exception as e:
        w = ('exc', type(e).__name__)
    return s, w


def run_results_stream(ctx):
    lists = [()]
    for L in range(1, (3 if ctx.quick else 4) + 1):
        lists.extend(itertools.product(RES_KINDS, repeat=L))
    outs = ctx.model.batch('c02_results', [[enc_result(k) for k in ks] for ks in lists])
    for ks, m in zip(lists, outs):
        s, w = impl_results(ks)
        ctx.evaluated(('results', ks), nontrivial=len(ks) != 1)
        ctx.count('results:len%d' % len(ks))
        case = dict(stream='results', results=list(ks))
        model = (B(m[0]).decode(), m[1])
        if (s, w) != model:
            ctx.mismatch('results', case, (s, w), model)
        failed = [k for k in ks if k != 'id']
        for name, a in (('smtp', s), ('wsgi', w)):
            c = 4 if isinstance(a, tuple) else cls(a)       # an escaping exception becomes 421 / 500
            if c == 2 and (failed or not ks):
                fail(ctx, ack_key(list(ks)), dict(case, edge=name),
                         'answer %r for results %r' % (a, list(ks)))
            elif c not in (2, 4, 5):
                fail(ctx, 'c02:answer-class', dict(case, edge=name), 'answer %r' % (a,))
    # _build_http_response on every code of the classes the code distinguishes
    codes = ['%03d' % c for c in range(100, 600)]
    hs = ctx.model.batch('c02_http', [c.encode() for c in codes])
    for c, h in zip(codes, hs):
        got = int(edge_wsgi_mod._build_http_response(Reply(c, 'x')).status[:3])
        ctx.evaluations += 1
        if got != h:
            ctx.mismatch('http-status', dict(code=c), got, h)
    return len(lists)


# ---------------------------------------------------------------- proxy stream
PER_RCPT = ['none', 'reply', 'perm', 'temp', 'junk']


def mk_rres(kind):
    return {'none': None, 'reply': Reply('250', 'ok'), 'junk': 'queued as 123',
            'perm': PermanentRelayError('stub', Reply('550', 'no such user')),
            'temp': TransientRelayError('stub', Reply('450', 'try later'))}[kind]


def enc_rres(kind):
    return {'none': [0], 'reply': [0], 'junk': [2], 'perm': [1, [b'550']], 'temp': [1, [b'450']]}[kind]


class ShapeRelay(Relay):
    def __init__(self, shape, slow, log):
        super(ShapeRelay, self).__init__()
        self.shape = shape
        self.slow = slow
        self.log = log
        self.blocked = None
        self.returned = False

    def attempt(self, envelope, attempts):
        self.log.append((5,))
        if self.slow:
            ev = Event()
            self.blocked = ('relay', ev)
            ev.wait()
            self.blocked = None
        kind = self.shape[0]
        if kind in ('raise-perm', 'raise-temp', 'raise-other', 'raise-bad'):
            self.log.append((7,))
            if kind == 'raise-perm':
                raise PermanentRelayError('stub', Reply('550', 'rejected'))
            if kind == 'raise-temp':
                raise TransientRelayError('stub', Reply('450', 'deferred'))
            if kind == 'raise-bad':
                raise TransientRelayError('stub', Reply('250', 'a success reply inside an error'))
            raise Boom('relay blew up')
        self.log.append((6,))
        self.returned = True
        if kind == 'whole-none':
            return None
        if kind == 'whole-reply':
            return Reply('250', 'queued')
        if kind == 'whole-object':
            return 12345
        if kind == 'map':
            return dict((r, mk_rres(k)) for r, k in zip(envelope.recipients, self.shape[1]))
        if kind == 'seq':
            return [mk_rres(k) for k in self.shape[1]]
        if kind == 'tuple':
            return tuple(mk_rres(k) for k in self.shape[1])
        raise ValueError(kind)


def enc_shape(shape):
    kind = shape[0]
    if kind.startswith('whole'):
        return [0]
    if kind == 'map':
        return [1, [[i, enc_rres(k)] for i, k in enumerate(shape[1])]]
    if kind in ('seq', 'tuple'):
        return [2, [enc_rres(k) for k in shape[1]]]
    return {'raise-perm': [3, [b'550']], 'raise-temp': [3, [b'450']], 'raise-bad': [3, [b'250']], 'raise-other': [4]}[kind]


def proxy_shapes():
    shapes = [('whole-none',), ('whole-reply',), ('whole-object',), ('raise-perm',), ('raise-temp',), ('raise-bad',), ('raise-other',)]
    for n in (1, 2, 3):
        for ks in itertools.product(PER_RCPT, repeat=n):
            shapes.append(('map', ks))
            shapes.append(('seq', ks))
            if n == 2:
                shapes.append(('tuple', ks))
    return shapes


def run_proxy_stream(ctx):
    shapes = proxy_shapes()
    outs = ctx.model.batch('c02_proxy', [enc_shape(s) for s in shapes])
    hang = ctx.model.call('c02_proxy', [5])
    for shape, m in zip(shapes, outs):
        nrcpt = len(shape[1]) if len(shape) > 1 else 2
        rcpts = ['rcpt%d@example.com' % i for i in range(nrcpt)]
        for ei, edge_kind in enumerate(('smtp', 'wsgi')):
            for slow in (False, True):
                log = []
                relay = ShapeRelay(shape, slow, log)
                r = Run(edge_kind, ProxyQueue(relay), rcpts, lambda: relay.blocked, log, lambda: relay.returned).go()
                case = dict(stream='proxy', edge=edge_kind, shape=[shape[0]] + ([list(shape[1])] if len(shape) > 1 else []), slow=slow)
                ctx.evaluated(('proxy', edge_kind, shape, slow), nontrivial=True)
                ctx.count('proxy:' + shape[0])
                ctx.count('proxy:answer:%s' % (r.answer,))
                # ---- oracle
                c = cls(r.answer)
                rcpt_failed = len(shape) > 1 and any(k in ('perm', 'temp') for k in shape[1])
                failed = rcpt_failed or shape[0].startswith('raise')
                if r.early:
                    fail(ctx, 'c02:reply-before-relay-completed', case, 'answer %r while the relay attempt was still running' % (r.early,))
                if r.answer is None:
                    fail(ctx, 'c02:no-answer', case, 'no answer')
                elif c == 2 and rcpt_failed:
                    fail(ctx, 'c02:proxy-2xx-with-failed-recipient', case,
                             'answer %r although the relay reported a failure for a recipient (%r)' % (r.answer, shape[1]))
                elif c == 2 and (failed or not r.at_reply):
                    fail(ctx, 'c02:proxy-2xx-without-relay-success', case, 'answer %r, relay outcome %r' % (r.answer, shape[0]))
                elif c not in (2, 4, 5):
                    fail(ctx, 'c02:answer-class', case, 'answer %r' % (r.answer,))
                # ---- correspondence (the model has no tick for a slow relay that completes)
                m_trace = canon_trace(m[ei][0])
                m_ans = m[ei][1]
                m_ans = None if m_ans == () else (B(m_ans[0]).decode() if edge_kind == 'smtp' else m_ans[0])
                impl = dict(trace=[e for e in log if e != (1,)], answer=r.answer)
                if impl != dict(trace=m_trace, answer=m_ans):
                    ctx.mismatch('proxy-' + edge_kind, case, impl, dict(trace=m_trace, answer=m_ans))
                if slow and (len(r.prefixes) != 1 or r.prefixes[0] != canon_trace(hang[ei][0])):
                    ctx.mismatch('proxy-blocked-prefix', case, r.prefixes, canon_trace(hang[ei][0]))
                ctx.sample(dict(case=case, answer=r.answer, trace=log), cap=6)
    return len(shapes)


# ---------------------------------------------------------------- concurrent stream
# Several clients (different senders/recipients) deliver at the same time through real
# edges into ONE real Queue whose policy chain contains a policy that yields inside
# apply().  The harness decides the interleaving: which client sends its message next and
# which blocked policy / storage write is released next.
from slimta.queue.dict import DictStorage
from slimta.policy import QueuePolicy
from slimta.policy.headers import AddMessageIdHeader


def c_sender(c):
    return 'client%d@senders.example' % c


def c_rcpts(c):
    return ['c%da@dom%da.example' % (c, c), 'c%db@dom%db.example' % (c, c)]


def c_msg(c):
    return ('From: %s\r\nSubject: c02 client %d\r\n\r\nbody of client %d\r\n' % (c_sender(c), c, c)).encode()


def owner_of(envelope):
    m = re.match(r'client(\d+)@senders\.example$', envelope.sender or '')
    return int(m.group(1)) if m else 99


class World(object):
    def __init__(self):
        self.log = []            # (client, event)
        self.activity = 0
        self.gates = []          # blocked gates, in the order they were reached
        self.seen = {}

    def act(self):
        self.activity += 1

    def block(self, kind, envelope):
        base = (kind, owner_of(envelope), '|'.join(envelope.recipients))
        n = self.seen.get(base, 0)
        self.seen[base] = n + 1
        gate = dict(label=('G',) + base + (n,), ev=Event())
        self.gates.append(gate)
        self.act()
        gate['ev'].wait()
        self.act()

    def release(self, label):
        for g in self.gates:
            if g['label'] == label:
                self.gates.remove(g)
                g['ev'].set()
                self.act()
                return True
        return False

    def settle(self):
        idle, last = 0, self.activity
        for _ in range(50000):
            gevent.sleep(0)
            if self.activity == last:
                idle += 1
                if idle >= 8:
                    return
            else:
                idle, last = 0, self.activity
        raise HarnessError('concurrent run does not settle')


class YieldPolicy(QueuePolicy):
    """a policy that has to wait for something (a scan, a lookup): it lets other
    greenlets run inside apply() - once (gevent.sleep(0)) or until the harness releases it"""

    def __init__(self, world, mode):
        self.world = world
        self.mode = mode

    def apply(self, envelope):
        self.world.log.append((owner_of(envelope), (1,)))
        self.world.act()
        if self.mode == 'sleep':
            gevent.sleep(0)
            self.world.act()
        else:
            self.world.block('Y', envelope)


class TracedDictStorage(DictStorage):
    """the real DictStorage; write() is logged and, if `gated`, blocks until released"""

    def __init__(self, world, gated):
        super(TracedDictStorage, self).__init__()
        self.world = world
        self.gated = gated
        self.nwrites = {}

    def write(self, envelope, timestamp):
        o = owner_of(envelope)
        k = self.nwrites.get(o, 0)
        self.nwrites[o] = k + 1
        self.world.log.append((o, (0, k)))
        self.world.act()
        if self.gated:
            self.world.log.append((o, (1,)))
            self.world.block('W', envelope)
        id = super(TracedDictStorage, self).write(envelope, timestamp)
        self.world.log.append((o, (2, k)))
        self.world.act()
        return id

    def snapshot(self):
        return sorted((e.sender, e.headers['Subject'], tuple(e.recipients)) for e in self.env_db.values())


CHAINS = [   # (chain, yields before the writes per message, envelopes per message)
    (('Y',), 1, 1), (('Y', 'D'), 1, 1), (('D', 'Y', 'M'), 1, 1), (('D', 'Y'), 1, 1),
    (('S', 'Y'), 2, 2), (('DS', 'Y'), 2, 2), (('S', 'Y', 'D'), 2, 2),
    (('Y', 'S'), 1, 2), (('Y', 'DS'), 1, 2), (('D', 'Y', 'S'), 1, 2), (('Y', 'D', 'S'), 1, 2),
]


def build_chain(queue, world, chain, ymode):
    for p in chain:
        queue.add_policy({'Y': lambda: YieldPolicy(world, ymode), 'D': AddDateHeader,
                          'M': lambda: AddMessageIdHeader('edge.test'), 'S': RecipientSplit,
                          'DS': RecipientDomainSplit}[p]())


class Client(object):
    def __init__(self, world, idx, edge_kind, queue, store):
        self.world = world
        self.idx = idx
        self.edge_kind = edge_kind
        self.queue = queue
        self.store = store
        self.rcpts = c_rcpts(idx)
        self.answer = None
        self.at_reply = None
        self.fed = False
        self.g = None

    def _answered(self, value):
        if self.answer is None:
            self.answer = value
            self.at_reply = self.store.snapshot()
            self.world.log.append((self.idx, (8, value) if self.edge_kind == 'smtp' else (9, value)))
        self.world.act()

    def prepare(self):
        if self.edge_kind != 'smtp':
            return
        self.body_sent = False

        def on_send(data):
            self.world.act()
            if self.body_sent:
                m = REPLY_LINE.search(data)
                if m:
                    self._answered(m.group(1).decode())

        self.sock = sock = DuplexSock(on_send)
        edge = SmtpEdge(None, self.queue, hostname='edge.test')
        self.g = g = gevent.spawn(edge.handle, sock, ('192.0.2.%d' % (10 + self.idx), 4242))

        def nreplies():
            return len(REPLY_LINE.findall(sock.sent))

        settle(lambda: nreplies() >= 1 or g.dead, 'banner')
        n = 1
        for cmd in [b'EHLO client%d.test\r\n' % self.idx, b'MAIL FROM:<%s>\r\n' % c_sender(self.idx).encode()] + \
                [b'RCPT TO:<%s>\r\n' % r.encode() for r in self.rcpts] + [b'DATA\r\n']:
            n += 1
            sock.feed(cmd)
            settle(lambda: nreplies() >= n or g.dead, 'no reply to %r' % cmd)
        if REPLY_LINE.findall(sock.sent)[-1] != b'354':
            raise HarnessError('DATA not accepted: %r' % sock.sent)

    def feed(self):
        self.fed = True
        self.world.act()
        if self.edge_kind == 'smtp':
            self.body_sent = True
            self.sock.feed(c_msg(self.idx) + b'.\r\n')
            return

        def b64(s):
            return base64.b64encode(s.encode()).decode()

        msg = c_msg(self.idx)
        environ = {
            'REQUEST_METHOD': 'POST', 'PATH_INFO': '/', 'CONTENT_TYPE': 'message/rfc822',
            'CONTENT_LENGTH': str(len(msg)), 'wsgi.input': io.BytesIO(msg), 'wsgi.url_scheme': 'http',
            'REMOTE_ADDR': '192.0.2.%d' % (10 + self.idx), 'HTTP_X_EHLO': 'client%d.test' % self.idx,
            'HTTP_X_ENVELOPE_SENDER': b64(c_sender(self.idx)),
            'HTTP_X_ENVELOPE_RECIPIENT': ', '.join(b64(r) for r in self.rcpts),
        }
        edge = WsgiEdge(self.queue, hostname='edge.test')
        self.g = gevent.spawn(edge, environ, lambda status, headers: self._answered(int(status[:3])))

    def finish(self):
        if self.edge_kind == 'smtp' and self.g is not None and not self.g.dead:
            self.sock.feed(b'QUIT\r\n')
            settle(lambda: self.g.dead or self.sock.waiting, 'quit')
            if not self.g.dead:
                self.sock.feed(b'')
        if self.g is not None:
            self.g.join(timeout=1)


def run_concurrent(cfg, schedule=None, rng=None, max_steps=200):
    """cfg = dict(edges, chain, ymode, storage).  With `schedule`: perform exactly these
    actions (then finish in creation order); with `rng`: choose every next action at random.
    Returns dict(schedule, log, clients)."""
    world = World()
    store = TracedDictStorage(world, cfg['storage'] == 'gated')
    queue = Queue(store, None)
    build_chain(queue, world, tuple(cfg['chain']), cfg['ymode'])
    clients = [Client(world, i, ek, queue, store) for i, ek in enumerate(cfg['edges'])]
    for c in clients:
        c.prepare()
    done_sched = []

    def options():
        return [('F', c.idx) for c in clients if not c.fed] + [g['label'] for g in world.gates]

    def perform(act):
        act = tuple(act)
        if act[0] == 'F*':
            for i in act[1]:
                clients[i].feed()
        elif act[0] == 'F':
            if clients[act[1]].fed:
                return False
            clients[act[1]].feed()
        elif not world.release(act):
            return False
        done_sched.append(act)
        world.settle()
        return True

    pending = list(schedule or [])
    for _ in range(max_steps):
        opts = options()
        if pending:
            act = pending.pop(0)
            perform(act)
            continue
        if not opts:
            break
        perform(rng.choice(opts) if rng is not None else opts[0])
    else:
        raise HarnessError('concurrent run did not finish')
    for c in clients:
        c.finish()
    return dict(schedule=[list(a) for a in done_sched], log=list(world.log), clients=clients,
                final=store.snapshot())


def judge_concurrent(ctx, case, out):
    for c in out['clients']:
        ccase = dict(case, client=c.idx, schedule=out['schedule'])
        if c.answer is None:
            fail(ctx, 'c02:no-answer-concurrent', ccase, 'client %d never got an answer' % c.idx)
            continue
        k = cls(c.answer)
        if k == 2:
            own = [r for (snd, subj, rc) in c.at_reply if snd == c_sender(c.idx) and subj == 'c02 client %d' % c.idx
                   for r in rc]
            missing = [r for r in c.rcpts if r not in own]
            if missing:
                fail(ctx, 'c02:2xx-but-own-recipients-not-stored-concurrent', ccase,
                     'client %d (%s) read %r while storage held %r: its recipients %r are not stored' % (
                         c.idx, c.edge_kind, c.answer, c.at_reply, missing))
        elif k not in (4, 5):
            fail(ctx, 'c02:answer-class', ccase, 'answer %r' % (c.answer,))
    for snd, subj, rc in out['final']:
        m = re.match(r'client(\d+)@', snd or '')
        o = int(m.group(1)) if m else None
        if o is None or subj != 'c02 client %d' % o or any(r not in c_rcpts(o) for r in rc):
            fail(ctx, 'c02:stored-envelope-mixes-clients', dict(case, schedule=out['schedule']),
                 'stored envelope sender=%r subject=%r recipients=%r' % (snd, subj, rc))


def concurrent_configs(ctx):
    """(cfg, mode) with mode = 'all' (every interleaving) or a number of random schedules"""
    cfgs = []
    two = [('smtp', 'smtp'), ('wsgi', 'wsgi'), ('smtp', 'wsgi')]
    three = [('smtp', 'smtp', 'smtp'), ('wsgi', 'smtp', 'wsgi')]
    for chain, py, nenv in CHAINS:
        for edges in two:
            cfgs.append((dict(edges=edges, chain=chain, ymode='gate', storage='dict'), 'all'))
            cfgs.append((dict(edges=edges, chain=chain, ymode='gate', storage='gated'), 12 if ctx.quick else 120))
            cfgs.append((dict(edges=edges, chain=chain, ymode='sleep', storage='dict'), 'all'))
            cfgs.append((dict(edges=edges, chain=chain, ymode='sleep', storage='gated'), 6 if ctx.quick else 60))
        for edges in three:
            short = chain in (('Y',), ('S', 'Y'), ('Y', 'S'), ('D', 'Y', 'M'))
            if ctx.quick and not short:
                continue
            cfgs.append((dict(edges=edges, chain=chain, ymode='gate', storage='dict'),
                         ('all' if py == 1 and not ctx.quick else (20 if ctx.quick else 150))))
            cfgs.append((dict(edges=edges, chain=chain, ymode='sleep', storage='dict'), 'all'))
            cfgs.append((dict(edges=edges, chain=chain, ymode='gate', storage='gated'), 8 if ctx.quick else 80))
    return cfgs


def expected_msgs(cfg):
    chain = tuple(cfg['chain'])
    py, nenv = [(p, n) for ch, p, n in CHAINS if ch == chain][0]
    d = 1 if cfg['storage'] == 'gated' else 0
    return [[0 if ek == 'smtp' else 1, py, [[0, d, [0]]] * nenv] for ek in cfg['edges']]


def all_schedules(cfg):
    """every interleaving of the harness actions, by depth-first re-execution"""
    n = len(cfg['edges'])
    if cfg['ymode'] == 'sleep':
        # the policy yields on its own: what matters is who is fed while the others are inside apply()
        starts = [[('F*', order)] for order in itertools.permutations(range(n))] + [[]]
    else:
        starts = [[]]
    outs = []
    for start in starts:
        stack = [list(start)]
        while stack:
            path = stack.pop()
            probe = run_concurrent_probe(cfg, path)
            if probe['options']:
                for o in reversed(probe['options']):
                    stack.append(path + [o])
            else:
                outs.append(probe['out'])
    return outs


def run_concurrent_probe(cfg, path):
    """runs exactly `path`; returns the actions possible afterwards, or the finished run"""
    world_opts = {}

    # run_concurrent with a schedule finishes the run in creation order after the schedule; to
    # learn the options after `path` we run it with a chooser that records them first
    class Chooser(object):
        def choice(self, opts):
            if 'options' not in world_opts:
                world_opts['options'] = list(opts)
            return opts[0]

    out = run_concurrent(cfg, schedule=path, rng=Chooser())
    return dict(options=world_opts.get('options', []), out=out if 'options' not in world_opts else None)


def run_concurrent_stream(ctx):
    runs = []
    nall = 0
    for cfg, mode in concurrent_configs(ctx):
        if mode == 'all':
            outs = all_schedules(cfg)
            nall += 1
        else:
            outs = [run_concurrent(cfg, rng=ctx.rng) for _ in range(mode)]
        for out in outs:
            runs.append((cfg, out))
    # the model: one interleaved run of the per-message models, scheduled as observed
    inputs = [[0, expected_msgs(cfg), [o for o, e in out['log']]] for cfg, out in runs]
    mouts = ctx.model.batch('c02_sched', inputs)
    for (cfg, out), mo in zip(runs, mouts):
        case = dict(stream='concurrent', edges=list(cfg['edges']), chain=list(cfg['chain']), ymode=cfg['ymode'],
                    storage=cfg['storage'])
        ctx.evaluated(('conc', tuple(cfg['edges']), tuple(cfg['chain']), cfg['ymode'], cfg['storage'],
                       repr(out['schedule'])), nontrivial=True)
        ctx.count('concurrent:clients%d' % len(cfg['edges']))
        ctx.count('concurrent:%s:%s' % (cfg['ymode'], cfg['storage']))
        owners = [o for i, (o, e) in enumerate(out['log']) if i == 0 or out['log'][i - 1][0] != o]
        overlapped = len(owners) > len(set(owners))        # some client's events are not contiguous
        ctx.count('concurrent:interleaved' if overlapped else 'concurrent:sequential')
        judge_concurrent(ctx, case, out)
        model_log = [(e[0], canon_trace([e[1]])[0]) for e in mo]
        if model_log != out['log']:
            # say which client's events are not its own sequential run
            bad = [c.idx for c in out['clients']
                   if [e for o, e in out['log'] if o == c.idx] != [e for o, e in model_log if o == c.idx]]
            ctx.mismatch('concurrent-per-client', dict(case, schedule=out['schedule'], clients_off=bad), out['log'], model_log)
        ctx.sample(dict(case=dict(case, schedule=out['schedule']), log=out['log'],
                        answers=[c.answer for c in out['clients']]), cap=8)
    return len(runs), nall



# ---------------------------------------------------------------- session stream
# Whole SMTP sessions with a validator class that decides every command: refused MAIL / RCPT /
# DATA / message data, transactions continued after a refusal, RSET, EHLO, several transactions.
# Oracle: what the client was told (250 to RCPT since its transaction began) against what is in
# storage when it reads 2xx for the message.
from slimta.edge.smtp import SmtpValidators

SESSION_CHAINS = ['none', 'split', 'domain', 'date+split', 'domain+split']


def s_addr(i):
    return 'r%d@dom%d.example' % (i, i % 2)


def make_validators(cur):
    def verdict(reply, key, default):
        code = cur.get(key)
        if code and code != default:
            reply.code = code
            reply.message = '%s.7.1 scripted verdict' % code[0]

    class ScriptedValidators(SmtpValidators):
        def handle_ehlo(self, reply, ehlo_as):
            verdict(reply, 'ehlo', '250')

        def handle_mail(self, reply, sender, params):
            verdict(reply, 'mail', '250')

        def handle_rcpt(self, reply, rcpt, params):
            verdict(reply, 'rcpt', '250')

        def handle_data(self, reply):
            verdict(reply, 'data', '354')

        def handle_have_data(self, reply, data):
            verdict(reply, 'have_data', '250')

    return ScriptedValidators


def run_session(chain, script):
    """script: [('EHLO', code) | ('RSET',) | ('NOOP',) | ('MAIL', code) | ('RCPT', i, code) |
    ('DATA', code, have_data_code)].  Returns per command (reply codes, recipients handed to the
    queue or None, recipients stored at the instant of the final reply or None)."""
    cur = {}
    store = DictStorage()
    handed = []

    class RecordingQueue(Queue):
        def enqueue(self, envelope):
            handed.append(list(envelope.recipients))
            return super(RecordingQueue, self).enqueue(envelope)

    queue = RecordingQueue(store, None)
    add_policies(queue, chain)
    state = {'in_data': False, 'before': set(), 'stored': None}

    def on_send(data):
        if state['in_data'] and REPLY_LINE.search(data) and state['stored'] is None:
            state['stored'] = sorted(r for id, e in store.env_db.items() if id not in state['before']
                                     for r in e.recipients)

    sock = DuplexSock(on_send)
    edge = SmtpEdge(None, queue, validator_class=make_validators(cur), hostname='edge.test')
    g = gevent.spawn(edge.handle, sock, ('192.0.2.7', 4242))

    def codes():
        return [c.decode() for c in REPLY_LINE.findall(sock.sent)]

    def command(data, want):
        sock.feed(data)
        settle(lambda: len(codes()) >= want or g.dead, 'no reply to %r' % data)
        if len(codes()) < want:
            raise HarnessError('session died at %r: %r' % (data, sock.sent))
        return codes()[want - 1]

    settle(lambda: len(codes()) >= 1 or g.dead, 'banner')
    n = 1
    out = []
    for cmd in [('EHLO', '250')] + list(script):
        cur.clear()
        kind = cmd[0]
        rec = dict(replies=[], handed=None, stored=None)
        if kind == 'EHLO':
            cur['ehlo'] = cmd[1]
            line = b'EHLO client.test\r\n'
        elif kind == 'RSET':
            line = b'RSET\r\n'
        elif kind == 'NOOP':
            line = b'NOOP\r\n'
        elif kind == 'MAIL':
            cur['mail'] = cmd[1]
            line = b'MAIL FROM:<%s>\r\n' % SENDER.encode()
        elif kind == 'RCPT':
            cur['rcpt'] = cmd[2]
            line = b'RCPT TO:<%s>\r\n' % s_addr(cmd[1]).encode()
        else:
            cur['data'], cur['have_data'] = cmd[1], cmd[2]
            line = b'DATA\r\n'
        n += 1
        rec['replies'].append(command(line, n))
        if kind == 'DATA' and rec['replies'][0] == '354':
            nh = len(handed)
            state.update(in_data=True, before=set(store.env_db), stored=None)
            n += 1
            rec['replies'].append(command(MSG + b'.\r\n', n))
            state['in_data'] = False
            rec['stored'] = state['stored']
            if len(handed) > nh:
                rec['handed'] = handed[nh]
        out.append(rec)
    sock.feed(b'QUIT\r\n')
    settle(lambda: g.dead or sock.waiting, 'quit')
    if not g.dead:
        sock.feed(b'')
    g.join(timeout=1)
    return out[1:]


def judge_session(ctx, case, script, out):
    """client view: from the commands sent and the codes read, nothing else"""
    acc = []
    for i, (cmd, rec) in enumerate(zip(script, out)):
        kind, rs = cmd[0], rec['replies']
        if kind in ('EHLO', 'RSET') and rs == ['250']:
            acc = []
        elif kind == 'MAIL' and rs == ['250']:
            acc = []
        elif kind == 'RCPT' and rs == ['250']:
            acc.append(s_addr(cmd[1]))
        elif kind == 'DATA' and rs[0] == '354':
            final = rs[1]
            if final[0] == '2':
                stored = rec['stored'] or []
                missing = [r for r in sorted(acc) if stored.count(r) < acc.count(r)]
                extra = [r for r in stored if stored.count(r) > acc.count(r)]
                if missing:
                    fail(ctx, 'c02:2xx-but-accepted-recipient-not-stored', dict(case, at=i),
                         'command %d: final reply %s; recipients accepted with 250 in this transaction %r, stored for the message %r'
                         % (i, final, sorted(acc), stored))
                elif extra:
                    fail(ctx, 'c02:2xx-stored-recipient-never-accepted', dict(case, at=i),
                         'command %d: final reply %s; accepted %r, stored %r' % (i, final, sorted(acc), stored))
            elif final[0] not in '45':
                fail(ctx, 'c02:answer-class', dict(case, at=i), 'final reply %s' % final)
            acc = []


SYM = {'M': ('MAIL', '250'), 'Mx': ('MAIL', '550'), 'Mt': ('MAIL', '450'),
       'R': ('RCPT', None, '250'), 'Rx': ('RCPT', None, '550'), 'Rt': ('RCPT', None, '450'), 'Rd': ('RCPT', 'dup', '250'),
       'D': ('DATA', '354', '250'), 'Dr': ('DATA', '451', '250'), 'Dp': ('DATA', '554', '250'), 'Dh': ('DATA', '354', '550'),
       'S': ('RSET',), 'E': ('EHLO', '250'), 'Ex': ('EHLO', '550'), 'N': ('NOOP',)}


def concretize(syms):
    script, k, last = [], 0, 0
    for x in syms:
        c = SYM[x]
        if c[0] == 'RCPT':
            if c[1] == 'dup':
                script.append(('RCPT', last, c[2]))
            else:
                script.append(('RCPT', k, c[2]))
                last = k
                k += 1
        else:
            script.append(c)
    return script


def session_cases(ctx):
    cases = []
    small = ['M', 'Mx', 'R', 'Rx', 'D', 'Dr', 'Dh', 'S']
    for L in range(1, (4 if ctx.quick else 5) + 1):
        for syms in itertools.product(small, repeat=L):
            if 'D' in syms and 'M' in syms and 'R' in syms:
                cases.append(syms)
    # refused DATA, then the transaction goes on (with and without further recipients), 1-2 refusals
    fam = []
    for i in (1, 2, 3):
        for first in (['R'] * i, ['Rt'] + ['R'] * i, ['R'] * i + ['Rx'], ['R', 'Rd'][:i + 1]):
            for refuse in ('Dr', 'Dp'):
                for j in (0, 1, 2):
                    for k in (1, 2):
                        body = ['M'] + list(first) + ([refuse] + ['R'] * j) * k + ['D']
                        fam.append(tuple(body))
                        fam.append(tuple(body + ['M', 'R', 'D']))
                        fam.append(tuple(['M', 'R', 'S'] + body))
                        fam.append(tuple(['M', 'R', 'Dh'] + body))
                        fam.append(tuple(['M', 'R', refuse, 'E'] + body))
                        fam.append(tuple(['M', 'R', refuse, 'Ex', 'R', 'D']))
                        fam.append(tuple(['M', 'R', refuse, 'M', 'Rx', 'N', 'D']))
    seen = set(cases)
    for f in fam:
        if f not in seen:
            seen.add(f)
            cases.append(f)
    allsym = sorted(SYM)
    for _ in range(300 if ctx.quick else 4000):
        L = ctx.rng.randrange(5, 13)
        syms = tuple(ctx.rng.choice(allsym if ctx.rng.random() < 0.5 else ['M', 'R', 'R', 'D', 'Dr', 'Dp', 'Rx', 'S', 'Dh', 'Rd'])
                     for _ in range(L))
        if 'D' in syms and syms not in seen:
            seen.add(syms)
            cases.append(syms)
    return cases


def enc_scmd(cmd):
    k = cmd[0]
    if k == 'EHLO':
        return [0, int(cmd[1])]
    if k == 'RSET':
        return [2]
    if k == 'NOOP':
        return [6]
    if k == 'MAIL':
        return [3, int(cmd[1])]
    if k == 'RCPT':
        return [4, cmd[1], int(cmd[2])]
    return [5, int(cmd[1]), int(cmd[2]), 250]


def run_session_stream(ctx):
    cases = session_cases(ctx)
    scripts = [concretize(syms) for syms in cases]
    mouts = ctx.model.batch('c02_session', [[[0, 250]] + [enc_scmd(c) for c in sc] for sc in scripts])
    for i, (syms, script, mo) in enumerate(zip(cases, scripts, mouts)):
        chain = SESSION_CHAINS[i % len(SESSION_CHAINS)]
        out = run_session(chain, script)
        case = dict(stream='session', chain=chain, script=[list(c) for c in script])
        refused_then_on = any(a in ('Dr', 'Dp') for a in syms)
        ctx.evaluated(('session', chain, syms), nontrivial=True)
        ctx.count('session:len%d' % min(len(syms), 9))
        ctx.count('session:chain:' + chain)
        if refused_then_on:
            ctx.count('session:with-refused-DATA')
        ctx.count('session:messages-2xx', sum(1 for r in out if len(r['replies']) == 2 and r['replies'][1][0] == '2'))
        judge_session(ctx, case, script, out)
        impl = [(r['replies'], sorted(r['handed']) if r['handed'] is not None else None) for r in out]
        model = []
        for o in mo[1:]:
            reps = [str(x[1]) for x in o if x[0] == 0]
            hand = [sorted(s_addr(a) for a in x[1]) for x in o if x[0] == 1]
            model.append((reps, hand[0] if hand else None))
        if impl != model:
            ctx.mismatch('session', case, impl, model)
        ctx.sample(dict(case=case, replies=[r['replies'] for r in out],
                        stored=[r['stored'] for r in out if r['stored'] is not None]), cap=10)
    return len(cases)



# ---------------------------------------------------------------- spelling stream (HTTP edge)
# How the HTTP client SPELLS the recipient list is the client's business: one header per
# recipient (a WSGI server joins repeated headers with ","), one header with "," / ";" and any
# blanks, mixed, padded or unpadded base64, a trailing separator.  Whatever the spelling: a
# recipient the client NAMED in a request that is answered 2xx must have been shown to the
# validators and be in storage.  Oracle only (the model starts at the envelope; the parsing of
# the envelope headers is C06's subject) - judged here because C02 speaks of every recipient the
# client was told is accepted.
from slimta.edge.wsgi import WsgiValidators

SPELL_ADDRS = {0: 'abc@example.com', 1: 'ab@example.com', 2: 'a@example.com',      # base64 padding "", "=", "=="
               3: 'xyz@example.net', 4: 'xy@example.net', 5: 'x@example.net'}
SPELLINGS = {
    'repeated-header': dict(seps=[',']),          # what gevent.pywsgi / any WSGI server makes of repeated headers
    'comma-space': dict(seps=[', ']), 'comma': dict(seps=[',']),
    'semicolon': dict(seps=[';']), 'semicolon-space': dict(seps=['; ']), 'space-semicolon': dict(seps=[' ;']),
    'space-semicolon-space': dict(seps=[' ; ']), 'tab-comma-tab': dict(seps=['\t,\t']),
    'mixed-comma-semicolon': dict(seps=[', ', '; ']), 'mixed-semicolon-comma': dict(seps=[';', ',']),
    'trailing-comma': dict(seps=[', '], tail=', '), 'trailing-semicolon': dict(seps=['; '], tail=';'),
    'unpadded-comma': dict(seps=[', '], unpadded=True), 'unpadded-semicolon': dict(seps=['; '], unpadded=True),
}


def spell(rcpts, spelling):
    sp = SPELLINGS[spelling]
    vals = [base64.b64encode(r.encode()).decode() for r in rcpts]
    if sp.get('unpadded'):
        vals = [v.rstrip('=') for v in vals]
    out = vals[0]
    for i, v in enumerate(vals[1:]):
        out += sp['seps'][i % len(sp['seps'])] + v
    return out + sp.get('tail', '')


def run_spelling(rcpt_ids, spelling, chain):
    rcpts = [SPELL_ADDRS[i] for i in rcpt_ids]
    seen = []

    class RecordingValidators(WsgiValidators):
        def validate_recipient(self, recipient):
            seen.append(recipient)

    store = DictStorage()
    queue = Queue(store, None)
    add_policies(queue, chain)
    edge = WsgiEdge(queue, hostname='edge.test', validator_class=RecordingValidators)
    environ = {
        'REQUEST_METHOD': 'POST', 'PATH_INFO': '/', 'CONTENT_TYPE': 'message/rfc822',
        'CONTENT_LENGTH': str(len(MSG)), 'wsgi.input': io.BytesIO(MSG), 'wsgi.url_scheme': 'http',
        'REMOTE_ADDR': '192.0.2.7', 'HTTP_X_EHLO': 'client.test',
        'HTTP_X_ENVELOPE_SENDER': base64.b64encode(SENDER.encode()).decode(),
        'HTTP_X_ENVELOPE_RECIPIENT': spell(rcpts, spelling),
    }
    res = {'status': None, 'stored': None}

    def start_response(status, headers):
        if res['status'] is None:
            res['status'] = int(status[:3])
            res['stored'] = sorted(r for e in store.env_db.values() for r in e.recipients)

    try:
        edge(environ, start_response)
    except BaseException as e:           # the application raised: the WSGI server answers 500
        res['status'] = res['status'] or ('raised', type(e).__name__)
    return dict(named=rcpts, header=environ['HTTP_X_ENVELOPE_RECIPIENT'], status=res['status'],
                seen=list(seen), stored=res['stored'])


def run_spelling_stream(ctx):
    n = 0
    lists = [l for L in (1, 2, 3) for l in itertools.product((0, 1, 2), repeat=L)]
    lists += [(3, 0), (1, 4, 2), (5, 3, 4)]
    for rcpt_ids in lists:
        for spelling in SPELLINGS:
            for chain in ('none', 'split'):
                out = run_spelling(rcpt_ids, spelling, chain)
                n += 1
                case = dict(stream='spelling', recipients=list(rcpt_ids), spelling=spelling, chain=chain)
                ctx.evaluated(('spelling', rcpt_ids, spelling, chain), nontrivial=len(rcpt_ids) > 1)
                ctx.count('spelling:' + spelling)
                st = out['status']
                ctx.count('spelling:status:%s' % (st if isinstance(st, int) else 'raised'))
                if isinstance(st, int) and st // 100 == 2:
                    lost = [r for r in out['named'] if r not in (out['stored'] or []) or r not in out['seen']]
                    if lost:
                        fail(ctx, 'c02:named-recipient-never-reached-the-envelope', case,
                             'header %r names %r; answer %s; validators saw %r; stored %r' % (
                                 out['header'], out['named'], st, out['seen'], out['stored']))
                    extra = [r for r in (out['stored'] or []) if r not in out['named']]
                    if extra:
                        ctx.count('spelling:2xx-with-extra-recipient')
                        ctx.note('HTTP edge: a trailing separator in X-Envelope-Recipient adds an empty recipient %r to the envelope '
                                 '(named recipients are all stored; the bogus one is C06 territory, reported only)' % (extra[:1],))
                elif isinstance(st, int) and st // 100 not in (4, 5):
                    fail(ctx, 'c02:answer-class', case, 'status %r' % (st,))
                ctx.sample(dict(case=case, header=out['header'], status=st, stored=out['stored']), cap=12)
    return n



# ---------------------------------------------------------------- shape stream
# Chained splitters x how the recipients are distributed over domains: several sibling
# envelopes are split in the same policy pass (2+2+2, 3+2+2, ...).  No fault: every write
# succeeds.  Oracle: at the 2xx every accepted recipient is in exactly one stored envelope.
SHAPES = [(2, 2, 2), (3, 2, 2), (2, 3, 1, 2), (1, 2, 2), (2, 2, 2, 2), (1, 1, 1, 1), (2, 2), (3, 3, 3),
          (2, 1, 2, 1, 2), (2, 2, 1), (4, 1, 3), (1, 3, 3, 1)]
SHAPE_CHAINS = {
    'domain>split': ('DS', 'S'), 'split>domain': ('S', 'DS'), 'domain>date>split': ('DS', 'D', 'S'),
    'domain>split>domain': ('DS', 'S', 'DS'), 'split>date>split': ('S', 'D', 'S'), 'date>domain>split': ('D', 'DS', 'S'),
    'domain>msgid>split>date': ('DS', 'M', 'S', 'D'), 'domain': ('DS',), 'split': ('S',),
}


def shape_rcpts(shape):
    return ['r%d_%d@dom%d.example' % (i, j, i) for i, m in enumerate(shape) for j in range(m)]


class RecordRelay(Relay):
    def __init__(self):
        super(RecordRelay, self).__init__()
        self.got = []

    def attempt(self, envelope, attempts):
        self.got.extend(envelope.recipients)


def run_shape(edge_kind, qkind, chain, shape):
    rcpts = shape_rcpts(shape)
    if qkind == 'proxy':
        relay = RecordRelay()
        queue = ProxyQueue(relay)
        snapshot = lambda: (sorted(relay.got), 1)
    else:
        store = DictStorage()
        queue = Queue(store, None)
        for pname in SHAPE_CHAINS[chain]:
            queue.add_policy({'D': AddDateHeader, 'M': lambda: AddMessageIdHeader('edge.test'), 'S': RecipientSplit,
                              'DS': RecipientDomainSplit}[pname]())
        snapshot = lambda: (sorted(r for e in store.env_db.values() for r in e.recipients), len(store.env_db))
    r = Run(edge_kind, queue, rcpts, lambda: None, [], snapshot).go()
    stored, nenv = r.at_reply if r.at_reply is not None else (None, None)
    return dict(answer=r.answer, rcpts=rcpts, stored=stored, envelopes=nenv)


def run_shape_stream(ctx):
    cases = [(qk, chain, shape) for shape in SHAPES for qk, chain in
             [('queue', c) for c in SHAPE_CHAINS] + [('proxy', 'none')]]
    def n_expected(qk, chain, shape):
        if qk == 'proxy':
            return 1
        return sum(shape) if 'S' in SHAPE_CHAINS[chain] else len(shape)
    mouts = ctx.model.batch('c02_queue', [[0, [[0, 0, [0]]] * n_expected(*c)] for c in cases])
    for (qk, chain, shape), m in zip(cases, mouts):
        for ei, edge_kind in enumerate(('smtp', 'wsgi')):
            out = run_shape(edge_kind, qk, chain, shape)
            case = dict(stream='shape', edge=edge_kind, queue=qk, chain=chain, shape=list(shape))
            ctx.evaluated(('shape', edge_kind, qk, chain, shape), nontrivial=True)
            ctx.count('shape:%s' % chain)
            c = cls(out['answer'])
            if out['answer'] is None or out['answer'] == 'dropped':
                fail(ctx, 'c02:no-answer', case, 'answer %r although nothing failed' % (out['answer'],))
            elif c == 2:
                missing = [x for x in out['rcpts'] if x not in out['stored']]
                twice = sorted(set(x for x in out['stored'] if out['stored'].count(x) > 1))
                if missing:
                    fail(ctx, 'c02:2xx-but-recipient-in-no-stored-envelope', case,
                         'answer %r; %d envelopes stored; accepted recipients in no stored envelope: %r (stored more than once: %r)'
                         % (out['answer'], out['envelopes'], missing, twice))
                elif twice:
                    ctx.note('chained splitters: recipients stored in more than one envelope %r (duplicates are tolerated by C02)' % (twice[:2],))
            elif c not in (4, 5):
                fail(ctx, 'c02:answer-class', case, 'answer %r' % (out['answer'],))
            # correspondence: the policy chain produced as many envelopes as the model was given writes
            m_ans = m[ei][1]
            m_ans = B(m_ans[0]).decode() if edge_kind == 'smtp' else m_ans[0]
            m_env = sum(1 for e in m[ei][0] if e[0] == 2)
            if (out['answer'], out['envelopes']) != (m_ans, m_env):
                ctx.mismatch('shape', case, dict(answer=out['answer'], envelopes=out['envelopes'], stored=out['stored']),
                             dict(answer=m_ans, envelopes=m_env))
            ctx.sample(dict(case=case, answer=out['answer'], envelopes=out['envelopes']), cap=14)
    return len(cases) * 2



# ---------------------------------------------------------------- entry points
class quiet(object):
    """no network (PTR lookups stubbed), no log noise, no tracebacks of the
    exceptions the stubs raise on purpose"""

    def __enter__(self):
        self.saved = (edge_smtp_mod.PtrLookup, edge_wsgi_mod.PtrLookup)
        edge_smtp_mod.PtrLookup = FakePtrLookup
        edge_wsgi_mod.PtrLookup = FakePtrLookup
        self.logger = logging.getLogger('slimta')
        self.handler = logging.NullHandler()
        self.logger.addHandler(self.handler)
        self.propagate = self.logger.propagate
        self.logger.propagate = False
        self.hub = gevent.get_hub()
        self.not_error = self.hub.NOT_ERROR
        self.hub.NOT_ERROR = tuple(self.not_error) + (Exception, Fatal, gevent.Timeout)
        return self

    def __exit__(self, *exc):
        edge_smtp_mod.PtrLookup, edge_wsgi_mod.PtrLookup = self.saved
        self.logger.removeHandler(self.handler)
        self.logger.propagate = self.propagate
        self.hub.NOT_ERROR = self.not_error
        return False


def run(ctx):
    with quiet():
        nq = run_queue_stream(ctx)
        nr = run_results_stream(ctx)
        np_ = run_proxy_stream(ctx)
        nc, nall = run_concurrent_stream(ctx)
        ns = run_session_stream(ctx)
        nsp = run_spelling_stream(ctx)
        nsh = run_shape_stream(ctx)
    ctx.extra['rule'] = (
        'queue stream: every list of 1-4 storage-write behaviours over {id, QueueError, QueueError+550 reply, other exception} '
        'with no or exactly one slow write at every position, every list of 1-%d behaviours over 8 kinds (attached replies 450/550/250/354/no code) '
        'with every subset of slow writes, other policy chains (AddDateHeader+RecipientSplit, RecipientDomainSplit, RecipientDomainSplit+RecipientSplit, none), '
        'a COUNT dimension (one message split into n = 1,2,3,31,32,33,40,63,64,65,100 envelopes by RecipientSplit / RecipientDomainSplit; all writes ok, the last or a middle write failing), '
        'a CONFIGURATION dimension (the real Queue built with store_pool=1 / 2 / Pool(10), relay_pool=Pool(200), both, bounce_queue set x the write-fault matrix of length 1-3 and 33/40-envelope messages; '
        'the answer and the storage at that instant must equal the default-configuration run and the pool-free model) - %d lists, '
        'each through the SMTP edge (real Server, command by command on an in-memory socket) and the WSGI edge; '
        'results stream: every result list of length 0-%d over 10 result kinds on both edges (%d lists) + _build_http_response on codes 100-599; '
        'proxy stream: ProxyQueue x %d relay result shapes (whole, mapping/sequence over {None, Reply, PermanentRelayError, TransientRelayError, other} for 1-3 recipients, raised errors) '
        'x both edges x fast/slow relay; '
        'concurrent stream: 2 and 3 clients (different senders/recipients; SMTP sessions, WSGI calls and mixed) in flight on ONE real Queue '
        '(real DictStorage, plain or with gated writes) with 11 policy chains containing a policy that yields inside apply() (gevent.sleep(0) or a gate; first/middle/last position; '
        'with/without RecipientSplit/RecipientDomainSplit before/after it): %d runs, every interleaving of sends and gate releases for %d configurations, seeded random interleavings for the rest; '
        'oracle per client at the instant it reads 2xx: every one of ITS recipients is stored in an envelope of ITS message; the global event log must be the model\'s interleaving (c02_sched) '
        'of the per-message runs, i.e. each client\'s events are exactly its own sequential model run. shape stream: %d runs of recipient distributions over domains (2+2+2, 3+2+2, 2+3+1+2, 1+2+2, 2+2+2+2, ... 12 shapes) under 9 chains of chained splitters '
        '(domain split then recipient split, the reverse, split + non-splitting policy + split, three splitters) on both edges over a real Queue + DictStorage, and over ProxyQueue: '
        'at the 2xx every accepted recipient is in a stored envelope and the number of envelopes is the model\'s; spelling stream (oracle only): %d requests to the real WsgiEdge (recording WsgiValidators, real Queue + DictStorage, with/without RecipientSplit) whose X-Envelope-Recipient value is '
        'spelled by hand in 14 ways (repeated header, "," / ";" with and without blanks and tabs, mixed, trailing separator, unpadded base64) for 1-3 recipients of every base64 padding class: '
        'on 2xx every recipient the client named was shown to the validators and is stored; session stream: %d whole SMTP sessions on the real SmtpEdge/Server with a validator class deciding every command '
        '(MAIL 250/450/550, each RCPT 250/450/550, DATA 354/451/554, received data 250/550, EHLO 250/550), transactions continued after a refused RCPT and after a refused DATA '
        '(with and without further RCPTs), RSET / EHLO / a second transaction in the same session, duplicate recipients, over real Queue + DictStorage with 5 policy chains incl. the split policies: '
        'every sequence of up to %d commands over 8 symbols that can complete a message, a family around refused DATA, seeded random longer sessions; oracle from the client side only: '
        'when the final reply is 2xx the recipients answered 250 since the transaction began are exactly (as a multiset) those stored for the message; replies per command and the handed-off envelope are compared with the session model. '
        'Compared with the model: event trace (write start/tick/done/fail, answer), answer code, attempts spawned, storage contents at the instant of the answer, '
        'and the trace at every blocked instant against the model run in which that write hangs. '
        'non-trivial = more than one envelope, a failing or slow write, any proxy case, result lists of length != 1'
        % (2 if ctx.quick else 3, nq, 3 if ctx.quick else 4, nr, np_, nc, nall, nsh, nsp, ns, 4 if ctx.quick else 5))
    ctx.extra.pop('_c02_fail', None)
    ctx.extra['exhaustive'] = True
    ctx.extra['exhaustive_bound'] = (
        'write-behaviour lists of length 1-4 over 4 kinds x (no slow write | one slow write at each position); '
        'result lists of length 0-%d over 10 kinds; relay result shapes for 1-3 recipients over 5 per-recipient kinds' % (3 if ctx.quick else 4))
    ctx.extra['trusted_base'] = [
        'stubs of the harness: StoreStub (storage), NeverRelay/ShapeRelay (relays), DuplexSock (socket), FakePtrLookup (replaces slimta.edge.smtp.PtrLookup / slimta.edge.wsgi.PtrLookup: no DNS)',
        'gevent: code between two blocking points is atomic; the harness observes a blocked write after letting every runnable greenlet run',
    ]
    ctx.note('partial custody (some envelopes stored, a later write failed) is answered 4xx/5xx; the stored envelopes are still delivered, '
             'so a client that retries produces duplicates for those recipients - tolerated by the property, reported here only')
    ctx.note('the reply sent for several failures is the one of the FIRST failed envelope (its attached 4xx/5xx reply or 451)')


def replay(ctx, case):
    c = case.get('case', case)
    with quiet():
        if c.get('stream') == 'queue':
            behs = tuple((k, bool(s)) for k, s in c['writes'])
            out = run_queue_case(c['edge'], c['chain'], behs, c.get('relay', True), c.get('config', 'default'))
            print('implementation: answer=%r trace=%r stored_at_reply=%r attempted=%r' % (
                out['answer'], out['log'], out['at_reply'], out['attempted']))
            print('envelopes expected: %d, storage writes made: %d, recipients NOT in storage at the answer: %r' % (
                len(behs), out['writes'], [r for r in out['rcpts'] if r not in (out['at_reply'] or [])]))
            if ctx.model:
                m = ctx.model.call('c02_queue', model_input(behs, relay=c.get('relay', True)))
                ei = 0 if c['edge'] == 'smtp' else 1
                print('model (fixed code): answer=%r trace=%r' % (m[ei][1], canon_trace(m[ei][0])))
        elif c.get('stream') == 'results':
            print('implementation (smtp, wsgi):', impl_results(tuple(c['results'])))
            if ctx.model:
                m = ctx.model.call('c02_results', [enc_result(k) for k in c['results']])
                print('model (fixed code):', (B(m[0]).decode(), m[1]))
        elif c.get('stream') == 'concurrent':
            cfg = dict(edges=c['edges'], chain=c['chain'], ymode=c['ymode'], storage=c['storage'])
            out = run_concurrent(cfg, schedule=c.get('schedule', []))
            print('schedule performed:', out['schedule'])
            print('global log (client, event):', out['log'])
            for cl in out['clients']:
                print('client %d (%s) recipients %r: answer=%r storage at that instant=%r' % (
                    cl.idx, cl.edge_kind, cl.rcpts, cl.answer, cl.at_reply))
            print('storage at the end:', out['final'])
            if ctx.model:
                mo = ctx.model.call('c02_sched', [0, expected_msgs(cfg), [o for o, e in out['log']]])
                print('model (per-message runs interleaved as observed):', [(e[0], canon_trace([e[1]])[0]) for e in mo])
        elif c.get('stream') == 'shape':
            out = run_shape(c['edge'], c['queue'], c['chain'], tuple(c['shape']))
            print('recipients named    : %r' % out['rcpts'])
            print('answer              : %r' % (out['answer'],))
            print('stored at the answer: %r in %r envelopes' % (out['stored'], out['envelopes']))
            print('in no stored envelope: %r' % [x for x in out['rcpts'] if x not in (out['stored'] or [])])
        elif c.get('stream') == 'spelling':
            out = run_spelling(tuple(c['recipients']), c['spelling'], c['chain'])
            print('X-Envelope-Recipient: %r' % out['header'])
            print('named by the client : %r' % out['named'])
            print('status              : %r' % (out['status'],))
            print('seen by validators  : %r' % out['seen'])
            print('stored at the answer: %r' % out['stored'])
        elif c.get('stream') == 'session':
            script = [tuple(x) for x in c['script']]
            out = run_session(c['chain'], script)
            for cmd, rec in zip(script, out):
                print('%-28r -> replies %r%s%s' % (cmd, rec['replies'],
                      ' handed to the queue: %r' % rec['handed'] if rec['handed'] is not None else '',
                      ' STORED at the final reply: %r' % rec['stored'] if rec['stored'] is not None else ''))
            if ctx.model:
                mo = ctx.model.call('c02_session', [[0, 250]] + [enc_scmd(x) for x in script])
                print('model:', [[(str(x[1]) if x[0] == 0 else [s_addr(a) for a in x[1]]) for x in o] for o in mo[1:]])
        elif c.get('stream') == 'proxy':
            shape = (c['shape'][0],) + ((tuple(c['shape'][1]),) if len(c['shape']) > 1 else ())
            nrcpt = len(shape[1]) if len(shape) > 1 else 2
            log = []
            relay = ShapeRelay(shape, bool(c.get('slow')), log)
            r = Run(c['edge'], ProxyQueue(relay), ['rcpt%d@example.com' % i for i in range(nrcpt)],
                    lambda: relay.blocked, log, lambda: relay.returned).go()
            print('implementation: answer=%r trace=%r' % (r.answer, log))
            if ctx.model:
                m = ctx.model.call('c02_proxy', enc_shape(shape))
                ei = 0 if c['edge'] == 'smtp' else 1
                print('model (fixed code): answer=%r trace=%r' % (m[ei][1], canon_trace(m[ei][0])))
        else:
            print(case)
    return 0
