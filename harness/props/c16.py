"""C16 - queue policies conserve recipients and content.

Correspondence of model/Policy.v with the real policies run through the real
Queue._run_policies / Queue.enqueue (recording store), and the property oracle
on the envelopes passed to store.write."""
import re, itertools, collections
import gevent

from vp.core import B, U

from slimta.envelope import Envelope
from slimta.queue import Queue
from slimta.policy import QueuePolicy
from slimta.policy.split import RecipientSplit, RecipientDomainSplit
from slimta.policy.forward import Forward
from slimta.policy.headers import AddDateHeader, AddMessageIdHeader, AddReceivedHeader
from slimta.relay import Relay

ASSUMPTIONS = [
    're.subn with the rule patterns is an oracle (Section variable subn); the model is given a table of its answers for every address that can '
    'arise; rule sets are valid (a repl template re.subn rejects makes enqueue raise: outside the quantifier)',
    'domains are ASCII (str.lower is modelled as ASCII lower-casing in the executable model; the theorems hold for any lower function)',
    'generated header values (Date, Message-Id, Received texts) are masked: presence and position only',
    'a policy returning a generator (not a list) is outside the stated quantifier (later policies are then skipped for its outputs); noted, not judged',
    'two test-only policies stand for "a policy returning its input among its outputs": ReturnSelf (returns [envelope]) and KeepSplit '
    '(keeps the first recipient in the input envelope and returns it with copies for the others)',
]


# ------------------------------------------------------------------ test-only policies
class ReturnSelf(QueuePolicy):
    def apply(self, envelope):
        return [envelope]


class KeepSplit(QueuePolicy):
    def apply(self, envelope):
        if len(envelope.recipients) <= 1:
            return
        rest = envelope.recipients[1:]
        envelope.recipients = envelope.recipients[:1]
        return [envelope] + [envelope.copy([r]) for r in rest]


class RecordingStore(object):
    def __init__(self):
        self.written = []

    def write(self, envelope, timestamp):
        self.written.append(envelope)
        return 'id%d' % len(self.written)

    # used only when a relay is attached
    def remove(self, id):
        pass

    def set_timestamp(self, id, timestamp):
        pass

    def increment_attempts(self, id):
        return 1

    def set_recipients_delivered(self, id, rcpt_indexes):
        pass


class NoopRelay(Relay):
    def attempt(self, envelope, attempts):
        return None


# ------------------------------------------------------------------ case material
RULESETS = [
    [],
    [(r'^a@x\.com$', 'alias@y.org', 0)],
    [(r'@x\.com$', '@forward.example', 0), (r'^b@', 'never@', 0)],
    [(r'o', '0', 1)],
    [(r'^nodomain$', '', 0), (r'^nodomain$', 'fixed@z.net', 0)],
    [(r'(.*)@(.*)', r'\2@\1', 0)],
    [(r'x', 'x', 0)],
    [(r'^$', 'empty@was.here', 0)],
    [(r'.*', '', 0)],
    [(r'@X\.COM$', '@lower.example', 0), (r'(?i)@x\.com$', '@ci.example', 0)],
    [(r'^(.*)@y\.org$', r'\1@Y.ORG', 0), (r'^d@', 'dd@', 0)],
    [(r'@d(\d+)\.example$', r'@d1.example', 0)],
]
RCPT_POOL = ['a@x.com', 'b@x.com', 'c@X.COM', 'd@y.org', 'e@Y.org', 'f@Y.Org', 'nodomain', 'trailing@', '@lead.com', 'two@@z.net',
             'a@b@c.io', '', 'a@x.com', 'ü@x.com', '"quoted@local"@q.net', ' spaced @ s.net', 'A@X.COM', '@', 'x@y@', 'user@sub.x.com']
HEADER_SETS = [
    [],
    [('Subject', 'orig subject')],
    [('Date', 'Mon, 01 Jan 2024 00:00:00 +0000'), ('Subject', 'orig subject')],
    [('date', 'Mon, 01 Jan 2024 00:00:00 +0000')],
    [('Subject', 'orig subject'), ('MESSAGE-ID', '<orig1@example.com>')],
    [('Received', 'from orig1 by orig; Mon, 01 Jan 2024 00:00:00 +0000'), ('Received', 'from orig2 by orig; Mon, 01 Jan 2024 00:00:00 +0000'),
     ('From', 'orig@example.com'), ('Message-Id', '<orig2@example.com>'), ('DATE', 'Mon, 01 Jan 2024 00:00:00 +0000')],
    [('X-Date', 'orig not a date'), ('X-Message-Id', 'orig'), ('Subject', 'orig'), ('Subject', 'orig again')],
]
KINDS = ['split', 'domain', 'forward', 'date', 'mid', 'received']
EXTRA_KINDS = ['self', 'keepsplit']
TAG = {'split': 0, 'domain': 1, 'forward': 2, 'date': 3, 'mid': 4, 'received': 5, 'self': 6, 'keepsplit': 7}


def gen_rcpts(rng):
    r = rng.random()
    if r < 0.1:
        return []
    if r < 0.2:
        return [rng.choice(RCPT_POOL)]
    if r < 0.35:   # many domains
        n = rng.randrange(3, 14)
        return ['u%d@d%d.example' % (i, rng.randrange(1, n + 1)) for i in range(n)]
    if r < 0.45:   # all the same
        return [rng.choice(RCPT_POOL)] * rng.randrange(2, 5)
    return [rng.choice(RCPT_POOL) for _ in range(rng.randrange(2, 9))]


def build_policies(chain):
    """chain: list of (kind, ruleset index or None)"""
    out = []
    for kind, rs in chain:
        if kind == 'split':
            out.append(RecipientSplit())
        elif kind == 'domain':
            out.append(RecipientDomainSplit())
        elif kind == 'forward':
            f = Forward()
            for pat, repl, count in RULESETS[rs]:
                f.add_mapping(pat, repl, count)
            out.append(f)
        elif kind == 'date':
            out.append(AddDateHeader())
        elif kind == 'mid':
            out.append(AddMessageIdHeader(hostname='mid.example'))
        elif kind == 'received':
            out.append(AddReceivedHeader())
        elif kind == 'self':
            out.append(ReturnSelf())
        else:
            out.append(KeepSplit())
    return out


def build_envelope(sender, rcpts, headers, body):
    e = Envelope(sender, list(rcpts))
    block = b''.join(('%s: %s\r\n' % h).encode() for h in headers)
    e.parse(block + b'\r\n' + body)
    e.client = {'ip': '192.0.2.7', 'host': 'client.example', 'name': 'helo.example', 'protocol': 'ESMTP'}
    e.receiver = 'recv.example'
    e.timestamp = 1700000000.0
    return e


def fwd_one(rules, r):
    """independent statement of Forward for one recipient"""
    for pat, repl, count in rules:
        new, n = re.subn(pat, repl, r, count)
        if new and n > 0:
            return new
    return r


def subn_table(chain, rcpts):
    """answers of re.subn for every (rule, address) that can arise: closure over the Forward policies of the chain"""
    fwd = [(i, RULESETS[rs]) for i, (kind, rs) in enumerate(chain) if kind == 'forward']
    seen = set(rcpts)
    rows = {}
    for _ in range(len(fwd)):
        for s in list(seen):
            for i, rules in fwd:
                for j, (pat, repl, count) in enumerate(rules):
                    new, n = re.subn(pat, repl, s, count)
                    rows[(i * 100 + j, s)] = (new, n)
                    seen.add(new)
    return [[k, s, new, n] for (k, s), (new, n) in sorted(rows.items())]


def model_chain(chain):
    out = []
    for i, (kind, rs) in enumerate(chain):
        if kind == 'forward':
            out.append([2, [i * 100 + j for j in range(len(RULESETS[rs]))]])
        else:
            out.append([TAG[kind]])
    return out


def expected_names(chain, names):
    """independent statement of the header rules on the list of header names"""
    pre = []
    names = list(names)
    suf = []
    for kind, _ in chain:
        low = [n.lower() for n in pre + names + suf]
        if kind == 'date' and 'date' not in low:
            suf.append('Date')
        elif kind == 'mid' and 'message-id' not in low:
            suf.append('Message-Id')
        elif kind == 'received':
            pre.insert(0, 'Received')
    return pre, suf


def snapshot(e):
    return (e.sender, list(e.recipients), [(k, str(v)) for k, v in e.headers.items()], e.message, dict(e.client))


def run_case(ctx, chain, sender, rcpts, headers, body, mode):
    """returns canonical observation of the implementation and runs the property oracle"""
    case = dict(chain=[[k, rs] for k, rs in chain], sender=sender, rcpts=list(rcpts), headers=[list(h) for h in headers], body=body, mode=mode)
    env = build_envelope(sender, rcpts, headers, body)
    orig = dict(env=env, rcpts=env.recipients, headers=env.headers, client=env.client)
    orig_items = [(k, str(v)) for k, v in env.headers.items()]
    store = RecordingStore()
    q = Queue(store, NoopRelay() if mode == 'enqueue+relay' else None)
    for p in build_policies(chain):
        q.add_policy(p)
    try:
        if mode == 'run_policies':
            written = q._run_policies(env)
        else:
            res = q.enqueue(env)
            written = list(store.written)
            if [e for e, _ in res] != written:
                ctx.fail('c16:enqueue-result-differs-from-written', case, 'enqueue() returned other envelopes than it wrote')
            if mode == 'enqueue+relay':
                gevent.sleep(0)
                gevent.idle()
    except Exception as ex:
        ctx.fail('c16:enqueue-raised', case, '%s: %s' % (type(ex).__name__, ex))
        return None
    snaps = [snapshot(e) for e in written]
    # ---- canonical observation for the correspondence
    obs = []
    for e, (snd, rc, items, msg, _) in zip(written, snaps):
        masked = [(k, v if (k, v) in orig_items else '?') for k, v in items]
        obs.append(((e is orig['env'], e.recipients is orig['rcpts'], e.headers is orig['headers'], e.client is orig['client']),
                    snd, tuple(rc), tuple(masked), msg))
    # ---- property oracle
    fwd_rules = [RULESETS[rs] for kind, rs in chain if kind == 'forward']
    want = []
    for r in rcpts:
        for rules in fwd_rules:
            r = fwd_one(rules, r)
        want.append(r)
    got = [r for s in snaps for r in s[1]]
    if collections.Counter(got) != collections.Counter(want):
        ctx.fail('c16:recipient-lost-or-duplicated', case, 'written recipients %r, expected (as a multiset) %r' % (sorted(got), sorted(want)))
    for s in snaps:
        if s[0] != sender or s[3] != body:
            ctx.fail('c16:sender-or-body-changed', case, 'written envelope has sender %r body %r' % (s[0], s[3]))
            break
    pre, suf = expected_names(chain, [k for k, _ in orig_items])
    for s in snaps:
        items = s[2]
        names = [k for k, _ in items]
        ok = (names == pre + [k for k, _ in orig_items] + suf and items[len(pre):len(pre) + len(orig_items)] == orig_items)
        if not ok:
            ctx.fail('c16:header-rule', case, 'headers %r, expected names %r around the original %r' % (items, (pre, suf), orig_items))
            break
    # no shared mutable state: object identities, then a mutation probe
    shared = []
    for i, j in itertools.combinations(range(len(written)), 2):
        a, b = written[i], written[j]
        if a is b or a.recipients is b.recipients or a.headers is b.headers or a.client is b.client:
            shared.append((i, j))
    if not shared:
        for i, e in enumerate(written):
            e.recipients.append('mutated@example.com')
            e.headers['X-Mutated'] = 'yes'
            e.client['mutated'] = True
            for j, o in enumerate(written):
                if j != i and snapshot(o) != snaps[j]:
                    shared.append((i, j))
            # undo
            e.recipients.pop()
            del e.headers['X-Mutated']
            del e.client['mutated']
            if snapshot(e) != snaps[i]:
                shared.append((i, i))
    if shared:
        ctx.fail('c16:shared-mutable-state', case, 'written envelopes %r share recipients / headers / client' % (shared[:5],))
    return obs, case


def model_obs(o):
    """model output -> same shape as the implementation observation"""
    failed, envs = o
    out = []
    for (eid, rid, hid, cid, snd, rc, hs, bd) in envs:
        out.append(((eid == 0, rid == 1, hid == 2, cid == 3), U(snd), tuple(U(r) for r in rc),
                    tuple((U(h[0]), U(h[1])) for h in hs), B(bd)))
    return failed, out


def run_cases(ctx, cases):
    jobs = []
    for (chain, sender, rcpts, headers, body, mode) in cases:
        jobs.append([sender, list(rcpts), [[k, v] for k, v in headers], body, model_chain(chain), subn_table(chain, rcpts)])
    outs = ctx.model.batch('c16_run', jobs)
    for (chain, sender, rcpts, headers, body, mode), o in zip(cases, outs):
        kinds = [k for k, _ in chain]
        ctx.count('chain-length:%d' % len(chain))
        ctx.count('mode:' + mode)
        for k in set(kinds):
            ctx.count('policy:' + k)
        r = run_case(ctx, chain, sender, rcpts, headers, body, mode)
        nontriv = len(rcpts) > 1 and len(chain) > 0
        ctx.evaluated((tuple(chain), tuple(rcpts), tuple(headers), mode), nontrivial=nontriv)
        if r is None:
            continue
        obs, case = r
        failed, mo = model_obs(o)
        ctx.count('outputs:%s' % (len(obs) if len(obs) < 5 else '5+'))
        if failed or obs != mo:
            ctx.mismatch('run_policies', case, obs, dict(failed=failed, envelopes=mo))
        if len(obs) > 1:
            ctx.sample(dict(chain=case['chain'], rcpts=case['rcpts'], written=[(x[2], [k for k, _ in x[3]]) for x in obs]), cap=4)


def all_chains(maxlen):
    for L in range(0, maxlen + 1):
        for kinds in itertools.product(KINDS, repeat=L):
            yield kinds


def run_domains(ctx):
    """RecipientDomainSplit._get_domain against the model, over the address pool and small strings"""
    pol = RecipientDomainSplit()
    addrs = list(RCPT_POOL) + [''.join(t) for L in range(0, 5) for t in itertools.product('a@X.', repeat=L)]
    outs = ctx.model.batch('c16_domain', addrs)
    for a, o in zip(addrs, outs):
        try:
            io = (pol._get_domain(a),)
        except ValueError:
            io = ()
        mo = tuple(U(x) for x in o)
        ctx.evaluations += 1
        if io != mo:
            ctx.mismatch('get_domain', dict(rcpt=a), io, mo)
    ctx.count('get_domain-cases', len(addrs))


def probe_generator(ctx):
    class GenSplit(QueuePolicy):
        def apply(self, envelope):
            return (envelope.copy([r]) for r in envelope.recipients)
    store = RecordingStore()
    q = Queue(store)
    q.add_policy(GenSplit())
    q.add_policy(AddReceivedHeader())
    q.enqueue(build_envelope('s@example.com', ['a@x.com', 'b@y.org'], [], b'x'))
    if any('Received' not in e.headers for e in store.written):
        ctx.note('a policy returning a generator instead of a list makes _run_policies skip the later policies for its outputs '
                 '(the generator is consumed by results.extend); outside the stated quantifier, not judged')


def run(ctx):
    rng = ctx.rng
    ctx.extra['rule'] = (
        'every chain of length 0..4 over the six built-in policies (1555 chains; Forward with a rule set drawn from 12 sets: first-match, '
        'count-limited, empty-result, identity-rewrite, case rules, back-references) x recipient lists (duplicates, mixed-case / missing / empty '
        'domains, many domains, empty list) x original header sets (none, Date / date / MESSAGE-ID / Received present) through the real '
        'Queue.enqueue with a recording store (a sample through Queue._run_policies directly and through enqueue with a no-op relay); '
        'random chains to length 6 over the six policies plus two test-only policies returning their input; compared with the model: the list of '
        'envelopes passed to store.write in order (which of them are the input objects, sender, recipients, header (name, value) list with '
        'generated values masked, body); oracle: multiset of recipients = rewritten originals, sender / body, header rules, pairwise distinct '
        'objects + mutation probe.  non-trivial = more than one recipient and a non-empty chain')
    run_domains(ctx)
    cases = []
    reps = 2 if ctx.quick else 12
    for kinds in all_chains(4):
        for _ in range(reps):
            chain = [(k, rng.randrange(len(RULESETS)) if k == 'forward' else None) for k in kinds]
            mode = rng.choice(['enqueue'] * 8 + ['run_policies', 'enqueue+relay'])
            cases.append((chain, 'sender@example.com', gen_rcpts(rng), rng.choice(HEADER_SETS), rng.choice([b'body\r\n', b'', b'\xff\x00 8bit\r\n.\r\n']), mode))
    for _ in range(1500 if ctx.quick else 20000):
        L = rng.randrange(1, 7)
        chain = []
        for _ in range(L):
            k = rng.choice(KINDS + EXTRA_KINDS + ['forward'])
            chain.append((k, rng.randrange(len(RULESETS)) if k == 'forward' else None))
        mode = rng.choice(['enqueue'] * 8 + ['run_policies', 'enqueue+relay'])
        cases.append((chain, rng.choice(['sender@example.com', '', 'S@Example.COM']), gen_rcpts(rng), rng.choice(HEADER_SETS), b'body\r\n', mode))
    run_cases(ctx, cases)
    probe_generator(ctx)
    ctx.extra['exhaustive'] = True
    ctx.extra['exhaustive_bound'] = ('all 1555 chains of length <= 4 over the six built-in policies (each with %d generated recipient lists / header sets); '
                                     'recipient lists, rule sets and longer chains are sampled' % reps)
    ctx.extra['trusted_base'] = ['re.subn (Section variable subn; answers supplied to the model as a table computed with the running re)',
                                 'str.lower on domains modelled as ASCII lower-casing']


def replay(ctx, case):
    c = case.get('case', case)

    def unhex(x):
        return bytes.fromhex(x['hex']) if isinstance(x, dict) else x
    chain = [(k, rs) for k, rs in c['chain']]
    headers = [tuple(h) for h in c['headers']]
    body = unhex(c['body'])
    env = build_envelope(c['sender'], c['rcpts'], headers, body)
    store = RecordingStore()
    q = Queue(store)
    for p in build_policies(chain):
        q.add_policy(p)
    q.enqueue(env)
    print('chain:', chain)
    for k, rs in chain:
        if k == 'forward':
            print('  forward rules:', RULESETS[rs])
    print('input recipients:', c['rcpts'])
    for e in store.written:
        print('written:', e.sender, e.recipients, [(k, str(v)) for k, v in e.headers.items()], e.message,
              'input-object' if e is env else 'copy')
    if ctx.model:
        o = ctx.model.call('c16_run', [c['sender'], list(c['rcpts']), [[k, v] for k, v in headers], body, model_chain(chain), subn_table(chain, c['rcpts'])])
        print('model:', model_obs(o))
    return 0
