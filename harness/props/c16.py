"""C16 - queue policies conserve recipients and content.

Correspondence of model/Policy.v with the real policies run through the real
Queue._run_policies / Queue.enqueue (recording store), and the property oracle
on the envelopes passed to store.write."""
import re, itertools, collections
import gevent
from gevent.event import Event
from email.message import EmailMessage

from vp.core import B, U

from slimta.envelope import Envelope
from slimta.queue import Queue
from slimta.policy import QueuePolicy
from slimta.policy.split import RecipientSplit, RecipientDomainSplit
from slimta.policy.forward import Forward
from slimta.policy.headers import AddDateHeader, AddMessageIdHeader, AddReceivedHeader
from slimta.relay import Relay

ASSUMPTIONS = [
    're.subn with the rule patterns is an oracle (Section variable subn); the model is given a table of its answers for every address that can '
    'arise; rule sets are valid (a repl template re.subn rejects makes enqueue raise: outside the quantifier)',
    'domains are ASCII (str.lower is modelled as ASCII lower-casing in the executable model; the theorems hold for any lower function)',
    'generated header values (Date, Message-Id, Received texts) are masked: presence and position only',
    'a policy returning a generator (not a list) is outside the stated quantifier (later policies are then skipped for its outputs); noted, not judged',
    'two test-only policies stand for "a policy returning its input among its outputs": ReturnSelf (returns [envelope]) and KeepSplit '
    '(keeps the first recipient in the input envelope and returns it with copies for the others)',
    'concurrency is not in the Gallina model (the model is sequential; C16_policies_stateless covers sequences of messages): the concurrent '
    'stream is judged by the implementation-side oracle only, with yielding test policies (GatePolicy / YieldPolicy) standing for a policy '
    'that does I/O; store.write through gevent.spawn + join as in Queue._pool_imap',
]


# ------------------------------------------------------------------ test-only policies
class ReturnSelf(QueuePolicy):
    def apply(self, envelope):
        return [envelope]


class KeepSplit(QueuePolicy):
    def apply(self, envelope):
        if len(envelope.recipients) <= 1:
            return
        rest = envelope.recipients[1:]
        envelope.recipients = envelope.recipients[:1]
        return [envelope] + [envelope.copy([r]) for r in rest]


class PrependTag(QueuePolicy):
    """test-only (not in the model): another policy that prepends a header, as slimta.lookup.policy does"""
    def apply(self, envelope):
        envelope.prepend_header('X-Hop-Tag', 'tag by harness')


class GatePolicy(QueuePolicy):
    """test-only: a policy whose apply() yields to the hub - as slimta.policy.spamassassin.SpamAssassin (network I/O) or any
    user policy may - and is otherwise a no-op.  With a scheduler attached it parks until the harness resumes it."""
    sched = None

    def apply(self, envelope):
        if self.sched is not None:
            self.sched.park()


class YieldPolicy(QueuePolicy):
    """test-only: apply() lets every other runnable greenlet run once (gevent.sleep(0)); otherwise a no-op"""
    def apply(self, envelope):
        gevent.sleep(0)


class Sched(object):
    """one greenlet runs at a time: the driver resumes one enqueue greenlet and waits until it parks in a GatePolicy or ends"""
    def __init__(self):
        self.changed = Event()
        self.parked = {}

    def park(self):
        ev = Event()
        self.parked[gevent.getcurrent()] = ev
        self.changed.set()
        ev.wait()


class RecHeaders(EmailMessage):
    """envelope.headers of the input (and, through deepcopy, of every copy) is given this class: assignments of
    header fields by the policies are recorded together with the field names present at that moment"""
    log = []

    def __setitem__(self, name, val):
        RecHeaders.log.append((name, list(self.keys())))
        EmailMessage.__setitem__(self, name, val)


def added_although_present(log):
    for name, keys in log:
        if name.lower() in ('date', 'message-id') and name.lower() in [k.lower() for k in keys]:
            return name, keys
    return None


MAX_PER_KEY = 25
_reported = collections.Counter()


def fail(ctx, key, case, what):
    """ctx.fail, at most MAX_PER_KEY full reports per key (ctx keeps 200 failures in all); every one is counted"""
    _reported[key] += 1
    if _reported[key] <= MAX_PER_KEY:
        ctx.fail(key, case, what)
    else:
        ctx.count('oracle-fail:' + key)


class RecordingStore(object):
    def __init__(self):
        self.written = []

    def write(self, envelope, timestamp):
        self.written.append(envelope)
        return 'id%d' % len(self.written)

    # used only when a relay is attached
    def remove(self, id):
        pass

    def set_timestamp(self, id, timestamp):
        pass

    def increment_attempts(self, id):
        return 1

    def set_recipients_delivered(self, id, rcpt_indexes):
        pass


class NoopRelay(Relay):
    def attempt(self, envelope, attempts):
        return None


# ------------------------------------------------------------------ case material
def _same(m):
    """repl function reproducing the matched text"""
    return m.group(0)


RULESETS = [
    [],
    [(r'^a@x\.com$', 'alias@y.org', 0)],
    [(r'@x\.com$', '@forward.example', 0), (r'^b@', 'never@', 0)],
    [(r'o', '0', 1)],
    [(r'^nodomain$', '', 0), (r'^nodomain$', 'fixed@z.net', 0)],
    [(r'(.*)@(.*)', r'\2@\1', 0)],
    [(r'x', 'x', 0)],
    [(r'^$', 'empty@was.here', 0)],
    [(r'.*', '', 0)],
    [(r'@X\.COM$', '@lower.example', 0), (r'(?i)@x\.com$', '@ci.example', 0)],
    [(r'^(.*)@y\.org$', r'\1@Y.ORG', 0), (r'^d@', 'dd@', 0)],
    [(r'@d(\d+)\.example$', r'@d1.example', 0)],
    # --- rules that MATCH (changes > 0) but reproduce the same text: "first matching rule wins" even then
    # 12: whole-address exemption in front of a catch-all
    [(r'^(postmaster|abuse|a)@x\.com$', r'\1@x.com', 0), (r'@x\.com$', '@mailhub.example.net', 0)],
    # 13: domain-only identity in front of a local-part rule and a catch-all
    [(r'@x\.com$', '@x.com', 0), (r'^a@', 'z@', 0), (r'@', '@caught.', 0)],
    # 14: identity with a count, in front of an unlimited rule on the same text
    [(r'a', 'a', 1), (r'a', 'b', 0)],
    # 15: identity behind a rule that matches other recipients, in front of a catch-all
    [(r'^b@x\.com$', 'bb@x.com', 0), (r'(?i)@x\.com$', _same, 0), (r'(?i)@x\.com$', '@hub.example', 0)],
    # 16: the identity rule is the only rule (whole address)
    [(r'^(.*)$', r'\1', 0)],
    # 17: the identity rule is the last rule (behind non-matching ones)
    [(r'^nobody@', 'x@', 0), (r'@nowhere$', '@x', 0), (r'^(.+)@(.+)$', r'\1@\2', 1)],
    # 18: two identity rules, then a rewrite; the empty-result rule in front does not count as a match
    [(r'^.*$', '', 0), (r'@', '@', 1), (r'\.', '.', 0), (r'^', 'late-', 0)],
    # 19: identity for the missing-domain addresses, everything else rewritten
    [(r'^[^@]*$', _same, 0), (r'^(.*)@[^@]*$', r'\1@rewritten.example', 0), (r'$', '@default.example', 0)],
    # 20: a rule whose output still matches it (sub-address tag): applying it twice is visible
    [(r'^([^@]*)@', r'\1+fwd@', 0)],
]
IDENTITY_RULESETS = [6, 12, 13, 14, 15, 16, 17, 18, 19]
TAG_RULESET = 20
RCPT_POOL = ['a@x.com', 'b@x.com', 'c@X.COM', 'd@y.org', 'e@Y.org', 'f@Y.Org', 'nodomain', 'trailing@', '@lead.com', 'two@@z.net',
             'a@b@c.io', '', 'a@x.com', 'ü@x.com', '"quoted@local"@q.net', ' spaced @ s.net', 'A@X.COM', '@', 'x@y@', 'user@sub.x.com']
_R1 = 'from orig1 by orig; Mon, 01 Jan 2024 00:00:00 +0000'
_R2 = 'from orig2 by orig; Mon, 01 Jan 2024 00:00:01 +0000'
_R3 = 'from orig3 by orig; Mon, 01 Jan 2024 00:00:02 +0000'
HEADER_SETS = [
    [],
    [('Subject', 'orig subject')],
    [('Date', 'Mon, 01 Jan 2024 00:00:00 +0000'), ('Subject', 'orig subject')],
    [('date', 'Mon, 01 Jan 2024 00:00:00 +0000')],
    [('Subject', 'orig subject'), ('MESSAGE-ID', '<orig1@example.com>')],
    [('Received', 'from orig1 by orig; Mon, 01 Jan 2024 00:00:00 +0000'), ('Received', 'from orig2 by orig; Mon, 01 Jan 2024 00:00:00 +0000'),
     ('From', 'orig@example.com'), ('Message-Id', '<orig2@example.com>'), ('DATE', 'Mon, 01 Jan 2024 00:00:00 +0000')],
    [('X-Date', 'orig not a date'), ('X-Message-Id', 'orig'), ('Subject', 'orig'), ('Subject', 'orig again')],
    # --- Date / Message-Id PRESENT BUT EMPTY (third component: the raw field line; second: the value the parser gives)
    [('Date', '', 'Date:\r\n')],
    [('Date', '', 'Date: \r\n'), ('Subject', 'orig subject')],
    [('Subject', 'orig subject'), ('DATE', '', 'DATE:   \r\n')],
    [('message-id', '', 'message-id:\r\n')],
    [('From', 'orig@example.com'), ('Message-ID', '', 'Message-ID:  \t \r\n'), ('Date', '', 'Date:\r\n')],
    [('Received', 'from orig1 by orig; Mon, 01 Jan 2024 00:00:00 +0000'), ('Subject', 'orig'), ('dAtE', '', 'dAtE:\r\n'),
     ('MESSAGE-id', '', 'MESSAGE-id: \r\n'), ('To', 'x@example.com')],
    [('Date', '', 'Date:\r\n'), ('Message-Id', '<orig3@example.com>')],
    [('date', 'Mon, 01 Jan 2024 00:00:00 +0000'), ('Message-Id', '', 'Message-Id:\r\n'), ('Subject', 'orig subject')],
    [('DATE', '', 'DATE:\r\n'), ('Date', 'Mon, 01 Jan 2024 00:00:00 +0000'), ('message-ID', '', 'message-ID:\r\n')],
    # --- existing Received fields in every position (first: set 5 above; none: sets 0-4)
    [('Return-Path', '<bounce@example.com>'), ('Received', _R1), ('Subject', 'orig subject')],
    [('DKIM-Signature', 'v=1; a=rsa-sha256; d=example.com; s=sel; bh=abc=; b=def='), ('X-Spam-Flag', 'NO'), ('Received', _R1), ('Received', _R2),
     ('From', 'orig@example.com')],
    [('Subject', 'orig subject'), ('received', _R1)],
    [('X-First', '1'), ('RECEIVED', _R1), ('X-Mid', '2'), ('Received', _R2), ('To', 'x@example.com'), ('received', _R3),
     ('Date', 'Mon, 01 Jan 2024 00:00:00 +0000')],
    [('Received', _R1), ('Return-Path', '<bounce@example.com>'), ('Received', _R2), ('Message-Id', '<orig4@example.com>')],
    [('From', 'orig@example.com'), ('To', 'x@example.com'), ('Subject', 'orig subject'), ('Received', _R1)],
    [('X-Original-To', 'x@example.com'), ('Received', _R1), ('Date', '', 'Date:\r\n')],
    [('Return-Path', '<>'), ('rEcEiVeD', _R2), ('X-Hop-Tag', 'orig tag'), ('Received', _R1)],
]
EMPTY_HEADER_SETS = list(range(7, 16))
RECEIVED_HEADER_SETS = [5] + list(range(16, 24))       # an existing Received field: on top (5, 20) / below other fields (the rest)
KINDS = ['split', 'domain', 'forward', 'date', 'mid', 'received']
EXTRA_KINDS = ['self', 'keepsplit']
NOOP_KINDS = ['gate', 'yield']
TAG = {'split': 0, 'domain': 1, 'forward': 2, 'date': 3, 'mid': 4, 'received': 5, 'self': 6, 'keepsplit': 7}


def to_rule(sp):
    """JSON-able rule description -> the arguments of Forward.add_mapping: pattern as a string or pre-compiled (with flags),
    repl a template or a function, count"""
    pat = re.compile(sp['pat'], sp.get('flags', 0)) if sp.get('compiled') or sp.get('flags') else sp['pat']
    return (pat, _same if sp.get('fn') else sp['repl'], sp.get('count', 0))


def rules_of(rs):
    """the rule list of a Forward entry of a chain: an index into RULESETS or an explicit list of rule descriptions"""
    return RULESETS[rs] if isinstance(rs, int) else [to_rule(sp) for sp in rs]


def gen_rcpts(rng):
    r = rng.random()
    if r < 0.1:
        return []
    if r < 0.2:
        return [rng.choice(RCPT_POOL)]
    if r < 0.35:   # many domains
        n = rng.randrange(3, 14)
        return ['u%d@d%d.example' % (i, rng.randrange(1, n + 1)) for i in range(n)]
    if r < 0.45:   # all the same
        return [rng.choice(RCPT_POOL)] * rng.randrange(2, 5)
    return [rng.choice(RCPT_POOL) for _ in range(rng.randrange(2, 9))]


def build_policies(chain):
    """chain: list of (kind, ruleset index or None)"""
    out = []
    for kind, rs in chain:
        if kind == 'split':
            out.append(RecipientSplit())
        elif kind == 'domain':
            out.append(RecipientDomainSplit())
        elif kind == 'forward':
            f = Forward()
            for pat, repl, count in rules_of(rs):
                f.add_mapping(pat, repl, count)
            out.append(f)
        elif kind == 'date':
            out.append(AddDateHeader())
        elif kind == 'mid':
            out.append(AddMessageIdHeader(hostname=rs or 'mid.example'))
        elif kind == 'received':
            out.append(AddReceivedHeader(date_format=rs) if rs else AddReceivedHeader())
        elif kind == 'self':
            out.append(ReturnSelf())
        elif kind == 'prepend':
            out.append(PrependTag())
        elif kind == 'gate':
            out.append(GatePolicy())
        elif kind == 'yield':
            out.append(YieldPolicy())
        else:
            out.append(KeepSplit())
    return out


def build_envelope(sender, rcpts, headers, body):
    e = Envelope(sender, list(rcpts))
    block = b''.join((h[2] if len(h) > 2 else '%s: %s\r\n' % tuple(h[:2])).encode() for h in headers)
    e.parse(block + b'\r\n' + body)
    e.client = {'ip': '192.0.2.7', 'host': 'client.example', 'name': 'helo.example', 'protocol': 'ESMTP'}
    e.receiver = 'recv.example'
    e.timestamp = 1700000000.0
    return e


def fwd_one(rules, r):
    """independent statement of Forward for one recipient"""
    for pat, repl, count in rules:
        new, n = re.subn(pat, repl, r, count)
        if new and n > 0:
            return new
    return r


def subn_table(chain, rcpts):
    """answers of re.subn for every (rule, address) that can arise: closure over the Forward policies of the chain"""
    fwd = [(i, rules_of(rs)) for i, (kind, rs) in enumerate(chain) if kind == 'forward']
    seen = set(rcpts)
    rows = {}
    for _ in range(len(fwd)):
        for s in list(seen):
            for i, rules in fwd:
                for j, (pat, repl, count) in enumerate(rules):
                    new, n = re.subn(pat, repl, s, count)
                    rows[(i * 100 + j, s)] = (new, n)
                    seen.add(new)
    return [[k, s, new, n] for (k, s), (new, n) in sorted(rows.items())]


def model_chain(chain):
    out = []
    for i, (kind, rs) in enumerate(chain):
        if kind == 'forward':
            out.append([2, [i * 100 + j for j in range(len(rules_of(rs)))]])
        elif kind in NOOP_KINDS:      # test-only policies that only yield: no-ops for one message
            continue
        else:
            out.append([TAG[kind]])
    return out


def expected_names(chain, names):
    """independent statement of the header rules on the list of header names"""
    pre = []
    names = list(names)
    suf = []
    for kind, _ in chain:
        low = [n.lower() for n in pre + names + suf]
        if kind == 'date' and 'date' not in low:
            suf.append('Date')
        elif kind == 'mid' and 'message-id' not in low:
            suf.append('Message-Id')
        elif kind == 'received':
            pre.insert(0, 'Received')
        elif kind == 'prepend':
            pre.insert(0, 'X-Hop-Tag')
    return pre, suf


def is_subsequence(sub, seq):
    it = iter(seq)
    return all(any(x == y for y in it) for x in sub)


def first_field(header_data):
    """the first header field (with its continuation lines) of flatten()ed header bytes"""
    lines = header_data.split(b'\r\n')
    out = lines[:1]
    for l in lines[1:]:
        if l[:1] in (b' ', b'\t'):
            out.append(l)
        else:
            break
    return b'\r\n'.join(out)


def snapshot(e):
    return (e.sender, list(e.recipients), [(k, str(v)) for k, v in e.headers.items()], e.message, dict(e.client))


def raw_snapshot(e):
    """as snapshot, with the header fields as stored (no parsing of the values): for the before / after comparisons of the mutation probe"""
    return (e.sender, list(e.recipients), list(e.headers._headers), e.message, dict(e.client))


def run_case(ctx, chain, sender, rcpts, headers, body, mode):
    """returns canonical observation of the implementation and runs the property oracle"""
    case = dict(chain=[[k, rs] for k, rs in chain], sender=sender, rcpts=list(rcpts), headers=[list(h) for h in headers], body=body, mode=mode)
    env = build_envelope(sender, rcpts, headers, body)
    orig = dict(env=env, rcpts=env.recipients, headers=env.headers, client=env.client)
    orig_items = [(k, str(v)) for k, v in env.headers.items()]
    if orig_items != [(h[0], h[1]) for h in headers]:
        ctx.mismatch('header-block-parse', case, orig_items, [(h[0], h[1]) for h in headers])
    if type(env.headers) is EmailMessage:
        env.headers.__class__ = RecHeaders
    RecHeaders.log = log = []
    store = RecordingStore()
    q = Queue(store, NoopRelay() if mode == 'enqueue+relay' else None)
    for p in build_policies(chain):
        q.add_policy(p)
    written = None
    try:
        if mode == 'run_policies':
            written = q._run_policies(env)
        else:
            res = q.enqueue(env)
            written = list(store.written)
            if [e for e, _ in res] != written:
                fail(ctx, 'c16:enqueue-result-differs-from-written', case, 'enqueue() returned other envelopes than it wrote')
            if mode == 'enqueue+relay':
                gevent.sleep(0)
                gevent.idle()
    except Exception as ex:
        # an exception escaping policy application: nothing (or not everything) is written, recipients are lost
        fail(ctx, 'c16:policy-raises', case, '%s(%s) escaped %s; %d envelopes written, recipients %r lost' % (
            type(ex).__name__, ex, 'Queue._run_policies' if mode == 'run_policies' else 'Queue.enqueue', len(store.written),
            list(rcpts)))
    hit = added_although_present(log)
    if hit:
        fail(ctx, 'c16:date-or-message-id-added-although-present', case,
             'a policy assigned headers[%r] while the fields %r were present (present-but-empty counts as present)' % hit)
    if written is None:
        return None, case
    snaps = [snapshot(e) for e in written]
    # ---- canonical observation for the correspondence
    obs = []
    for e, (snd, rc, items, msg, _) in zip(written, snaps):
        masked = [(k, v if (k, v) in orig_items else '?') for k, v in items]
        obs.append(((e is orig['env'], e.recipients is orig['rcpts'], e.headers is orig['headers'], e.client is orig['client']),
                    snd, tuple(rc), tuple(masked), msg))
    # ---- property oracle
    fwd_rules = [rules_of(rs) for kind, rs in chain if kind == 'forward']
    want = []
    for r in rcpts:
        for rules in fwd_rules:
            r = fwd_one(rules, r)
        want.append(r)
    got = [r for s in snaps for r in s[1]]
    if collections.Counter(got) != collections.Counter(want):
        fail(ctx, 'c16:recipient-lost-or-duplicated', case, 'written recipients %r, expected (as a multiset) %r' % (sorted(got), sorted(want)))
    for s in snaps:
        if s[0] != sender or s[3] != body:
            fail(ctx, 'c16:sender-or-body-changed', case, 'written envelope has sender %r body %r' % (s[0], s[3]))
            break
    pre, suf = expected_names(chain, [k for k, _ in orig_items])
    for s in snaps:
        items = s[2]
        names = [k for k, _ in items]
        ok = (names == pre + [k for k, _ in orig_items] + suf and items[len(pre):len(pre) + len(orig_items)] == orig_items)
        if not ok:
            fail(ctx, 'c16:header-rule', case, 'headers %r, expected names %r around the original %r' % (items, (pre, suf), orig_items))
            break
    # a new Received header is placed first: when the last header-prepending policy of the chain is AddReceivedHeader, the
    # first field of every written envelope - in envelope.headers and in the flatten()ed bytes - is this hop's Received
    # field, and all original fields follow in their original relative order
    tops = [k for k, _ in chain if k in ('received', 'prepend')]
    if tops and tops[-1] == 'received':
        for e, s in zip(written, snaps):
            items = s[2]
            why = None
            if not items or items[0][0] != 'Received' or 'by recv.example (slimta' not in items[0][1] or items[0] in orig_items:
                why = 'first field of envelope.headers is %r' % (items[:1],)
            elif not is_subsequence(orig_items, items[1:]):
                why = 'the original fields do not follow the new Received field in their order'
            else:
                try:
                    hd = e.flatten()[0]
                except Exception as ex:
                    ctx.count('flatten-raised:%s' % type(ex).__name__)
                    hd = None
                if hd is not None:
                    ff = first_field(hd)
                    if not ff.startswith(b'Received:') or b'recv.example' not in ff:
                        why = 'first field of the flatten()ed message is %r' % (ff,)
            if why:
                pos = [i for i, it in enumerate(items) if it[0] == 'Received' and it not in orig_items]
                fail(ctx, 'c16:received-not-first', case, '%s; new Received field(s) at position(s) %r of %r' % (why, pos, [k for k, _ in items]))
                break
    # no shared mutable state: object identities, then a mutation probe
    shared = []
    for i, j in itertools.combinations(range(len(written)), 2):
        a, b = written[i], written[j]
        if a is b or a.recipients is b.recipients or a.headers is b.headers or a.client is b.client:
            shared.append((i, j))
    if not shared:
        raws = [raw_snapshot(e) for e in written]
        for i, e in enumerate(written):
            e.recipients.append('mutated@example.com')
            e.headers['X-Mutated'] = 'yes'
            e.client['mutated'] = True
            for j, o in enumerate(written):
                if j != i and raw_snapshot(o) != raws[j]:
                    shared.append((i, j))
            # undo
            e.recipients.pop()
            del e.headers['X-Mutated']
            del e.client['mutated']
            if raw_snapshot(e) != raws[i] or (len(written) <= 3 and snapshot(e) != snaps[i]):
                shared.append((i, i))
    if shared:
        fail(ctx, 'c16:shared-mutable-state', case, 'written envelopes %r share recipients / headers / client' % (shared[:5],))
    return obs, case


def model_obs(o):
    """model output -> same shape as the implementation observation"""
    failed, envs = o
    out = []
    for (eid, rid, hid, cid, snd, rc, hs, bd) in envs:
        out.append(((eid == 0, rid == 1, hid == 2, cid == 3), U(snd), tuple(U(r) for r in rc),
                    tuple((U(h[0]), U(h[1])) for h in hs), B(bd)))
    return failed, out


def run_cases(ctx, cases):
    jobs = []
    for (chain, sender, rcpts, headers, body, mode) in cases:
        jobs.append([sender, list(rcpts), [[h[0], h[1]] for h in headers], body, model_chain(chain), subn_table(chain, rcpts)])
    outs = ctx.model.batch('c16_run', jobs)
    for (chain, sender, rcpts, headers, body, mode), o in zip(cases, outs):
        kinds = [k for k, _ in chain]
        ctx.count('chain-length:%d' % len(chain))
        ctx.count('mode:' + mode)
        for k in set(kinds):
            ctx.count('policy:' + k)
        r = run_case(ctx, chain, sender, rcpts, headers, body, mode)
        nontriv = len(rcpts) > 1 and len(chain) > 0
        ctx.evaluated((tuple(chain), tuple(rcpts), tuple(headers), mode), nontrivial=nontriv)
        obs, case = r
        if obs is None:      # the implementation raised (reported as c16:policy-raises); the model has no such path
            ctx.mismatch('run_policies-implementation-raised', case, 'exception, see c16:policy-raises', dict(envelopes=model_obs(o)[1]))
            continue
        failed, mo = model_obs(o)
        ctx.count('outputs:%s' % (len(obs) if len(obs) < 5 else '5+'))
        if failed or obs != mo:
            ctx.mismatch('run_policies', case, obs, dict(failed=failed, envelopes=mo))
        if len(obs) > 1:
            ctx.sample(dict(chain=case['chain'], rcpts=case['rcpts'], written=[(x[2], [k for k, _ in x[3]]) for x in obs]), cap=4)


def all_chains(maxlen):
    for L in range(0, maxlen + 1):
        for kinds in itertools.product(KINDS, repeat=L):
            yield kinds


def run_domains(ctx):
    """RecipientDomainSplit._get_domain against the model, over the address pool and small strings"""
    pol = RecipientDomainSplit()
    addrs = list(RCPT_POOL) + [''.join(t) for L in range(0, 5) for t in itertools.product('a@X.', repeat=L)]
    outs = ctx.model.batch('c16_domain', addrs)
    for a, o in zip(addrs, outs):
        try:
            io = (pol._get_domain(a),)
        except ValueError:
            io = ()
        mo = tuple(U(x) for x in o)
        ctx.evaluations += 1
        if io != mo:
            ctx.mismatch('get_domain', dict(rcpt=a), io, mo)
    ctx.count('get_domain-cases', len(addrs))


FWD_ADDRS = ['postmaster@x.com', 'abuse@x.com', 'Postmaster@X.com', 'aa', 'x', 'plain', 'a.b@c.d', 'nobody@nowhere', 'ba@x.com', 'a@x.com.au']
FIXED_RCPTS = ['postmaster@x.com', 'a@x.com', 'b@x.com', 'a@x.com', 'c@X.COM', 'nodomain', 'd@y.org', 'abuse@x.com']


def run_forward(ctx):
    """Forward.apply directly: every rule set x every address of the pools.  Oracle stated per rule with re.subn's
    substitution COUNT: the first rule with changes > 0 and a non-empty result gives the recipient (also when that
    result is the same text: later rules are not consulted); no such rule: unchanged."""
    addrs = list(dict.fromkeys(RCPT_POOL + FWD_ADDRS))
    todo = [(rs, a) for rs in range(len(RULESETS)) for a in addrs]
    jobs = []
    for rs, a in todo:
        chain = [('forward', rs)]
        jobs.append(['s@example.com', [a], [], b'', model_chain(chain), subn_table(chain, [a])])
    outs = ctx.model.batch('c16_run', jobs)
    for (rs, a), o in zip(todo, outs):
        rules = RULESETS[rs]
        case = dict(chain=[['forward', rs]], sender='s@example.com', rcpts=[a], headers=[], body=b'', mode='forward-apply')
        f = build_policies([('forward', rs)])[0]
        env = Envelope('s@example.com', [a])
        lst = env.recipients
        ans = [re.subn(pat, repl, a, count) for pat, repl, count in rules]
        matched = [j for j, (new, n) in enumerate(ans) if new and n > 0]
        identity = bool(matched) and ans[matched[0]][0] == a
        ctx.count('forward-apply:' + ('identity-match-then-%s' % ('more-matching-rules' if len(matched) > 1 else 'nothing') if identity
                                      else 'rewritten' if matched else 'unmatched'))
        ctx.evaluated(('forward-apply', rs, a), nontrivial=len(matched) > 0)
        try:
            ret = f.apply(env)
        except Exception as ex:
            fail(ctx, 'c16:policy-raises', case, '%s(%s) escaped Forward.apply' % (type(ex).__name__, ex))
            continue
        if ret or env.recipients is not lst or len(lst) != 1:
            fail(ctx, 'c16:recipient-lost-or-duplicated', case, 'Forward.apply returned %r, recipients %r' % (ret, env.recipients))
            continue
        got = lst[0]
        if matched and got != ans[matched[0]][0]:
            j = matched[0]
            fail(ctx, 'c16:forward-first-matching-rule-does-not-win', case,
                 'rule %d %r matches %r (re.subn gives %r, %d substitutions%s) and is the first that does, but the recipient became %r' % (
                     j, rules[j][:1] + (getattr(rules[j][1], '__name__', rules[j][1]),), a, ans[j][0], ans[j][1],
                     ', the same text' if identity else '', got))
        elif not matched and got != a:
            fail(ctx, 'c16:forward-unmatched-recipient-changed', case, 'no rule matches %r but the recipient became %r' % (a, got))
        failed, mo = model_obs(o)
        if failed or len(mo) != 1 or mo[0][2] != (got,):
            ctx.mismatch('forward_apply', case, got, dict(failed=failed, envelopes=mo))
    ctx.count('forward-apply-cases', len(todo))


def chains_containing(kinds, maxlen, need):
    for L in range(1, maxlen + 1):
        for ks in itertools.product(kinds, repeat=L):
            if any(k in need for k in ks):
                yield ks


def identity_cases(rng):
    """every chain of length <= 3 over split / domain / Forward / received that contains Forward, for every rule set with a
    matching-but-identity rule: Forward before / after / between the split policies and repeated"""
    cases = []
    for rs in IDENTITY_RULESETS:
        for ks in chains_containing(['split', 'domain', 'forward', 'received'], 3, ['forward']):
            first = True
            chain = []
            for k in ks:
                if k == 'forward':
                    chain.append((k, rs if first else rng.choice([rs, rng.randrange(len(RULESETS))])))
                    first = False
                else:
                    chain.append((k, None))
            mode = rng.choice(['enqueue'] * 8 + ['run_policies', 'enqueue+relay'])
            rcpts = FIXED_RCPTS if rng.random() < 0.6 else gen_rcpts(rng)
            cases.append((chain, 'sender@example.com', list(rcpts), rng.choice(HEADER_SETS), b'body\r\n', mode))
    return cases


LONG_HEADER_CHAINS = [
    ['date', 'mid', 'date', 'split', 'mid', 'date', 'domain', 'date', 'mid'],
    ['received', 'domain', 'received', 'date', 'split', 'received', 'mid', 'date', 'mid'],
    ['split', 'split', 'date', 'date', 'mid', 'mid'],
    ['mid', 'domain', 'split', 'domain', 'date', 'received'],
]


def empty_header_cases(rng):
    """every chain of length <= 3 over split / domain / date / mid / received that contains date or mid (plus four long
    chains with repetitions) x every header block with a present-but-empty Date / Message-Id"""
    cases = []
    chains = list(chains_containing(['split', 'domain', 'date', 'mid', 'received'], 3, ['date', 'mid'])) + LONG_HEADER_CHAINS
    for hs in EMPTY_HEADER_SETS:
        for ks in chains:
            mode = rng.choice(['enqueue'] * 8 + ['run_policies', 'enqueue+relay'])
            rcpts = ['a@x.com', 'b@x.com', 'd@y.org'] if rng.random() < 0.6 else gen_rcpts(rng)
            cases.append(([(k, None) for k in ks], 'sender@example.com', list(rcpts), HEADER_SETS[hs], b'body\r\n', mode))
    return cases


def received_cases(rng):
    """every chain of length <= 3 over split / domain / received / date / mid containing AddReceivedHeader x every header block
    with an existing Received field (on top, below Return-Path / DKIM-Signature / X- fields, lower / upper case, interleaved)"""
    cases = []
    for hs in RECEIVED_HEADER_SETS:
        for ks in chains_containing(['split', 'domain', 'received', 'date', 'mid'], 3, ['received']):
            mode = rng.choice(['enqueue'] * 8 + ['run_policies', 'enqueue+relay'])
            rcpts = ['a@x.com', 'b@x.com', 'd@y.org'] if rng.random() < 0.6 else gen_rcpts(rng)
            cases.append(([(k, None) for k in ks], 'sender@example.com', list(rcpts), HEADER_SETS[hs], b'body\r\n', mode))
    return cases


PREPEND_CHAINS = [
    ['split', 'received', 'prepend', 'received'],
    ['received', 'prepend', 'received', 'split'],
    ['received', 'split', 'prepend', 'domain', 'received'],
    ['domain', 'received', 'prepend', 'received', 'date', 'mid'],
    ['received', 'prepend', 'prepend', 'received', 'prepend'],
    ['date', 'received', 'mid', 'prepend', 'split', 'received', 'received'],
]


def run_prepend_chains(ctx, rng):
    """implementation only (PrependTag is not in the model): AddReceivedHeader with another header-prepending policy before /
    after / between two applications, before and after the split policies; all oracles of run_case apply"""
    chains = [list(ks) for ks in chains_containing(['split', 'domain', 'received', 'prepend'], 3, ['received']) if 'prepend' in ks]
    chains += PREPEND_CHAINS
    n = 0
    for hs in [0, 1] + RECEIVED_HEADER_SETS:
        for ks in chains:
            chain = [(k, None) for k in ks]
            mode = rng.choice(['enqueue'] * 8 + ['run_policies'])
            rcpts = ['a@x.com', 'b@x.com', 'd@y.org', 'nodomain']
            run_case(ctx, chain, 'sender@example.com', rcpts, HEADER_SETS[hs], b'body\r\n', mode)
            ctx.evaluated((tuple(chain), tuple(rcpts), tuple(HEADER_SETS[hs]), mode), nontrivial=True)
            ctx.count('policy:prepend(test-only)')
            n += 1
    ctx.count('received-with-prepending-policy-cases(implementation only)', n)


# ------------------------------------------------------------------ several messages through ONE Queue / one list of policy objects
def envelope_obs(e, orig):
    """canonical observation of one written envelope (as in run_case); orig: the input envelope's objects and parsed fields"""
    items = [(k, str(v)) for k, v in e.headers.items()]
    masked = [(k, v if (k, v) in orig['items'] else '?') for k, v in items]
    return ((e is orig['env'], e.recipients is orig['rcpts'], e.headers is orig['headers'], e.client is orig['client']),
            e.sender, tuple(e.recipients), tuple(masked), e.message)


def make_input(m):
    env = build_envelope(m['sender'], m['rcpts'], [tuple(h) for h in m['headers']], m['body'])
    orig = dict(env=env, rcpts=env.recipients, headers=env.headers, client=env.client, items=[(k, str(v)) for k, v in env.headers.items()])
    return env, orig


def alone(chain, m):
    """what a NEW Queue with NEW policy objects writes for this message alone"""
    env, orig = make_input(m)
    store = RecordingStore()
    q = Queue(store)
    for p in build_policies(chain):
        q.add_policy(p)
    q.enqueue(env)
    return [envelope_obs(e, orig) for e in store.written]


def shared_objects(envs):
    """pairs of envelopes (indexes) that are or share an object"""
    out = []
    for i, j in itertools.combinations(range(len(envs)), 2):
        a, b = envs[i], envs[j]
        if a is b or a.recipients is b.recipients or a.headers is b.headers or a.client is b.client:
            out.append((i, j))
    return out


def msgs_model_obs(o):
    """c16_msgs output -> per message (failed, observations as envelope_obs)"""
    out = []
    n = 0
    for failed, nxt, envs in o:
        obs = [((eid == n, rid == n + 1, hid == n + 2, cid == n + 3), U(snd), tuple(U(r) for r in rc),
                tuple((U(h[0]), U(h[1])) for h in hs), B(bd)) for (eid, rid, hid, cid, snd, rc, hs, bd) in envs]
        out.append((failed, obs))
        n = nxt
    return out


def run_sequence(ctx, chain, msgs, model_out=None):
    """one Queue, the same policy objects, the messages one after the other.  Oracle: each message's written envelopes are what a
    new chain writes for it alone; no object shared between any two written envelopes of the whole sequence; nothing written for
    an earlier message changes while a later one is processed."""
    case = dict(mode='sequence', chain=[[k, rs] for k, rs in chain], messages=msgs)
    store = RecordingStore()
    q = Queue(store)
    for p in build_policies(chain):
        q.add_policy(p)
    per = []
    all_written = []
    raws = []
    for k, m in enumerate(msgs):
        env, orig = make_input(m)
        n0 = len(store.written)
        try:
            q.enqueue(env)
        except Exception as ex:
            fail(ctx, 'c16:policy-raises', case, '%s(%s) escaped Queue.enqueue of message %d of the sequence' % (type(ex).__name__, ex, k))
            return
        written = store.written[n0:]
        per.append([envelope_obs(e, orig) for e in written])
        all_written.extend(written)
        raws.extend(raw_snapshot(e) for e in written[:])
        raws_now = [raw_snapshot(e) for e in all_written]
        changed = [i for i in range(n0) if raws_now[i] != raws[i]]
        if changed:
            fail(ctx, 'c16:shared-mutable-state', case, 'processing message %d changed envelope(s) %r already written for earlier messages: '
                 'now %r' % (k, changed, [raws_now[i][1] for i in changed[:3]]))
            raws = raws_now
    for k, m in enumerate(msgs):
        want = alone(chain, m)
        if per[k] != want:
            fail(ctx, 'c16:policy-state-leaks-between-messages', case,
                 'message %d of the sequence (recipients %r) was written as %r; a new chain writes for it alone %r' % (
                     k, m['rcpts'], [(x[2], [h[0] for h in x[3]]) for x in per[k]], [(x[2], [h[0] for h in x[3]]) for x in want]))
            break
    sh = shared_objects(all_written)
    if not sh:
        base = [raw_snapshot(e) for e in all_written]
        for i, e in enumerate(all_written):
            e.recipients.append('mutated@example.com')
            e.headers['X-Mutated'] = 'yes'
            e.client['mutated'] = True
            sh.extend((i, j) for j, o in enumerate(all_written) if j != i and raw_snapshot(o) != base[j])
            e.recipients.pop()
            del e.headers['X-Mutated']
            del e.client['mutated']
    if sh:
        fail(ctx, 'c16:shared-mutable-state', case, 'envelopes %r written for the messages of one sequence (index over all of them, in order) '
             'are or share recipients / headers / client objects' % (sh[:5],))
    if model_out is not None:
        mo = msgs_model_obs(model_out)
        if any(f for f, _ in mo) or [o for _, o in mo] != per:
            ctx.mismatch('run_messages', case, per, mo)
    ctx.count('sequence-length:%d' % len(msgs))
    ctx.evaluated(('sequence', tuple(chain), tuple((m['sender'], tuple(m['rcpts']), tuple(tuple(h) for h in m['headers'])) for m in msgs)),
                  nontrivial=len(msgs) > 1)


SEQ_TAILS = [['forward'], ['received'], ['date', 'mid'], ['forward', 'received'], ['forward', 'forward'], []]
SEQ_RCPTS = [['a@x.com', 'd@y.org'], ['a@x.com', 'b@x.com', 'd@y.org', 'e@Y.org', 'nodomain'], ['a@x.com', 'a@x.com', 'c@X.COM'], ['d@y.org'],
             ['postmaster@x.com', 'u1@d1.example', 'u2@d2.example']]


def sequence_cases(rng, n_random):
    """chains with a split policy followed by Forward / header policies (and the reverse), 2-4 messages: the same multi-domain list
    again and again, different lists, A B A, same recipients with other headers"""
    chains = []
    for sk in ['split', 'domain', 'keepsplit']:
        for tail in SEQ_TAILS:
            chains.append([sk] + tail)
        chains.append(['forward', sk])
        chains.append(['received', sk, 'forward', 'date'])
    chains.append(['domain', 'split', 'forward'])
    chains.append(['split', 'domain', 'forward', 'mid'])
    cases = []

    def msg(i, rcpts, hs=None):
        return dict(sender='s%d@example.com' % i, rcpts=list(rcpts), headers=[list(h) for h in (HEADER_SETS[1] if hs is None else hs)],
                    body=b'body of message %d\r\n' % i)
    for ks in chains:
        for rsets in ([TAG_RULESET, TAG_RULESET], [5, TAG_RULESET], [rng.choice(IDENTITY_RULESETS), rng.randrange(len(RULESETS))]):
            it = iter(rsets)
            chain = [(k, next(it) if k == 'forward' else None) for k in ks]
            A, Bl = SEQ_RCPTS[0], SEQ_RCPTS[1]
            patterns = [[A, A], [A, A, A], [Bl, Bl], [A, Bl, A], [Bl, A, Bl, A], [rng.choice(SEQ_RCPTS) for _ in range(rng.randrange(2, 5))]]
            for pat in patterns:
                cases.append((chain, [msg(i, r, rng.choice(HEADER_SETS) if rng.random() < 0.3 else None) for i, r in enumerate(pat)]))
            if 'forward' not in ks:
                break
    for _ in range(n_random):
        L = rng.randrange(1, 6)
        chain = []
        for _ in range(L):
            k = rng.choice(KINDS + EXTRA_KINDS + ['forward', 'domain'])
            chain.append((k, rng.randrange(len(RULESETS)) if k == 'forward' else None))
        pool = [gen_rcpts(rng) for _ in range(2)]
        cases.append((chain, [msg(i, rng.choice(pool), rng.choice(HEADER_SETS)) for i in range(rng.randrange(2, 5))]))
    return cases


def run_sequences(ctx, rng):
    cases = sequence_cases(rng, 150 if ctx.quick else 3000)
    jobs = []
    for chain, msgs in cases:
        allr = [r for m in msgs for r in m['rcpts']]
        jobs.append([model_chain(chain), subn_table(chain, allr),
                     [[m['sender'], list(m['rcpts']), [[h[0], h[1]] for h in m['headers']], m['body']] for m in msgs]])
    outs = ctx.model.batch('c16_msgs', jobs)
    for (chain, msgs), o in zip(cases, outs):
        run_sequence(ctx, chain, msgs, o)
    ctx.count('state-across-messages-sequences', len(cases))


# ------------------------------------------------------------------ configuration calls interleaved with messages
RULE_POOL = [
    dict(pat=r'^a@x\.com$', repl='alias@y.org'),
    dict(pat=r'@y\.org$', repl='@archive.example'),
    dict(pat=r'@X\.COM$', flags=re.I, compiled=True, repl='@ci.example'),
    dict(pat=r'o', repl='0', count=1),
    dict(pat=r'^([^@]*)@', repl=r'\1+fwd@'),
    dict(pat=r'^nodomain$', compiled=True, repl='fixed@z.net'),
    dict(pat=r'@x\.com$', fn=True, repl='<same text>'),
    dict(pat=r'(?i)^B@', repl='bee@'),
    dict(pat=r'^$', repl='empty@was.here'),
    dict(pat=r'\.', repl='-', count=2, compiled=True),
]
DATE_FORMATS = ['%a, %d %b %Y %H:%M:%S +0000', '%Y-%m-%d', 'on %d.%m.%Y at %H:%M']
HOSTNAMES = ['mid.example', 'other.example', 'third.example']
CFG_RCPTS = [['a@x.com', 'd@y.org'], ['b@x.com', 'c@X.COM', 'nodomain', 'e@Y.org'], ['a@x.com', 'B@x.com', 'f@Y.Org', ''], ['nodomain']]
CFG_CHAINS = [['forward'], ['split', 'forward'], ['forward', 'domain'], ['domain', 'forward', 'received', 'mid'], ['received', 'forward', 'split'],
              ['forward', 'forward'], ['forward', 'split', 'forward', 'date'], ['received', 'mid'], ['domain', 'received', 'received']]
_UUID = re.compile(r'<[0-9a-f]{32}\.')


def full_obs(e, orig):
    """as envelope_obs with the generated header texts kept (the uuid of a Message-Id masked): they depend on the configuration"""
    items = tuple((k, _UUID.sub('<UUID.', str(v))) for k, v in e.headers.items())
    return ((e is orig['env'], e.recipients is orig['rcpts'], e.headers is orig['headers'], e.client is orig['client']),
            e.sender, tuple(e.recipients), items, e.message)


def cfg_scripts(rng, n_random):
    """scripts: ['rule', position in the chain, rule] / ['set', position, attribute, value] / ['msg', message]"""
    out = []

    def msg(i, rcpts):
        return dict(sender='s%d@example.com' % i, rcpts=list(rcpts), headers=[['Subject', 'message %d' % i]], body=b'body of message %d\r\n' % i)
    for ks in CFG_CHAINS:
        fpos = [i for i, k in enumerate(ks) if k == 'forward']
        rpos = [i for i, k in enumerate(ks) if k == 'received']
        mpos = [i for i, k in enumerate(ks) if k == 'mid']
        shapes = []
        if fpos:
            f0, f1 = fpos[0], fpos[-1]
            # configure, use, add a rule, use; first use with no rule at all; a rule after every message; rules added to two Forwards in turn
            shapes.append([('rule', f0, 0), ('msg', 0), ('rule', f1, 1), ('msg', 0), ('msg', 1), ('rule', f0, 2), ('msg', 1), ('msg', 2)])
            shapes.append([('msg', 0), ('rule', f0, 1), ('msg', 0), ('rule', f1, 0), ('msg', 0)])
            shapes.append([('rule', f0, 3), ('rule', f0, 4), ('msg', 2), ('rule', f1, 5), ('msg', 1), ('rule', f0, 7), ('msg', 2), ('rule', f1, 8), ('msg', 2)])
            shapes.append([('rule', f1, 6), ('msg', 0), ('rule', f0, 0), ('msg', 0), ('rule', f1, 9), ('msg', 1)])
        if rpos or mpos:
            sh = [('msg', 0)]
            for j in (1, 2):
                for p in rpos:
                    sh.append(('set', p, 'date_format', DATE_FORMATS[j]))
                for p in mpos:
                    sh.append(('set', p, 'hostname', HOSTNAMES[j]))
                sh.append(('msg', j % 2))
            shapes.append(sh)
        for sh in shapes:
            script = []
            n = 0
            for st in sh:
                if st[0] == 'rule':
                    script.append(['rule', st[1], RULE_POOL[st[2]]])
                elif st[0] == 'set':
                    script.append(['set', st[1], st[2], st[3]])
                else:
                    script.append(['msg', msg(n, CFG_RCPTS[st[1]])])
                    n += 1
            out.append((ks, script))
    for _ in range(n_random):
        ks = rng.choice(CFG_CHAINS[:7])
        fpos = [i for i, k in enumerate(ks) if k == 'forward']
        script = []
        n = 0
        for _ in range(rng.randrange(3, 9)):
            if rng.random() < 0.5:
                script.append(['rule', rng.choice(fpos), rng.choice(RULE_POOL)])
            else:
                script.append(['msg', msg(n, rng.choice(CFG_RCPTS + [gen_rcpts(rng)]))])
                n += 1
        if n:
            out.append((ks, script))
    return out


def snapshot_chain(ks, cfg):
    return [(k, list(cfg[i]) if k == 'forward' else cfg.get(i)) for i, k in enumerate(ks)]


def run_reconfig_script(ctx, ks, script, model_out=None):
    """one Queue; configuration calls on its policy objects between the messages.  Oracle: every message is written exactly as by a NEW
    chain configured with what had been configured when it arrived (Forward: the rules added so far, in order)."""
    case = dict(mode='reconfig', chain=[[k, None] for k in ks], script=script)
    store = RecordingStore()
    q = Queue(store)
    pols = build_policies([(k, [] if k == 'forward' else None) for k in ks])
    for p in pols:
        q.add_policy(p)
    cfg = dict((i, []) for i, k in enumerate(ks) if k == 'forward')
    used = False
    changed_after_use = dict(rule=False, set=False)
    per = []
    k = 0
    for st in script:
        try:
            if st[0] == 'rule':
                pat, repl, count = to_rule(st[2])
                if count:
                    pols[st[1]].add_mapping(pat, repl, count)
                else:
                    pols[st[1]].add_mapping(pat, repl)
                cfg[st[1]].append(st[2])
                changed_after_use['rule'] |= used
                continue
            if st[0] == 'set':
                setattr(pols[st[1]], st[2], st[3])
                cfg[st[1]] = st[3]
                changed_after_use['set'] |= used
                continue
            m = st[1]
            env, orig = make_input(m)
            n0 = len(store.written)
            q.enqueue(env)
        except Exception as ex:
            fail(ctx, 'c16:policy-raises', case, '%s(%s) escaped step %r of the script' % (type(ex).__name__, ex, st[:2]))
            return
        used = True
        written = store.written[n0:]
        got = [full_obs(e, orig) for e in written]
        per.append([envelope_obs(e, orig) for e in written])
        chain_now = snapshot_chain(ks, cfg)
        env2, orig2 = make_input(m)
        store2 = RecordingStore()
        q2 = Queue(store2)
        for p in build_policies(chain_now):
            q2.add_policy(p)
        q2.enqueue(env2)
        want = [full_obs(e, orig2) for e in store2.written]
        # independent statement for the recipients: first matching rule of the rules added so far
        exp = []
        for r in m['rcpts']:
            for i, kk in enumerate(ks):
                if kk == 'forward':
                    r = fwd_one(rules_of(cfg[i]), r)
            exp.append(r)
        got_r = [r for x in got for r in x[2]]
        if collections.Counter(got_r) != collections.Counter(exp) or [x[2] for x in got] != [x[2] for x in want]:
            differs_from_new = [x[2] for x in got] != [x[2] for x in want]
            key = ('c16:rule-added-after-first-use-ignored' if changed_after_use['rule'] and differs_from_new
                   else 'c16:policy-state-leaks-between-messages' if differs_from_new else 'c16:recipient-lost-or-duplicated')
            fail(ctx, key, case, 'message %d (recipients %r) with the rules %r in force was written to %r; a new policy with these rules writes %r' % (
                k, m['rcpts'], [[(sp['pat'], sp['repl']) for sp in cfg[i]] for i in sorted(cfg) if ks[i] == 'forward'], [x[2] for x in got], [x[2] for x in want]))
        elif got != want:
            key = 'c16:configuration-change-after-first-use-ignored' if changed_after_use['set'] else 'c16:policy-state-leaks-between-messages'
            fail(ctx, key, case, 'message %d was written with the headers %r; a new chain configured as this one is now writes %r' % (
                k, [x[3] for x in got], [x[3] for x in want]))
        k += 1
    if model_out is not None:
        mo = msgs_model_obs(model_out)
        if any(f for f, _ in mo) or [o for _, o in mo] != per:
            ctx.mismatch('run_configured', case, per, mo)
    ctx.evaluated(('reconfig', tuple(ks), repr(script)), nontrivial=changed_after_use['rule'] or changed_after_use['set'])
    ctx.count('reconfig:%s' % ('rule-after-first-use' if changed_after_use['rule'] else 'attribute-after-first-use' if changed_after_use['set']
                               else 'no-change-after-first-use'))


def cfg_model_job(ks, script):
    """(subn table over the final rule lists, [(chain snapshot, message) ...]) for c16_cfg"""
    final = dict((i, []) for i, k in enumerate(ks) if k == 'forward')
    for st in script:
        if st[0] == 'rule':
            final[st[1]].append(st[2])
    allr = [r for st in script if st[0] == 'msg' for r in st[1]['rcpts']]
    table = subn_table([(k, final.get(i)) for i, k in enumerate(ks)], allr)
    cfg = dict((i, []) for i in final)
    cms = []
    for st in script:
        if st[0] == 'rule':
            cfg[st[1]].append(st[2])
        elif st[0] == 'msg':
            m = st[1]
            cms.append([model_chain(snapshot_chain(ks, cfg)), [m['sender'], list(m['rcpts']), [[h[0], h[1]] for h in m['headers']], m['body']]])
    return [table, cms]


def run_reconfig(ctx, rng):
    scripts = cfg_scripts(rng, 120 if ctx.quick else 3000)
    outs = ctx.model.batch('c16_cfg', [cfg_model_job(ks, sc) for ks, sc in scripts])
    for (ks, sc), o in zip(scripts, outs):
        run_reconfig_script(ctx, ks, sc, o)
    ctx.count('configuration-interleaved-with-messages-scripts', len(scripts))


# ------------------------------------------------------------------ concurrent enqueue calls on ONE Queue
def guarded_enqueue(q, env):
    """Queue.enqueue in its own greenlet; an exception is a result, not a traceback on stderr"""
    try:
        return ('ok', q.enqueue(env))
    except Exception as ex:
        return ('raised', ex)


def run_schedule(chain, msgs, prefix):
    """the messages are enqueued by one greenlet each on one Queue; GatePolicy parks; at every point where more than one
    greenlet can go on, the next choice of `prefix` (then 0) says which.  Returns (per-message result, choices made, store, inputs)"""
    sched = Sched()
    store = RecordingStore()
    q = Queue(store)
    for p in build_policies(chain):
        if isinstance(p, GatePolicy):
            p.sched = sched
        q.add_policy(p)
    inputs = [make_input(m) for m in msgs]
    n = len(msgs)
    gl = [None] * n
    done = [False] * n
    branch = []
    stuck = False
    while not all(done):
        runnable = [i for i in range(n) if not done[i]]
        if len(runnable) > 1:
            c = prefix[len(branch)] if len(branch) < len(prefix) else 0
            c = min(c, len(runnable) - 1)
            branch.append((c, len(runnable)))
            i = runnable[c]
        else:
            i = runnable[0]
        sched.changed.clear()
        if gl[i] is None:
            gl[i] = gevent.spawn(guarded_enqueue, q, inputs[i][0])
            gl[i].link(lambda g: sched.changed.set())
        else:
            sched.parked.pop(gl[i]).set()
        if not sched.changed.wait(timeout=5):
            stuck = True
            break
        if gl[i].ready() and gl[i] not in sched.parked:
            done[i] = True
    if stuck:
        gevent.killall([g for g in gl if g is not None], block=True, timeout=1)
        return None, branch, store, inputs
    return [g.value for g in gl], branch, store, inputs


def judge_concurrent(ctx, chain, msgs, res, store, inputs, want, case):
    returned = []
    for k, (tag, val) in enumerate(res):
        if tag == 'raised':
            fail(ctx, 'c16:policy-raises', case, '%s(%s) escaped Queue.enqueue of message %d while another enqueue call was in progress' % (
                type(val).__name__, val, k))
            continue
        envs = [e for e, _ in val]
        returned.extend(envs)
        got = [envelope_obs(e, inputs[k][1]) for e in envs]
        if got != want[k]:
            fail(ctx, 'c16:concurrent-enqueue-mixes-messages', case,
                 'message %d (sender %r recipients %r): its enqueue call wrote %r; alone it is written as %r' % (
                     k, msgs[k]['sender'], msgs[k]['rcpts'], [(x[1], x[2], x[4]) for x in got], [(x[1], x[2], x[4]) for x in want[k]]))
            return
    if all(t == 'ok' for t, _ in res):
        if sorted(map(id, returned)) != sorted(map(id, store.written)):
            fail(ctx, 'c16:enqueue-result-differs-from-written', case, 'the enqueue calls together returned other envelopes than were written')
        sh = shared_objects(store.written)
        if sh:
            fail(ctx, 'c16:shared-mutable-state', case, 'envelopes %r written by concurrent enqueue calls are or share objects' % (sh[:5],))
        got_r = collections.Counter(r for e in store.written for r in e.recipients)
        want_r = collections.Counter(r for w in want for x in w for r in x[2])
        if got_r != want_r:
            fail(ctx, 'c16:recipient-lost-or-duplicated', case, 'recipients written by the concurrent enqueue calls %r, expected %r' % (
                sorted(got_r.elements()), sorted(want_r.elements())))


CONC_CHAINS = [
    ['gate'], ['gate', 'split', 'received'], ['split', 'gate', 'received'], ['split', 'received', 'gate'],
    ['domain', 'gate', 'forward'], ['gate', 'forward', 'domain'], ['forward', 'split', 'gate', 'date'],
    ['domain', 'gate', 'split', 'gate', 'mid'], ['received', 'gate'], ['forward', 'gate', 'forward', 'split'],
    ['split', 'gate', 'forward', 'gate'],
]
CONC_MSGS = [
    [['a@x.com', 'b@x.com'], ['d@y.org', 'e@Y.org']],
    [['a@x.com', 'd@y.org'], ['a@x.com', 'd@y.org']],
    [['a@x.com'], ['b@x.com', 'd@y.org', 'nodomain']],
]


def conc_msg(i, rcpts):
    return dict(sender='s%d@example.com' % i, rcpts=list(rcpts), headers=[['Subject', 'message %d' % i]], body=b'body of message %d\r\n' % i)


def run_concurrent(ctx, rng):
    """two enqueue calls in progress at once on one Queue, a yielding policy at the first / a middle / the last position of chains with
    the split policies and Forward: EVERY interleaving at the gates (capped); three messages: a sample of interleavings, and
    gevent.sleep(0) policies with gevent's own scheduling.  Oracle per message: what it is written as alone."""
    cap = 300 if ctx.quick else 5000      # two messages: every chain / message pair below has at most 252 interleavings
    n_runs = 0
    capped = 0
    todo = []
    for ks in CONC_CHAINS:
        for rl in CONC_MSGS:
            todo.append((ks, rl, cap))
    for ks in CONC_CHAINS[1:7]:
        todo.append((ks, [['a@x.com', 'b@x.com'], ['d@y.org', 'e@Y.org'], ['a@x.com', 'd@y.org']], 60 if ctx.quick else 2000))
    jobs = []
    for ks, rl, _ in todo:
        chain = [(k, rng.choice([TAG_RULESET, 5, 2]) if k == 'forward' else None) for k in ks]
        msgs = [conc_msg(i, r) for i, r in enumerate(rl)]
        jobs.append((chain, msgs))
    mjobs = [[m['sender'], list(m['rcpts']), [[h[0], h[1]] for h in m['headers']], m['body'], model_chain(chain), subn_table(chain, m['rcpts'])]
             for chain, msgs in jobs for m in msgs]
    mouts = iter(ctx.model.batch('c16_run', mjobs))
    for (chain, msgs), (_, _, c) in zip(jobs, todo):
        want = [alone(chain, m) for m in msgs]
        for m, w in zip(msgs, want):
            failed, mo = model_obs(next(mouts))
            if failed or mo != w:
                ctx.mismatch('run_policies', dict(chain=[[k, rs] for k, rs in chain], sender=m['sender'], rcpts=m['rcpts'], headers=m['headers'],
                                                  body=m['body'], mode='enqueue'), w, dict(failed=failed, envelopes=mo))
        stack = [[]]
        seen = 0
        while stack and seen < c:
            prefix = stack.pop()
            res, branch, store, inputs = run_schedule(chain, msgs, prefix)
            seen += 1
            n_runs += 1
            choices = [b[0] for b in branch]
            case = dict(mode='concurrent', chain=[[k, rs] for k, rs in chain], messages=msgs, schedule=choices)
            if res is None:
                ctx.note('concurrent stream: schedule %r of chain %r did not come to an end within the guard time' % (choices, chain))
                ctx.count('concurrent-schedule-stuck')
            else:
                judge_concurrent(ctx, chain, msgs, res, store, inputs, want, case)
            ctx.evaluated(('concurrent', tuple(chain), tuple(tuple(m['rcpts']) for m in msgs), tuple(choices)), nontrivial=len(branch) > 0)
            for pos in range(len(prefix), len(branch)):
                for alt in range(branch[pos][0] + 1, branch[pos][1]):
                    stack.append(choices[:pos] + [alt])
        if stack:
            capped += 1
        ctx.count('concurrent-messages:%d' % len(msgs))
    # gevent's own scheduling: policies that sleep(0), three enqueue greenlets started together
    for ks in [['yield', 'split', 'received'], ['split', 'yield', 'forward'], ['domain', 'yield', 'received', 'yield'], ['split', 'forward', 'yield']]:
        chain = [(k, TAG_RULESET if k == 'forward' else None) for k in ks]
        msgs = [conc_msg(i, r) for i, r in enumerate([['a@x.com', 'b@x.com'], ['d@y.org', 'e@Y.org', 'f@Y.Org'], ['a@x.com', 'd@y.org']])]
        want = [alone(chain, m) for m in msgs]
        store = RecordingStore()
        q = Queue(store)
        for p in build_policies(chain):
            q.add_policy(p)
        inputs = [make_input(m) for m in msgs]
        gl = [gevent.spawn(guarded_enqueue, q, env) for env, _ in inputs]
        gevent.joinall(gl, timeout=5)
        res = [g.value for g in gl]
        case = dict(mode='concurrent', chain=[[k, rs] for k, rs in chain], messages=msgs, schedule='gevent')
        if any(not g.ready() for g in gl):
            gevent.killall(gl, block=True, timeout=1)
            ctx.count('concurrent-schedule-stuck')
        else:
            judge_concurrent(ctx, chain, msgs, res, store, inputs, want, case)
        ctx.evaluated(('concurrent-gevent', tuple(chain)), nontrivial=True)
        n_runs += 1
    ctx.count('concurrent-enqueue-runs', n_runs)
    ctx.count('concurrent-cases-with-all-interleavings', len(todo) - capped)
    ctx.count('concurrent-cases-capped', capped)


def probe_generator(ctx):
    class GenSplit(QueuePolicy):
        def apply(self, envelope):
            return (envelope.copy([r]) for r in envelope.recipients)
    store = RecordingStore()
    q = Queue(store)
    q.add_policy(GenSplit())
    q.add_policy(AddReceivedHeader())
    q.enqueue(build_envelope('s@example.com', ['a@x.com', 'b@y.org'], [], b'x'))
    if any('Received' not in e.headers for e in store.written):
        ctx.note('a policy returning a generator instead of a list makes _run_policies skip the later policies for its outputs '
                 '(the generator is consumed by results.extend); outside the stated quantifier, not judged')


def run(ctx):
    rng = ctx.rng
    ctx.extra['rule'] = (
        'every chain of length 0..4 over the six built-in policies (1555 chains; Forward with a rule set drawn from 20 sets: first-match, '
        'count-limited, empty-result, case rules, back-references, and 9 sets with a rule that MATCHES but reproduces the same text - whole '
        'address / domain only / with count / repl function, before and after other matching rules, as the only and as the last rule) x '
        'recipient lists (duplicates, mixed-case / missing / empty domains, many domains, empty list) x 24 original header blocks (none, '
        'Date / date / MESSAGE-ID / Received present, and 9 with a present-but-EMPTY / whitespace-only / oddly capitalised Date or Message-Id, '
        'also below other fields) through the real '
        'Queue.enqueue with a recording store (a sample through Queue._run_policies directly and through enqueue with a no-op relay); '
        'random chains to length 6 over the six policies plus two test-only policies returning their input; compared with the model: the list of '
        'envelopes passed to store.write in order (which of them are the input objects, sender, recipients, header (name, value) list with '
        'generated values masked, body); oracle: multiset of recipients = rewritten originals, sender / body, header rules, pairwise distinct '
        'objects + mutation probe; every header assignment made by a policy is recorded (headers object given a recording subclass): '
        'Date / Message-Id assigned while such a field is present = failure; an exception escaping enqueue / _run_policies = failure '
        '(c16:policy-raises), the run goes on.  Systematic streams: Forward.apply alone on every rule set x every pool address (judged per '
        'rule with re.subn counts: first rule with changes > 0 and non-empty result wins even when the text is unchanged); every chain of '
        'length <= 3 over split/domain/Forward/received containing Forward x the 9 identity rule sets; every chain of length <= 3 over '
        'split/domain/date/mid/received containing date or mid (+ 4 long chains with repetitions) x the 9 empty-header blocks; every chain '
        'of length <= 3 over split/domain/received/date/mid containing received x 9 header blocks with an existing Received field (on top, '
        'below Return-Path / DKIM-Signature / X- fields, lower / upper / mixed case, several interleaved with other fields, last); '
        'implementation only: chains with a test-only header-prepending policy before / after / between AddReceivedHeader applications and '
        'the split policies.  Oracle c16:received-not-first: when the last prepending policy of the chain is AddReceivedHeader the first '
        'field of every written envelope, in envelope.headers and in the flatten()ed bytes, is this hop\'s Received field and the original '
        'fields follow in their order.  '
        'STATE ACROSS MESSAGES: one Queue / the same policy objects handling 2-4 messages one after the other (the same multi-domain '
        'recipient list again and again, different lists, A B A, other headers; a split policy followed by Forward - incl. a rule whose '
        'output still matches it - / header policies, and random chains), compared with the model (c16_msgs) and judged: every message is '
        'written as a NEW chain writes it alone (c16:policy-state-leaks-between-messages), nothing written earlier changes later, no '
        'object shared between any two envelopes of the sequence (identity + mutation probe).  CONFIGURATION INTERLEAVED WITH MESSAGES: '
        'scripts rule, msgs, rule, msgs ... on one Queue: Forward.add_mapping (string and pre-compiled patterns, flags, count, repl '
        'function; on a policy that has not / has already handled messages, also starting with no rule; two Forwards in turn) and the '
        'public attributes AddReceivedHeader.date_format / AddMessageIdHeader.hostname set between messages (the split policies and '
        'AddDateHeader have no configuration); every message compared - generated header texts included, uuid masked - with a NEW chain '
        'configured with exactly what had been configured at that moment, with re.subn over the rules added so far, and with the model '
        '(c16_cfg: run_configured, per-message chain snapshot); keys c16:rule-added-after-first-use-ignored, '
        'c16:configuration-change-after-first-use-ignored.  CONCURRENCY: two enqueue calls in progress '
        'at once on one Queue with a test-only yielding policy (parks at a harness gate) at the first / a middle / the last position '
        'of chains with the split policies and Forward: EVERY interleaving at the gates (<= 252 per case); three messages: up to 60 '
        'interleavings per case; three greenlets with gevent.sleep(0) policies under gevent\'s own scheduling; oracle per message: what '
        'its enqueue call returned / wrote = what it is written as alone (c16:concurrent-enqueue-mixes-messages).  '
        'non-trivial = more than one recipient and a non-empty chain (Forward.apply stream: some rule matches; sequences: > 1 message; '
        'concurrent: at least one scheduling choice)')
    _reported.clear()
    run_domains(ctx)
    run_forward(ctx)
    ident = identity_cases(rng)
    empties = empty_header_cases(rng)
    ctx.count('identity-rule-chain-cases', len(ident))
    ctx.count('empty-date-or-message-id-chain-cases', len(empties))
    recvd = received_cases(rng)
    ctx.count('existing-received-field-chain-cases', len(recvd))
    cases = ident + empties + recvd
    reps = 2 if ctx.quick else 12
    for kinds in all_chains(4):
        for _ in range(reps):
            chain = [(k, rng.randrange(len(RULESETS)) if k == 'forward' else None) for k in kinds]
            mode = rng.choice(['enqueue'] * 8 + ['run_policies', 'enqueue+relay'])
            cases.append((chain, 'sender@example.com', gen_rcpts(rng), rng.choice(HEADER_SETS), rng.choice([b'body\r\n', b'', b'\xff\x00 8bit\r\n.\r\n']), mode))
    for _ in range(1500 if ctx.quick else 20000):
        L = rng.randrange(1, 7)
        chain = []
        for _ in range(L):
            k = rng.choice(KINDS + EXTRA_KINDS + ['forward'])
            chain.append((k, rng.randrange(len(RULESETS)) if k == 'forward' else None))
        mode = rng.choice(['enqueue'] * 8 + ['run_policies', 'enqueue+relay'])
        cases.append((chain, rng.choice(['sender@example.com', '', 'S@Example.COM']), gen_rcpts(rng), rng.choice(HEADER_SETS), b'body\r\n', mode))
    run_cases(ctx, cases)
    run_prepend_chains(ctx, rng)
    run_sequences(ctx, rng)
    run_reconfig(ctx, rng)
    run_concurrent(ctx, rng)
    probe_generator(ctx)
    ctx.extra['exhaustive'] = True
    ctx.extra['exhaustive_bound'] = ('all 1555 chains of length <= 4 over the six built-in policies (each with %d generated recipient lists / header sets); '
                                     'recipient lists, rule sets and longer chains are sampled' % reps)
    ctx.extra['trusted_base'] = ['re.subn (Section variable subn; answers supplied to the model as a table computed with the running re)',
                                 'str.lower on domains modelled as ASCII lower-casing']


def replay_messages(ctx, c, chain, msgs):
    """replay of a state-across-messages sequence or of one interleaving of concurrent enqueue calls"""
    def show(obs):
        return [(x[1], list(x[2]), [h[0] for h in x[3]], x[4], 'input-object' if x[0][0] else 'copy') for x in obs]
    print('chain:', chain)
    for k, rs in chain:
        if k == 'forward':
            print('  forward rules:', [(pat, getattr(repl, '__name__', repl), count) for pat, repl, count in rules_of(rs)])
    want = [alone(chain, m) for m in msgs]
    if c['mode'] == 'sequence':
        print('ONE Queue, the same policy objects, %d messages one after the other' % len(msgs))
        store = RecordingStore()
        q = Queue(store)
        for p in build_policies(chain):
            q.add_policy(p)
        allw = []
        for k, m in enumerate(msgs):
            env, orig = make_input(m)
            n0 = len(store.written)
            print('message %d: sender %r recipients %r' % (k, m['sender'], m['rcpts']))
            try:
                q.enqueue(env)
            except Exception as ex:
                print('  Queue.enqueue RAISED %s(%s)' % (type(ex).__name__, ex))
                break
            got = [envelope_obs(e, orig) for e in store.written[n0:]]
            print('  written          :', show(got))
            print('  alone (new chain):', show(want[k]), '' if got == want[k] else '   <-- DIFFERENT')
            allw = list(store.written)
            print('  recipients of everything written so far:', [e.recipients for e in allw])
        sh = shared_objects(allw)
        if sh:
            print('envelopes (index over all written) that are / share an object:', sh)
    else:
        sched = c['schedule']
        print('ONE Queue, %d enqueue calls in progress at once; choices at the points where more than one can go on: %r' % (len(msgs), sched))
        if sched == 'gevent':
            store = RecordingStore()
            q = Queue(store)
            for p in build_policies(chain):
                q.add_policy(p)
            inputs = [make_input(m) for m in msgs]
            gl = [gevent.spawn(guarded_enqueue, q, env) for env, _ in inputs]
            gevent.joinall(gl, timeout=5)
            res = [g.value for g in gl]
        else:
            res, branch, store, inputs = run_schedule(chain, msgs, list(sched))
        for k, m in enumerate(msgs):
            print('message %d: sender %r recipients %r' % (k, m['sender'], m['rcpts']))
            if res is None or res[k] is None:
                print('  did not finish')
            elif res[k][0] == 'raised':
                print('  Queue.enqueue RAISED %s(%s)' % (type(res[k][1]).__name__, res[k][1]))
            else:
                got = [envelope_obs(e, inputs[k][1]) for e, _ in res[k][1]]
                print('  its enqueue wrote :', show(got))
                print('  alone            :', show(want[k]), '' if got == want[k] else '   <-- DIFFERENT')
        print('store.write calls in order:', [(e.sender, e.recipients) for e in store.written])
    if ctx.model:
        allr = [r for m in msgs for r in m['rcpts']]
        o = ctx.model.call('c16_msgs', [model_chain(chain), subn_table(chain, allr),
                                        [[m['sender'], list(m['rcpts']), [[h[0], h[1]] for h in m['headers']], m['body']] for m in msgs]])
        print('model (messages one after the other):', [(f, show(ob)) for f, ob in msgs_model_obs(o)])
    return 0


def replay_reconfig(ctx, c):
    """replay of a script of configuration calls and messages on one Queue"""
    def unhex(x):
        return bytes.fromhex(x['hex']) if isinstance(x, dict) else x
    ks = [k for k, _ in c['chain']]
    script = [st if st[0] != 'msg' else ['msg', dict(st[1], body=unhex(st[1]['body']))] for st in c['script']]
    print('chain (ONE Queue, the same policy objects throughout):', ks)
    store = RecordingStore()
    q = Queue(store)
    pols = build_policies([(k, [] if k == 'forward' else None) for k in ks])
    for p in pols:
        q.add_policy(p)
    cfg = dict((i, []) for i, k in enumerate(ks) if k == 'forward')
    for st in script:
        if st[0] == 'rule':
            pat, repl, count = to_rule(st[2])
            print('policy %d (%s).add_mapping(%r, %r, %r)' % (st[1], ks[st[1]], pat, getattr(repl, '__name__', repl), count))
            pols[st[1]].add_mapping(pat, repl, count)
            cfg[st[1]].append(st[2])
        elif st[0] == 'set':
            print('policy %d (%s).%s = %r' % (st[1], ks[st[1]], st[2], st[3]))
            setattr(pols[st[1]], st[2], st[3])
            cfg[st[1]] = st[3]
        else:
            m = st[1]
            env, orig = make_input(m)
            n0 = len(store.written)
            print('message: sender %r recipients %r' % (m['sender'], m['rcpts']))
            try:
                q.enqueue(env)
            except Exception as ex:
                print('  Queue.enqueue RAISED %s(%s)' % (type(ex).__name__, ex))
                break
            got = [full_obs(e, orig) for e in store.written[n0:]]
            env2, orig2 = make_input(m)
            store2 = RecordingStore()
            q2 = Queue(store2)
            for p in build_policies(snapshot_chain(ks, cfg)):
                q2.add_policy(p)
            q2.enqueue(env2)
            want = [full_obs(e, orig2) for e in store2.written]
            print('  written                          :', [(list(x[2]), list(x[3])) for x in got])
            print('  new chain, same configuration    :', [(list(x[2]), list(x[3])) for x in want], '' if got == want else '   <-- DIFFERENT')
    if ctx.model:
        o = ctx.model.call('c16_cfg', cfg_model_job(ks, script))
        print('model (each message with the chain as configured at its moment):', [(f, [list(x[2]) for x in ob]) for f, ob in msgs_model_obs(o)])
    return 0


def replay(ctx, case):
    c = case.get('case', case)

    def unhex(x):
        return bytes.fromhex(x['hex']) if isinstance(x, dict) else x
    chain = [(k, rs) for k, rs in c['chain']]
    if c.get('mode') == 'reconfig':
        return replay_reconfig(ctx, c)
    if c.get('mode') in ('sequence', 'concurrent'):
        return replay_messages(ctx, c, chain, [dict(m, body=unhex(m['body'])) for m in c['messages']])
    headers = [tuple(h) for h in c['headers']]
    body = unhex(c['body'])
    env = build_envelope(c['sender'], c['rcpts'], headers, body)
    print('chain:', chain)
    for k, rs in chain:
        if k == 'forward':
            print('  forward rules:', [(pat, getattr(repl, '__name__', repl), count) for pat, repl, count in rules_of(rs)])
            for r in c['rcpts']:
                print('    %r -> re.subn per rule: %r' % (r, [re.subn(pat, repl, r, count) for pat, repl, count in RULESETS[rs]]))
    print('input recipients:', c['rcpts'])
    print('input headers:', [(k, str(v)) for k, v in env.headers.items()])
    if type(env.headers) is EmailMessage:
        env.headers.__class__ = RecHeaders
    RecHeaders.log = log = []
    store = RecordingStore()
    q = Queue(store)
    for p in build_policies(chain):
        q.add_policy(p)
    try:
        q.enqueue(env)
    except Exception as ex:
        print('Queue.enqueue RAISED %s(%s); %d envelopes written' % (type(ex).__name__, ex, len(store.written)))
    hit = added_although_present(log)
    if hit:
        print('a policy assigned headers[%r] while the fields %r were present' % hit)
    for e in store.written:
        print('written:', e.sender, e.recipients, [(k, str(v)) for k, v in e.headers.items()], e.message,
              'input-object' if e is env else 'copy')
    if ctx.model:
        o = ctx.model.call('c16_run', [c['sender'], list(c['rcpts']), [[h[0], h[1]] for h in headers], body, model_chain(chain), subn_table(chain, c['rcpts'])])
        print('model:', model_obs(o))
    return 0
