"""C05 - message content crosses DATA framing unchanged under any segmentation.

Correspondence of model/Data.v (c05_send, c05_recv) with the real
slimta.smtp.datasender.DataSender and slimta.smtp.datareader.DataReader (driven
through a real slimta.smtp.io.IO on a scripted socket), and the property oracle
evaluated on what the implementation did:
  * DataReader.recv() returns the message (plus CRLF when it is non-empty and
    does not end with CRLF),
  * io.recv_buffer + the bytes still unread in the socket are exactly the
    trailing bytes,
  * the reader took exactly as many pieces from the socket as were needed to
    complete the end-of-data line,
  * the same for every segmentation / pre-loaded recv_buffer.
"""
import itertools, re, hashlib
from vp.core import B
from vp.fakes import ScriptSocket, segmentations

from slimta.smtp.io import IO
from slimta.smtp.datasender import DataSender
from slimta.smtp.datareader import DataReader
from slimta.smtp import ConnectionLost, MessageTooBig

ASSUMPTIONS = [
    'max_size=None in every judged case (the size limit / MessageTooBig path belongs to C09; it is only compared model<->code on a small stream, never judged)',
    'sender parts: the round trip is judged for every split in which each part that starts with "." starts at a line boundary of the message '
    '(covers one part, every split at line boundaries, every split of which no later part starts with "."); other splits are compared model<->code only',
    'expected result for the empty message is the empty byte string (the sender writes just ".\\r\\n"), for every other message m: m if it ends with CRLF else m + CRLF',
    'fake socket: recv() returns the scripted chunks (each 1..4096 bytes), then b"" (end of file => ConnectionLost)',
]

ALPHA = b'.\r\na'
TRAILERS = [b'', b'QUIT\r\n', b'.\r\n', b'.x\r\n']
EOD_WS = b' \t\r\x0b\x0c'
BATCH = 20000


# ------------------------------------------------------------ implementation
# One DataSender object is asked to emit SEVERAL times (the number and order of calls on one
# object is a dimension of the property: measure-then-send, send to two connections, retry):
#   'send' = sender.send(io) on a fresh real IO over a recording socket, then io.flush_send():
#            what the socket got, in order;   'iter' = b''.join(sender).
EMISSION_ORDERS = [('send', 'send'), ('iter', 'send'), ('send', 'iter', 'send'), ('send', 'send', 'send'), ('iter', 'iter')]
_emit_counter = [0]


def exc_text(e):
    return '%s: %s' % (type(e).__name__, str(e)[:120])


def emit(parts, order):
    """-> one entry per emission: the wire bytes, or ('EXC', text) when the code under test raised"""
    outs = []
    try:
        sender = DataSender(*parts)
    except Exception as e:
        return [('EXC', 'DataSender(): ' + exc_text(e))] * len(order)
    for how in order:
        try:
            if how == 'send':
                sock = ScriptSocket()
                io = IO(sock, ('h', 25))
                sender.send(io)
                io.flush_send()
                outs.append(sock.sent)
            else:
                outs.append(b''.join(sender))
        except Exception as e:
            outs.append(('EXC', how + ': ' + exc_text(e)))
    return outs


def judge_emissions(ctx, case, parts, order, outs, judged):
    """every emission of the object must be the same complete wire string as the first one
    (whose round trip the caller judges); judged = the split is inside the property's guard"""
    case = dict(case, emission_order=list(order))
    if not isinstance(outs[0], bytes):
        ctx.fail('c05:sender-raises', case, 'emission 1 (%s) of DataSender raised %s' % (order[0], outs[0][1]))
        return
    for i in range(1, len(outs)):
        if outs[i] == outs[0]:
            continue
        if not isinstance(outs[i], bytes):
            ctx.fail('c05:sender-raises', dict(case, emission=i + 1), 'emission %d (%s) of the same DataSender object raised %s' % (i + 1, order[i], outs[i][1]))
            return
        if not judged:
            ctx.mismatch('emissions', dict(case, emission=i + 1), (len(outs[i]), outs[i][-40:]), (len(outs[0]), outs[0][-40:]))
            return
        back = impl_recv(b'', cap([outs[i] + b'QUIT\r\n']))
        m = b''.join(parts)
        ctx.fail('c05:second-emission-differs', dict(case, emission=i + 1),
                 'emission %d (%s) of the same DataSender object wrote %d bytes %r, emission 1 (%s) wrote %d bytes %r; read back by DataReader the later one '
                 'gives %s, the message is %d bytes %r' % (i + 1, order[i], len(outs[i]), outs[i][:60], order[0], len(outs[0]), outs[0][:60],
                                                       sb_summary(back), len(m), m[:60]))
        return


def impl_send(parts, ctx=None, case=None, judged=True):
    """wire of the first emission (None when the sender raised); with ctx: the object is re-used and every emission judged"""
    order = EMISSION_ORDERS[_emit_counter[0] % len(EMISSION_ORDERS)] if ctx is not None else ('send',)
    _emit_counter[0] += 1
    outs = emit(parts, order)
    if ctx is not None:
        ctx.count('emissions:' + '+'.join(order))
        judge_emissions(ctx, case if case is not None else dict(stream='emissions', parts=list(parts)), parts, order, outs, judged)
    return outs[0] if isinstance(outs[0], bytes) else None


class FlagSocket(ScriptSocket):
    """A recv() on the exhausted script is what BLOCKS on a real connection (the peer has sent everything it is
    going to send and waits for the reply): it is flagged, and then answered with end of stream so that the run ends."""
    blocked = 0

    def recv(self, n=4096):
        if not self.chunks:
            self.blocked += 1
        return ScriptSocket.recv(self, n)


LAST_RECV = dict(blocked=0)


def impl_recv(buf, chunks, max_size=None):
    """-> (0, data, unread bytes, recv calls) | (1,) ConnectionLost | (2, unread bytes) MessageTooBig | (3, text) anything else raised.
    (1,) means: recv() was called when nothing more was going to arrive (LAST_RECV['blocked'] counts those calls)."""
    sock = FlagSocket(chunks)
    LAST_RECV['sock'] = sock
    io = IO(sock, ('h', 25))
    io.recv_buffer = buf
    try:
        data = DataReader(io, max_size).recv()
    except ConnectionLost:
        return (1,)
    except MessageTooBig:
        return (2, io.recv_buffer + sock.unread())
    except Exception as e:
        return (3, exc_text(e))
    return (0, data, io.recv_buffer + sock.unread(), sock.recv_calls)


def model_recv_out(o, chunks):
    tag = o[0]
    if tag == 0:
        k = o[3]
        rest = b''.join(chunks[len(chunks) - k:]) if k else b''
        return (0, B(o[1]), B(o[2]) + rest, len(chunks) - k)
    if tag == 2:
        k = o[1]
        return (2, b''.join(chunks[len(chunks) - k:]) if k else b'')
    return (tag,)


# ------------------------------------------------------------ independent reference (oracle side)
def expected(m):
    return m if (m == b'' or m.endswith(b'\r\n')) else m + b'\r\n'


def guard(parts):
    """every part that starts with a dot starts at a line boundary of the message"""
    pre = b''
    for p in parts:
        if p[:1] == b'.' and not (pre == b'' or pre.endswith(b'\n')):
            return False
        pre += p
    return True


def line_split(parts):
    return all(p == b'' or p.endswith(b'\n') for p in parts[:-1])


def ref_read(stream):
    """batch reading of a raw stream: None = no complete end-of-data line"""
    pos = 0
    out = []
    while True:
        nl = stream.find(b'\n', pos)
        if nl < 0:
            return None
        line = stream[pos:nl + 1]
        if line[:1] == b'.' and line[1:-1].strip(EOD_WS) == b'':
            return (b''.join(out), stream[nl + 1:])
        out.append(line[1:] if line[:1] == b'.' else line)
        pos = nl + 1


def need_calls(buf, chunks, wire_len):
    have = len(buf)
    k = 0
    while have < wire_len and k < len(chunks):
        have += len(chunks[k])
        k += 1
    return k


def cap(chunks):
    """what socket.recv(4096) returns: no piece longer than 4096 bytes"""
    out = []
    for c in chunks:
        for i in range(0, len(c), 4096):
            out.append(c[i:i + 4096])
    return out


# ------------------------------------------------------------ running jobs
class Jobs(object):
    """(kind, case, buf, chunks, want) tuples evaluated in batches: model (one driver
    process per batch) and implementation on the same input; comparison; oracle."""

    def __init__(self, ctx):
        self.ctx = ctx
        self.jobs = []

    def add(self, kind, case, buf, chunks, want, key_nt):
        self.jobs.append((kind, case, buf, chunks, want, key_nt))
        if len(self.jobs) >= BATCH:
            self.flush()

    def flush(self):
        ctx = self.ctx
        jobs, self.jobs = self.jobs, []
        if not jobs:
            return
        outs = ctx.model.batch('c05_recv', [[None, j[2], j[3]] for j in jobs])
        for (kind, case, buf, chunks, want, key_nt), o in zip(jobs, outs):
            io_out = impl_recv(buf, list(chunks))
            mo = model_recv_out(o, chunks)
            ctx.evaluated(key_nt[0], nontrivial=key_nt[1])
            if io_out != mo:
                ctx.mismatch('recv', full_case(case, buf, chunks), io_out, mo)
            if want is None:
                continue
            if io_out != want:
                ctx.fail(classify(kind, case, io_out, want), full_case(case, buf, chunks),
                         'DataReader.recv() -> (status, data, unread bytes, socket reads) = %r, expected %r' % (io_out, want))


def full_case(case, buf, chunks):
    c = dict(case)
    c['recv_buffer'] = buf
    c['chunks'] = list(chunks)
    return c


def classify(kind, case, got, want):
    if kind == 'raw':
        first = case['stream'].split(b'\n')[0] + b'\n' if b'\n' in case['stream'] else b''
        if first[:1] == b'.' and first[1:-1].strip(EOD_WS) == b'':
            return 'c05:empty-message-followed-by-bytes'
        if want == (1,) or got == (1,):
            return 'c05:raw-stream-end-of-data-detection'
        return 'c05:raw-stream'
    if case['message'] == b'' and case['trailing'] != b'':
        return 'c05:empty-message-followed-by-bytes'
    if got[0] == 1:
        return 'c05:reads-past-end-of-data'       # the whole stream, end-of-data line included, was delivered
    if got[0] != 0:
        return 'c05:reader-raises'
    if got[1] != want[1]:
        return 'c05:content-altered'
    if got[2] != want[2]:
        return 'c05:trailing-bytes-altered'
    return 'c05:reads-past-end-of-data'


def nontrivial_msg(m, wire, t):
    body = m[:-2] if m.endswith(b'\r\n') else m
    return (m == b'' or not m.endswith(b'\r\n') or t != b'' or len(wire) != len(m) + 3
            or b'\r' in body.replace(b'\r\n', b'') or b'\n' in body.replace(b'\r\n', b''))


def seg_jobs(data, rng, cuts):
    """(mode, recv_buffer, chunks) ways of presenting `data` to the reader"""
    n = len(data)
    yield ('whole', b'', [data] if data else [])
    yield ('preloaded', data, [])
    if n > 1:
        yield ('bytes', b'', [data[i:i + 1] for i in range(n)])
    if cuts == 'all':
        for c in range(1, n):
            if c % 2:
                yield ('cut%d' % c, b'', [data[:c], data[c:]])
            else:
                yield ('cut%d+buf' % c, data[:c], [data[c:]])
    elif n > 1:
        for _ in range(cuts):
            c = rng.randrange(1, n)
            if rng.random() < 0.5:
                yield ('cut%d' % c, b'', [data[:c], data[c:]])
            else:
                yield ('cut%d+buf' % c, data[:c], [data[c:]])
    if n > 2:
        pre = rng.choice([0, 0, rng.randrange(0, n)])
        yield ('random', data[:pre], segmentations(data[pre:], rng, 'random'))


def seg_label(mode):
    if mode.startswith('cut'):
        return 'single-cut+preloaded' if mode.endswith('+buf') else 'single-cut'
    return mode


# ------------------------------------------------------------ streams
def splits_of(m, three):
    n = len(m)
    out = [[m]]
    for k in range(0, n + 1):
        out.append([m[:k], m[k:]])
    if three:
        for i in range(0, n + 1):
            for j in range(i, n + 1):
                out.append([m[:i], m[i:j], m[j:]])
    return out


def run_exhaustive(ctx, maxlen, cut_all_upto, three_upto):
    rng = ctx.rng
    jobs = Jobs(ctx)
    n_msgs = 0
    for L in range(0, maxlen + 1):
        msgs = [bytes(tup) for tup in itertools.product(ALPHA, repeat=L)]
        n_msgs += len(msgs)
        # ---- sender: every split, model and code
        all_splits = []
        for m in msgs:
            for parts in splits_of(m, L <= three_upto):
                all_splits.append((m, parts))
        m_wires = []
        for i in range(0, len(all_splits), BATCH):
            m_wires.extend(ctx.model.batch('c05_send', [p for (_, p) in all_splits[i:i + BATCH]]))
        per_msg = {}
        for (m, parts), mw in zip(all_splits, m_wires):
            ok = guard(parts)
            wire = impl_send(parts, ctx, dict(stream='exhaustive', message=m, parts=parts), ok)
            ctx.evaluations += 1
            if wire is None:
                continue
            if wire != B(mw):
                ctx.mismatch('send', dict(message=m, parts=parts), wire, B(mw))
            ctx.count('split:' + ('one-part' if len(parts) == 1 else 'line-boundary' if line_split(parts) else
                                  'other-admissible' if ok else 'dot-part-midline(not judged)'))
            d = per_msg.setdefault(m, {})
            d.setdefault((wire, ok), parts)
        # ---- reader: every distinct wire of the message x trailing x segmentations
        for mi, m in enumerate(msgs):
            # beyond length 7 each message gets two of the four trailing strings (alternating)
            trailers = TRAILERS if L <= 7 else TRAILERS[mi % 2::2]
            for (wire, ok), parts in per_msg.get(m, {}).items():
                for t in (trailers if ok else [b'Q']):
                    data = wire + t
                    nt = nontrivial_msg(m, wire, t)
                    for mode, buf, chunks in seg_jobs(data, rng, ('all' if L <= cut_all_upto else 2 if L <= 6 else 1) if ok else 0):
                        case = dict(stream='exhaustive', message=m, parts=parts, trailing=t, mode=mode)
                        want = (0, expected(m), t, need_calls(buf, chunks, len(wire))) if ok else None
                        jobs.add('msg', case, buf, chunks, want, ((m, tuple(parts), t, mode, buf, len(chunks)), nt))
                        ctx.count('seg:' + seg_label(mode))
            ctx.count('msg:' + ('empty' if m == b'' else 'ends-crlf' if m.endswith(b'\r\n') else 'ends-bare-lf' if m.endswith(b'\n')
                                else 'ends-cr' if m.endswith(b'\r') else 'no-final-newline'))
    jobs.flush()
    ctx.sample(dict(kind='exhaustive', alphabet=ALPHA.decode('latin1'), maxlen=maxlen, messages=n_msgs,
                    splits='one part, every 2-part split (every 3-part split to length %d)' % three_upto,
                    trailing=TRAILERS, segmentations='whole, all pre-loaded, bytewise, every single cut (to length %d, 1-2 random cuts beyond), random' % cut_all_upto))
    ctx.extra['exhaustive'] = True
    ctx.extra['exhaustive_bound'] = ('every message over {".",CR,LF,"a"} up to length %d (%d messages) x one part / every 2-part split '
                                     '(every 3-part split up to length %d) x trailing in %r x {whole, pre-loaded, bytewise, every single cut '
                                     '(messages up to length %d; one or two random cuts for longer ones), one random segmentation}%s'
                                     % (maxlen, n_msgs, three_upto, TRAILERS, cut_all_upto,
                                        '; messages of length 8 with two of the four trailing strings each (alternating)' if maxlen > 7 else ''))


RAW_ALPHA = b'. \r\na\t'


def run_raw(ctx, maxlen):
    """reader alone on arbitrary (not sender-made) streams, against the reference reader"""
    rng = ctx.rng
    jobs = Jobs(ctx)
    n = 0
    for L in range(0, maxlen + 1):
        for tup in itertools.product(RAW_ALPHA, repeat=L):
            s = bytes(tup)
            n += 1
            # as is, and followed by a line that certainly ends the data plus a pipelined byte
            for s in (s, s + b'\n.\r\nQ'):
                ref = ref_read(s)
                ctx.count('raw:' + ('no-end-of-data' if ref is None else 'end-of-data'))
                for mode, buf, chunks in seg_jobs(s, rng, 1):
                    want = (1,) if ref is None else (0, ref[0], ref[1], need_calls(buf, chunks, len(s) - len(ref[1])))
                    jobs.add('raw', dict(stream=s, kind='raw', mode=mode), buf, chunks, want, (('raw', s, mode, buf, len(chunks)), b'\n' in s))
    for s in [b'.\x0b\n', b'.\x0c\r\n', b'. \t\r\x0b\x0c\nrest', b'.\x1c\nx\r\n.\r\n', b'.\x85\n.\n', b'.\xa0\n.\nQ', b'a\n.\n.\n', b'\xff\n..\xfe\n.\r\r\nZ']:
        ref = ref_read(s)
        for mode, buf, chunks in seg_jobs(s, rng, 'all'):
            want = (1,) if ref is None else (0, ref[0], ref[1], need_calls(buf, chunks, len(s) - len(ref[1])))
            jobs.add('raw', dict(stream=s, kind='raw', mode=mode), buf, chunks, want, (('raw', s, mode, buf, len(chunks)), True))
    jobs.flush()
    ctx.sample(dict(kind='raw-streams', alphabet=RAW_ALPHA.decode('latin1'), maxlen=maxlen, streams=n))


LINE_PIECES = [b'', b'.', b'..', b'...', b'.hidden', b'. ', b'.\t', b'Subject: test', b'a', b'\r', b'x\ry', b' .', b'\xff\xfe\x00\x80', b'From: \xe9',
               b'.\r', b'\r.', b'end.']
ENDINGS = [b'\r\n'] * 6 + [b'\n', b'\n', b'\r', b'\r\r\n', b'\n\r']


def gen_message(rng):
    kind = rng.choice(['lines', 'lines', 'lines', 'binary', 'dotty', 'long'])
    if kind == 'binary':
        return bytes(rng.randrange(256) for _ in range(rng.randrange(0, rng.choice([20, 300, 4096]))))
    if kind == 'dotty':
        return bytes(rng.choice(b'..\r\n\na \t') for _ in range(rng.randrange(0, 200)))
    out = []
    for _ in range(rng.randrange(0, rng.choice([3, 10, 60]))):
        if kind == 'long' and rng.random() < 0.2:
            line = bytes(rng.randrange(256) for _ in range(rng.randrange(900, 2500))).replace(b'\n', b'-')
        elif rng.random() < 0.6:
            line = rng.choice(LINE_PIECES)
        else:
            line = bytes(rng.randrange(256) for _ in range(rng.randrange(0, 40))).replace(b'\n', b'.')
        out.append(line + rng.choice(ENDINGS))
    m = b''.join(out)
    if rng.random() < 0.4:
        m += rng.choice(LINE_PIECES)        # no final newline
    return m[:4096]


def gen_split(rng, m):
    r = rng.random()
    if r < 0.25 or not m:
        parts = [m]
    else:
        bounds = [i + 1 for i in range(len(m)) if m[i:i + 1] == b'\n']
        if r < 0.8 and bounds:
            cuts = sorted(set(rng.choice(bounds) for _ in range(rng.randrange(1, 4))))
        else:
            cuts = sorted(set(rng.randrange(0, len(m) + 1) for _ in range(rng.randrange(1, 4))))
        parts = []
        p = 0
        for c in cuts + [len(m)]:
            parts.append(m[p:c])
            p = c
    if rng.random() < 0.2:
        parts.insert(rng.randrange(0, len(parts) + 1), b'')
    return parts


def run_random(ctx, count):
    rng = ctx.rng
    jobs = Jobs(ctx)
    cases = []
    for _ in range(count):
        m = gen_message(rng)
        cases.append((m, gen_split(rng, m)))
    m_wires = ctx.model.batch('c05_send', [p for (_, p) in cases])
    for (m, parts), mw in zip(cases, m_wires):
        ok = guard(parts)
        wire = impl_send(parts, ctx, dict(stream='random', message=m, parts=parts), ok)
        ctx.evaluations += 1
        if wire is None:
            continue
        if wire != B(mw):
            ctx.mismatch('send', dict(message=m, parts=parts), wire, B(mw))
        ctx.count('random-split:' + ('one-part' if len(parts) == 1 else 'line-boundary' if line_split(parts) else
                                     'other-admissible' if ok else 'dot-part-midline(not judged)'))
        ctx.count('random-len:' + ('0' if not m else '<64' if len(m) < 64 else '<1024' if len(m) < 1024 else '<=4096'))
        if any(b > 127 for b in m):
            ctx.count('random-8bit')
        t = rng.choice(TRAILERS + [b'MAIL FROM:<a@b>\r\n', b'.', b'\n', bytes(rng.randrange(256) for _ in range(rng.randrange(1, 30)))])
        data = wire + t
        modes = ['whole', 'random', 'random', 'lines', 'pre']
        if len(data) <= 400:
            modes.append('bytes')
        for mode in modes:
            if mode == 'pre':
                c = rng.randrange(0, len(data) + 1)
                buf, chunks = data[:c], cap(segmentations(data[c:], rng, 'random'))
            else:
                buf, chunks = b'', cap(segmentations(data, rng, mode))
            case = dict(stream='random', message=m, parts=parts, trailing=t, mode=mode)
            want = (0, expected(m), t, need_calls(buf, chunks, len(wire))) if ok else None
            jobs.add('msg', case, buf, chunks, want, ((m, tuple(parts), t, mode, buf, len(chunks)), nontrivial_msg(m, wire, t)))
            ctx.count('random-seg:' + mode)
    jobs.flush()
    m, parts = cases[0]
    ctx.sample(dict(kind='random', message=m[:80], parts=[p[:40] for p in parts]), cap=8)


# ------------------------------------------------------------ size-boundary stream
# The property quantifies over every message and every segmentation, so sizes are in the quantifier:
# code that works in windows / closes long lines / restarts scans at some buffer size is only
# visible to messages that put a dot exactly at such an offset.  Messages are
#     filler(L - delta) + probe + tail
# with L a power-of-two-ish size, delta in 0..3, the filler free of dots at line starts, and the probe
# putting a dot right at / after the boundary.  Cases are DESCRIBED (L, delta, probe, filler, split,
# segmentation), never stored: a replay rebuilds the 128 KiB message from the description.
SB_L = [1024, 4096, 8192, 16384, 65536, 131072]
SB_DELTA = [0, 1, 2, 3]
SB_PROBES = [b'\n.', b'\n.\r\n', b'\r\n.\r\n', b'\r\n.x', b'.\r\n', b'\n..', b'.x']
SB_CONTINUING = (4, 6)        # probes whose dot continues the filler's last line
SB_MODEL_MAX_L = 8192         # the extracted model is evaluated only up to this L (cost), beyond: implementation-only oracle
STUFF_RE = re.compile(br'(?m)^\.')


def sb_filler(kind, n):
    """n bytes in which no line starts with a dot.  run: one unterminated line; crlf: 72-byte CRLF lines;
    dot-*: the same behind b'a\n.' (a stuffing point: the sender's scan and the reader's line restart there)"""
    if kind.startswith('dot-'):
        return b'a\n.' + sb_filler(kind[4:], n)
    if kind == 'run':
        return b'x' * n
    if kind == 'crlf':
        return ((b'y' * 70 + b'\r\n') * (n // 72 + 1))[:n]
    raise ValueError(kind)


def sb_message(d):
    """-> (message, index of the probe's dot in it)"""
    f = sb_filler(d['filler'], d['L'] - d['delta'])
    probe = SB_PROBES[d['probe']]
    tail = b'zz\r\nlast' if d['delta'] == 3 else b'zz\r\nlast line\r\n'
    return f + probe + tail, len(f) + probe.index(b'.')


def sb_parts(m, k, split):
    """split: None = one part, else offset relative to the probe's dot"""
    if split is None:
        return [m]
    return [m[:k + split], m[k + split:]]


def sb_chunks(data, p, seg):
    """seg = dict(size=, cuts=[offsets relative to p at which a new recv() result starts], preload=)
    preload: number of leading bytes already in io.recv_buffer, 'dot' = everything in front of the
    probe's dot, 'all' = everything.  -> (recv_buffer, chunks), no chunk longer than 4096"""
    n = len(data)
    pre = seg.get('preload', 0)
    pre = p if pre == 'dot' else n if pre == 'all' else min(pre, n)
    bounds = sorted(set([pre, n] + [min(max(p + c, pre), n) for c in seg.get('cuts', [])]))
    chunks = []
    size = seg['size']
    for a, b in zip(bounds, bounds[1:]):
        for i in range(a, b, size):
            chunks.append(data[i:min(i + size, b)])
    return data[:pre], cap(chunks)


def sb_summary(out):
    """small, comparable stand-in for a reader outcome holding 128 KiB"""
    if out[0] != 0:
        return tuple(x if not isinstance(x, bytes) else (len(x), x[:40]) for x in out)
    return (0, len(out[1]), hashlib.blake2b(out[1], digest_size=8).hexdigest(), out[2][:60], out[3])


def sb_diff(got, want):
    """human-size description of got != want (reader outcomes)"""
    if got[0] != 0:
        return 'DataReader.recv() raised %s; expected %d bytes of message and %r left unread' % (
            {1: 'ConnectionLost: it called recv() when everything sent had been delivered and nothing more was coming (a real connection BLOCKS there)', 2: 'MessageTooBig'}.get(got[0], got[-1]), len(want[1]), want[2][:60])
    what = []
    if got[1] != want[1]:
        i = next((j for j in range(min(len(got[1]), len(want[1]))) if got[1][j] != want[1][j]), min(len(got[1]), len(want[1])))
        what.append('recv() returned %d bytes, expected %d; first difference at offset %d: got %r, expected %r' % (
            len(got[1]), len(want[1]), i, got[1][max(0, i - 6):i + 12], want[1][max(0, i - 6):i + 12]))
    if got[2] != want[2]:
        what.append('unread bytes (io.recv_buffer + socket): %d bytes starting %r, expected %r' % (len(got[2]), got[2][:60], want[2][:60]))
    if got[3] != want[3]:
        what.append('%d socket reads, %d were needed' % (got[3], want[3]))
    return '; '.join(what)


def sb_plan(quick):
    """-> list of (descriptor without split/seg, [splits], [segs]) """
    plan = []
    S = lambda size, cuts=(), preload=0: dict(size=size, cuts=list(cuts), preload=preload)
    for L in SB_L:
        for delta in SB_DELTA:
            for pi in range(len(SB_PROBES)):
                cont = pi in SB_CONTINUING
                for kind in (['run', 'crlf', 'dot-crlf'] if quick else ['run', 'crlf', 'dot-crlf', 'dot-run']):
                    d = dict(L=L, delta=delta, probe=pi, filler=kind)
                    splits = [None] + list(range(-3, 4))
                    long_line = kind.endswith('run')
                    if not long_line:
                        # short lines: the reader is cheap per byte; large pre-loaded buffers allowed
                        few = [S(4096), S(1000, (0,)), S(4096, (1,), preload='dot')]
                        full = [S(1000), S(4095), S(4096), S(4097), S(4096, (0, 1, 2)), S(1000, (0,)),
                                S(4096, preload='dot'), S(4096, (1,), preload='dot'), S(4096, preload=16384), S(4096, preload=65536), S(4096, preload='all')]
                        if not quick:
                            segs = full + [S(16384), S(65536)]
                        else:
                            segs = full if (kind == 'crlf' and delta == 0) else few
                        if L <= 1024 or (L <= 4096 and not quick):
                            segs = segs + [S(1)]
                    else:
                        # one long line: `.*\n` in add_lines is quadratic in the length of an LF-free piece
                        # (13 ms per 4096-byte piece, 14 s for 128 KiB in one buffer), so the grid is thinned
                        # and pre-loaded buffers of a long line stay <= 16 KiB
                        PRE = S(4096, preload='dot') if L <= 16384 else S(4096, (0,), preload=16384)
                        if quick and cont and delta == 0:
                            segs = [S(4096), S(1000, (0,)), S(1000, (0, 1))]
                            if L <= 16384:
                                segs += [S(4095), S(4097), S(4096, (0, 1, 2)), S(4096, preload='dot')]
                        elif quick and cont:
                            segs = [S(1000, (0,))] if L > 16384 else [S(4096), S(1000, (0,)), S(1000, (0, 1))]
                        elif quick:
                            # dot after a line end: the long line is over when the dot comes; kept for small L only
                            if L > 8192 or not ((delta == 1 and pi in (0, 1, 5)) or (delta == 2 and pi in (2, 3))):
                                continue
                            segs = [S(4096), S(1000, (0,))]
                        elif cont and kind == 'run' and delta == 0:
                            segs = [S(1000), S(4095), S(4096), S(4097), S(4096, (0, 1, 2)), S(1000, (0,)), S(1000, (0, 1)),
                                    PRE, S(4096, preload=4096), S(4096, preload=min(16384, L))]
                        elif cont and kind == 'run':
                            segs = [S(4096), S(1000, (0,)), S(1000, (0, 1)), PRE]
                        elif cont:
                            if delta:
                                continue
                            segs = [S(4096), S(4095), S(1000, (0,)), S(4096, (0, 1, 2))]
                        else:
                            if kind == 'dot-run':
                                continue
                            segs = [S(4096), S(1000, (0,))]
                        if L <= 1024:
                            segs.append(S(1))
                    plan.append((d, splits, segs))
    return plan


def run_size_boundary(ctx):
    plan = sb_plan(ctx.quick)
    t = b'QUIT\r\n'
    n_msgs = n_send = n_recv = n_model = 0
    model_send, model_recv = [], []          # evaluated in a few driver batches at the end (L <= SB_MODEL_MAX_L only)
    for d, splits, segs in plan:
        m, k = sb_message(d)
        with_model = d['L'] <= SB_MODEL_MAX_L
        n_msgs += 1
        ctx.count('size-boundary:L=%d' % d['L'])
        ctx.count('size-boundary:filler=' + d['filler'])
        # ---- sender: one part and parts cut within +-3 bytes of the probe's dot
        wires = {}
        send_cases = []
        for sp in splits:
            parts = sb_parts(m, k, sp)
            ok = guard(parts)
            wire = impl_send(parts, ctx, dict(d, stream='size-boundary', split=sp), ok)
            n_send += 1
            ctx.evaluations += 1
            if wire is None:
                continue
            if not ok:
                ctx.count('size-boundary-split:dot-part-midline(not judged)')
                continue
            ctx.count('size-boundary-split:' + ('one-part' if sp is None else 'near-boundary'))
            send_cases.append((sp, parts, wire))
            wires.setdefault(wire, sp)
        if with_model:
            for (sp, parts, wire) in send_cases:
                model_send.append((dict(d, stream='size-boundary', split=sp), parts, wire))
        # ---- reader: every distinct wire x segmentations
        p = len(STUFF_RE.sub(b'..', m[:k]))          # offset of the (first) dot of the probe in a correctly stuffed wire
        jobs = []
        for wire, sp in wires.items():
            data = wire + t
            for seg in segs:
                buf, chunks = sb_chunks(data, p, seg)
                jobs.append((sp, seg, wire, buf, chunks))
        for (sp, seg, wire, buf, chunks) in jobs:
            case = dict(d, stream='size-boundary', split=sp, trailing=t, seg=seg)
            got = impl_recv(buf, list(chunks))
            n_recv += 1
            ctx.evaluated(('size-boundary', repr(sorted(case.items(), key=lambda kv: kv[0]))), nontrivial=True)
            ctx.count('size-boundary-seg:%s%s%s' % (seg['size'], '+cuts-at-dot' if seg['cuts'] else '', '+preloaded' if seg['preload'] else ''))
            if with_model and not (seg['size'] == 1 and d['L'] > 1024):
                model_recv.append((case, buf, chunks, got))
            want = (0, expected(m), t, need_calls(buf, chunks, len(wire)))
            if got != want:
                base = ('reads-past-end-of-data' if got[0] == 1 else 'reader-raises' if got[0] != 0 else
                        'early-end-of-data' if (len(got[1]) < len(want[1]) and want[1].startswith(got[1])) else
                        'content-altered' if got[1] != want[1] else
                        'trailing-bytes-altered' if got[2] != want[2] else 'reads-past-end-of-data')
                ctx.fail('c05:size-boundary-' + base, case,
                         'message = filler(%s, %d bytes) + %r + tail (%d bytes in all), sent as %s, wire followed by %r and read with %r: %s' % (
                             d['filler'], d['L'] - d['delta'], SB_PROBES[d['probe']], len(m),
                             'one part' if sp is None else 'two parts cut %+d bytes from the dot' % sp, t, seg, sb_diff(got, want)))
    for i in range(0, len(model_send), 2000):
        part = model_send[i:i + 2000]
        for (case, parts, wire), mw in zip(part, ctx.model.batch('c05_send', [x[1] for x in part])):
            n_model += 1
            if wire != B(mw):
                ctx.mismatch('send-size-boundary', case, (len(wire), wire[-40:]), (len(B(mw)), B(mw)[-40:]))
    for i in range(0, len(model_recv), 1000):
        part = model_recv[i:i + 1000]
        for (case, buf, chunks, got), o in zip(part, ctx.model.batch('c05_recv', [[None, x[1], x[2]] for x in part])):
            n_model += 1
            mo = model_recv_out(o, chunks)
            if got != mo:
                ctx.mismatch('recv-size-boundary', case, sb_summary(got), sb_summary(mo))
    ctx.sample(dict(kind='size-boundary', L=SB_L, delta=SB_DELTA, probes=SB_PROBES, messages=n_msgs, sender_runs=n_send, reader_runs=n_recv,
                    model_evaluations=n_model, model_up_to_L=SB_MODEL_MAX_L), cap=12)
    ctx.note('size-boundary stream: %d messages filler(L-delta)+probe+tail, L in %r, delta in %r, %d probes, fillers run (one long line) / crlf (72-byte lines) / '
             'behind a stuffing point; sender as one part and cut at every offset within +-3 of the probe dot; reader with recv() sizes 1 (small L), 1000, 4095, 4096, '
             '4097 (larger sizes coincide with 4096: IO.raw_recv asks for 4096 bytes), cuts exactly before/after/between the probe dots, buffers of up to the whole '
             'stream pre-loaded in io.recv_buffer; %d sender runs, %d reader runs.  The extracted model is evaluated (and compared) only for L <= %d (%d evaluations); '
             'beyond that the cases are judged by the implementation-only round-trip oracle (the theorems hold for all sizes, the correspondence samples the size dimension)'
             % (n_msgs, SB_L, SB_DELTA, len(SB_PROBES), n_send, n_recv, SB_MODEL_MAX_L, n_model))


# ------------------------------------------------------------ re-use of one sender object
def run_reuse(ctx, count):
    """the number and order of calls on ONE DataSender object: every emission is read back by the real reader
    and compared with the model's `emissions` (theorem C05_sender_output_is_a_function_of_the_parts)"""
    rng = ctx.rng
    cases = []
    for L in range(0, 4):
        for tup in itertools.product(ALPHA, repeat=L):
            m = bytes(tup)
            for parts in splits_of(m, False):
                if guard(parts):
                    cases.append((m, parts))
    for _ in range(count):
        m = gen_message(rng)
        parts = gen_split(rng, m)
        if guard(parts):
            cases.append((m[:1500], parts if len(m) <= 1500 else [m[:1500]]))
    orders = [tuple(rng.choice(['send', 'iter']) for _ in range(rng.choice([2, 2, 3, 4]))) for _ in cases]
    mouts = []
    for i in range(0, len(cases), 5000):
        mouts.extend(ctx.model.batch('c05_emissions', [[parts, len(o)] for (_, parts), o in zip(cases[i:i + 5000], orders[i:i + 5000])]))
    t = b'QUIT\r\n'
    for (m, parts), order, mo in zip(cases, orders, mouts):
        outs = emit(parts, order)
        case = dict(stream='reuse', message=m, parts=parts)
        ctx.evaluated(('reuse', m, tuple(parts), order), nontrivial=True)
        ctx.count('reuse:%d-emissions' % len(order))
        if [o if isinstance(o, bytes) else None for o in outs] != [B(x) for x in mo]:
            ctx.mismatch('emissions', dict(case, emission_order=list(order)), [(len(o), o[-30:]) if isinstance(o, bytes) else o for o in outs],
                         [(len(B(x)), B(x)[-30:]) for x in mo])
        judge_emissions(ctx, case, parts, order, outs, True)
        for i, w in enumerate(outs):
            if not isinstance(w, bytes):
                continue
            got = impl_recv(b'', cap([w + t]))
            want = (0, expected(m), t, 1 if len(w) + len(t) <= 4096 else need_calls(b'', cap([w + t]), len(w)))
            if got != want:
                ctx.fail('c05:second-emission-differs' if i else 'c05:content-altered', dict(case, emission_order=list(order), emission=i + 1),
                         'emission %d (%s) of one DataSender object, followed by %r and read back: %s' % (i + 1, order[i], t, sb_diff(got, want)))
                break
    ctx.sample(dict(kind='reuse', cases=len(cases), note='one DataSender object emitted 2-4 times (send to a fresh IO / iterate), every emission read back'), cap=12)


# ------------------------------------------------------------ big parts through the real IO path
# A piece handed to IO.buffered_send can be as large as a whole part (DataSender._process_part yields a part
# unsplit up to the next LF "."), so piece size is a dimension too.  Bodies are built so that ONE piece has
# exactly N bytes; they are sent as several part layouts through DataSender.send(io) + io.flush_send() (and
# through Client.send_data) into a recording socket.  Cases are descriptions; nothing big is stored.
BIG_HDR = b'From: sender@example.com\r\nSubject: big part\r\n\r\n'
BIG_TRL = b'-- \r\ntrailer part\r\n'
BIG_LAYOUTS = ['body', 'hdr+body', 'body+trl', 'hdr+body+trl', 'empty+body', 'hdr+hdr+body']
BIG_SHAPES = ['whole', 'lfdot', 'dotfirst']


def big_parts(d):
    N, f = d['N'], d['filler']
    if d['shape'] == 'whole':
        body = sb_filler(f, N)                                   # one piece of N bytes, no final newline
    elif d['shape'] == 'lfdot':
        body = sb_filler(f, N - 2) + b'\n.' + b'sig\r\n'          # first piece N bytes (up to and including LF "."), then a stuffed dot
    else:
        body = b'.' + sb_filler(f, N - 1)                        # part begins with a dot: pieces "." and N bytes
    return {'body': [body], 'hdr+body': [BIG_HDR, body], 'body+trl': [body, BIG_TRL], 'hdr+body+trl': [BIG_HDR, body, BIG_TRL],
            'empty+body': [b'', body], 'hdr+hdr+body': [BIG_HDR[:26], BIG_HDR[26:], body]}[d['layout']]


def ref_wire(m):
    return STUFF_RE.sub(b'..', m) + (b'.\r\n' if (m == b'' or m.endswith(b'\r\n')) else b'\r\n.\r\n')


def client_send_data(parts):
    """the wire of slimta.smtp.client.Client.send_data(*parts) (no PIPELINING: flushed at once, reply scripted)"""
    from slimta.smtp.client import Client
    sock = ScriptSocket([b'250 2.0.0 Ok\r\n'])
    try:
        c = Client(sock, ('h', 25))
        c.send_data(*parts)
        return sock.sent
    except Exception as e:
        return ('EXC', 'Client.send_data: ' + exc_text(e))


def big_emit(d):
    parts = big_parts(d)
    if d['path'] == 'Client.send_data':
        return parts, [client_send_data(parts)]
    return parts, emit(parts, tuple(d['order']))


def big_judge(ctx, d, parts, outs, state):
    """-> None if fine, else (key, what).  A wire equal to the reference stuffing of the concatenation is accepted for
    LF-free fillers (reading 1 MiB without a LF takes the real reader seconds: `.*\\n` is quadratic) and read back
    for CRLF-line fillers; a wire that differs is always read back: the verdict is the round trip, not the comparison."""
    m = b''.join(parts)
    ref = ref_wire(m)
    t = b'QUIT\r\n'
    for i, w in enumerate(outs):
        if not isinstance(w, bytes):
            return 'c05:sender-raises', 'emission %d raised %s' % (i + 1, w[1])
        same = (w == ref)
        if same and (d['filler'] != 'crlf' or i > 0):
            ctx.count('big-part:wire-equals-reference(not read back)')
            continue
        lf_free = d['filler'] != 'crlf'
        if lf_free and state['slow_readbacks'] >= 3:
            got = ref_read(w + t)
            got = (1,) if got is None else (0, got[0], got[1], None)
            how = 'the reference reader'
        else:
            if lf_free:
                state['slow_readbacks'] += 1
            chunks = cap([w + t]) if not lf_free else [(w + t)[j:j + 1000] for j in range(0, len(w) + len(t), 1000)]
            got = impl_recv(b'', chunks)
            how = 'DataReader (%d-byte reads)' % (1000 if lf_free else 4096)
        ctx.count('big-part:read-back')
        ok = got[0] == 0 and got[1] == expected(m) and got[2] == t
        if ok:
            if not same:
                ctx.note('big-part: a wire different from the reference stuffing still round-trips (not a violation): %r' % (d,))
            continue
        if got[0] == 0 and len(w) == len(ref) and not w.startswith(ref[:24]) and w.find(ref[:24]) > 0:
            base = 'pieces-out-of-order'
        elif got[0] == 1:
            base = 'reads-past-end-of-data'
        elif got[0] != 0:
            base = 'reader-raises'
        elif len(got[1]) < len(expected(m)) and expected(m).startswith(got[1]):
            base = 'early-end-of-data'
        elif got[1] != expected(m):
            base = 'content-altered'
        else:
            base = 'trailing-bytes-altered'
        want = (0, expected(m), t, got[3] if got[0] == 0 else None)
        return ('c05:big-part-' + base,
                'parts of lengths %r (one piece of %d bytes) sent through %s, emission %d: the socket got %d bytes starting %r (reference stuffing: %d bytes starting %r); '
                'read back by %s: %s' % ([len(x) for x in parts], d['N'], d['path'], i + 1, len(w), w[:40], len(ref), ref[:40], how, sb_diff(got, want)))
    return None


def run_big_parts(ctx):
    quick = ctx.quick
    sizes = [262143, 262144, 262145, 1048575, 1048576, 1048577] if quick else [131072, 262143, 262144, 262145, 524288, 1048575, 1048576, 1048577, 2097152]
    state = dict(slow_readbacks=0)
    n = 0
    k = 0
    for N in sizes:
        for shape in BIG_SHAPES:
            for f in ('run', 'crlf'):
                for layout in BIG_LAYOUTS:
                    k += 1
                    order = [('send',), ('send', 'send'), ('iter', 'send')][k % 3] if N <= 1048577 else ('send',)
                    ds = [dict(stream='big-part', N=N, shape=shape, filler=f, layout=layout, order=list(order), path='DataSender.send')]
                    if layout in ('hdr+body', 'body') and shape == 'whole':
                        ds.append(dict(stream='big-part', N=N, shape=shape, filler=f, layout=layout, order=['send'], path='Client.send_data'))
                    for d in ds:
                        parts, outs = big_emit(d)
                        n += 1
                        ctx.evaluated(('big-part', repr(sorted(d.items()))), nontrivial=True)
                        ctx.count('big-part:N=%d' % N)
                        ctx.count('big-part:layout=' + layout)
                        ctx.count('big-part:path=' + d['path'])
                        r = big_judge(ctx, d, parts, outs, state)
                        if r is None and len(outs) > 1 and any(o != outs[0] for o in outs[1:]):
                            r = ('c05:second-emission-differs', 'emissions of one DataSender object differ: lengths %r' % [len(o) if isinstance(o, bytes) else o for o in outs])
                        if r is not None:
                            ctx.fail(r[0], d, r[1])
    ctx.sample(dict(kind='big-part', piece_sizes=sizes, shapes=BIG_SHAPES, layouts=BIG_LAYOUTS, cases=n), cap=12)
    ctx.note('big-part stream: %d cases, one piece of exactly N bytes (N in %r) handed to IO.buffered_send, fillers run / crlf, shapes %r, part layouts %r, through '
             'DataSender.send(io)+io.flush_send() into a recording socket (one object emitted up to twice) and through Client.send_data; model not evaluated (size); '
             'judged by the round trip: CRLF-line bodies are read back by the real DataReader, LF-free bodies are accepted when the socket got exactly the reference '
             'stuffing of the concatenation in order (reading them back costs the real reader seconds) and read back when it did not' % (n, sizes, BIG_SHAPES, BIG_LAYOUTS))


# ------------------------------------------------------------ wire length aligned with the receive buffer
# IO.raw_recv asks the socket for 4096 bytes.  Messages are solved for so that the WIRE (stuffed content + end
# marker) is exactly off + k*4096 (+-1 controls) bytes; it is read as one piece of `off` bytes (if any) and then
# full 4096-byte recv() results, so that the end-of-data line ends a full buffer.  Pipelined bytes: none (the
# client waits for the reply: a further recv() would block for ever - FlagSocket), arriving LATER in a recv() of
# their own, or contiguous (control).
WA_KINDS = ['crlf-end', 'no-crlf', 'bare-lf', 'dots8', 'run']
WA_BLOCK = {'crlf-end': b'y' * 70 + b'\r\n', 'no-crlf': b'y' * 70 + b'\r\n', 'bare-lf': b'line\nnext\r\n',
            'dots8': b'.dot line\r\n..\r\n\xe9\xff\x00 8-bit\r\n.\xfe\r\nplain\r\n', 'run': b''}


def wa_message(kind, n_pad, n_blocks):
    end = {'crlf-end': b'\r\n', 'no-crlf': b'', 'bare-lf': b'\n', 'dots8': b'\r\n', 'run': b'\r\n'}[kind]
    return WA_BLOCK[kind] * n_blocks + b'p' * n_pad + end


def wa_solve(kind, target):
    """message of this kind whose reference wire is exactly `target` bytes (None if too small)"""
    blk = WA_BLOCK[kind]
    nb = max(0, (target - 300) // len(ref_wire(blk * 4))) * 4 if blk else 0
    nb = max(0, nb - 4)
    pad = 1
    for _ in range(4):
        pad += target - len(ref_wire(wa_message(kind, pad, nb)))
        if pad < 1:
            return None
        m = wa_message(kind, pad, nb)
        if len(ref_wire(m)) == target:
            return m
    return None


def wa_case(d):
    """-> (message, parts, trailing, recv_buffer, chunks, wire) for a description; None if unsolvable"""
    target = d['off'] + d['k'] * 4096 + d['delta']
    m = wa_solve(d['kind'], target)
    if m is None:
        return None
    if d['parts'] == 'two' and b'\n' in m[:-1]:
        cut = m.index(b'\n', len(m) // 2 if b'\n' in m[len(m) // 2:-1] else 0) + 1
        parts = [m[:cut], m[cut:]]
    else:
        parts = [m]
    wire = impl_send(parts)
    if wire is None:
        return m, parts, b'', b'', [], None
    t = b'' if d['trailing'] == 'none' else b'QUIT\r\n'
    head = [wire[:d['off']]] if d['off'] else []
    rest = wire[d['off']:] + (t if d['trailing'] == 'same' else b'')
    chunks = head + [rest[i:i + 4096] for i in range(0, len(rest), 4096)]
    if d['trailing'] == 'later':
        chunks.append(t)
    buf = b''
    if d['preload'] and chunks:
        buf, chunks = chunks[0], chunks[1:]
    return m, parts, t, buf, chunks, wire


def wa_judge(ctx, d, with_model=None):
    r = wa_case(d)
    if r is None:
        ctx.count('wire-aligned:unsolved')
        return None
    m, parts, t, buf, chunks, wire = r
    if wire is None:
        return 'c05:sender-raises', 'DataSender raised'
    got = impl_recv(buf, list(chunks))
    blocked = LAST_RECV['sock'].blocked
    want = (0, expected(m), t, need_calls(buf, chunks, len(wire)))
    if with_model is not None:
        with_model.append((d, buf, chunks, got))
    if got == want:
        return None
    if got[0] == 1 or (got[0] == 0 and got[1:3] == want[1:3]):
        base = 'reads-past-end-of-data'
    elif got[0] != 0:
        base = 'reader-raises'
    elif got[1] != want[1]:
        base = 'content-altered'
    else:
        base = 'trailing-bytes-altered'
    return ('c05:' + base,
            'message of %d bytes (%s) whose wire is %d bytes = %d + %d*4096 %+d, read as %s%d recv() results of lengths %r%s, pipelined bytes %s: %s%s' % (
                len(m), d['kind'], len(wire), d['off'], d['k'], d['delta'], 'recv_buffer (%d bytes) + ' % len(buf) if buf else '', len(chunks),
                [len(c) for c in chunks[:4]], ' ...' if len(chunks) > 4 else '',
                {'none': 'none (the client waits for the reply)', 'later': 'QUIT arriving in a later recv()', 'same': 'QUIT right behind the message'}[d['trailing']],
                sb_diff(got, want),
                '; %d recv() call(s) were made when nothing more was going to arrive' % blocked if blocked else ''))


def run_wire_aligned(ctx):
    quick = ctx.quick
    ks = [1, 2, 3, 16] if quick else [1, 2, 3, 4, 16, 17, 50]
    model_jobs = []
    n = 0
    for k in ks:
        for kind in WA_KINDS:
            if kind == 'run' and k > (3 if quick else 16):
                continue                      # LF-free: 13 ms per full buffer in the code under test
            for delta in (0, -1, 1):
                for off in (0, 1000):
                    for trailing in ('none', 'later', 'same'):
                        for parts in ('one', 'two'):
                            for preload in (False, True):
                                if (parts == 'two' or preload) and (delta != 0 or off):
                                    continue          # controls stay simple
                                d = dict(stream='wire-aligned', k=k, delta=delta, off=off, kind=kind, trailing=trailing, parts=parts, preload=preload)
                                r = wa_judge(ctx, d, model_jobs if k <= 2 else None)
                                n += 1
                                ctx.evaluated(('wire-aligned', repr(sorted(d.items()))), nontrivial=True)
                                ctx.count('wire-aligned:k=%d' % k)
                                ctx.count('wire-aligned:trailing=' + trailing)
                                if r is not None:
                                    ctx.fail(r[0], d, r[1])
    for i in range(0, len(model_jobs), 1000):
        part = model_jobs[i:i + 1000]
        for (d, buf, chunks, got), o in zip(part, ctx.model.batch('c05_recv', [[None, x[1], x[2]] for x in part])):
            mo = model_recv_out(o, chunks)
            if got != mo:
                ctx.mismatch('recv-wire-aligned', d, sb_summary(got), sb_summary(mo))
    ctx.sample(dict(kind='wire-aligned', k=ks, kinds=WA_KINDS, cases=n), cap=14)
    ctx.note('wire-aligned stream: %d cases; messages solved for so that the wire (stuffed content + end marker) is off + k*4096 (+-1) bytes, k in %r, off in {0, 1000}, '
             'kinds %r, read in full 4096-byte recv() results (first buffer optionally pre-loaded), pipelined bytes none / in a later recv() / contiguous; a recv() issued when '
             'nothing more is going to arrive is flagged by the fake socket (a real connection blocks) - key c05:reads-past-end-of-data; model compared for k <= 2'
             % (n, ks, WA_KINDS))


def run_maxsize(ctx, count):
    """model<->code only (never judged): the MessageTooBig path of recv_piece"""
    rng = ctx.rng
    ins = []
    for _ in range(count):
        s = bytes(rng.choice(b'a.\r\n\n') for _ in range(rng.randrange(0, 16)))
        if rng.random() < 0.6:
            s += b'.\r\n' + rng.choice(TRAILERS)
        c = rng.randrange(0, len(s) + 1)
        chunks = segmentations(s[c:], rng, rng.choice(['whole', 'random', 'bytes']))
        ins.append((rng.choice([0, 1, 3, 5, 9, 20]), s[:c], chunks))
    outs = ctx.model.batch('c05_recv', [[[ms], buf, chunks] for ms, buf, chunks in ins])
    for (ms, buf, chunks), o in zip(ins, outs):
        io_out = impl_recv(buf, list(chunks), ms)
        mo = model_recv_out(o, chunks)
        ctx.evaluations += 1
        ctx.count('max_size-outcome:%d' % io_out[0])
        if io_out != mo:
            ctx.mismatch('recv-max_size', dict(max_size=ms, recv_buffer=buf, chunks=chunks), io_out, mo)


def run(ctx):
    ctx.extra['rule'] = (
        'exhaustive: every message over {".",CR,LF,"a"} to the stated length, sent by the real DataSender as one part and as every '
        '2-part split (3-part splits for short messages), each distinct wire string followed by each trailing string and read by the real '
        'DataReader (real IO on a scripted socket) whole / fully pre-loaded in recv_buffer / bytewise / with every single cut (cut part pre-loaded '
        'for even cuts) / one random segmentation; raw: every stream over {".",SP,CR,LF,"a",TAB} to length 5/6 read as is and compared with an '
        'independent reference reader; random: structured and binary messages to 4 kB with 8-bit bytes, 1-4 parts, random trailing bytes, '
        'whole/random/linewise/bytewise/pre-loaded segmentations. distinct_nontrivial counts distinct (message, parts, trailing, segmentation) '
        'cases whose message is empty, has no final CRLF, contains a bare CR or LF, needed dot stuffing, or is followed by trailing bytes '
        '(raw streams: those containing a complete line). size-boundary: messages filler(L-delta)+probe+tail around L in 1 KiB..128 KiB, '
        'see notes.')
    ctx.extra['trusted_base'] = ['reference reader / expected() / guard() in harness/props/c05.py (oracle side, independent of the model)']
    if ctx.quick:
        run_exhaustive(ctx, maxlen=6, cut_all_upto=5, three_upto=3)
        run_raw(ctx, 5)
        run_random(ctx, 300)
        run_reuse(ctx, 150)
        run_size_boundary(ctx)
        run_big_parts(ctx)
        run_wire_aligned(ctx)
        pass  # the size limit (MessageTooBig) is modelled and judged by C09 (reader after the D13 repair)
    else:
        run_exhaustive(ctx, maxlen=8, cut_all_upto=6, three_upto=5)
        run_raw(ctx, 6)
        run_random(ctx, 6000)
        run_reuse(ctx, 3000)
        run_size_boundary(ctx)
        run_big_parts(ctx)
        run_wire_aligned(ctx)
        pass  # see C09
    ctx.note('max_size is None in every judged case; the MessageTooBig path is compared model<->code only (property C09 judges it)')
    ctx.note('a sender part that starts with "." in the middle of a line gets that dot doubled by DataSender._process_part '
             '(e.g. parts (b"a", b".b") arrive as b"a..b\\r\\n"); such splits are outside the property (splits at line boundaries) and are only compared model<->code')


def print_emissions(parts, order):
    m = b''.join(parts)
    ref = ref_wire(m)
    print('parts               : lengths %r, first bytes %r' % ([len(x) for x in parts], [x[:24] for x in parts]))
    print('reference wire      : %d bytes starting %r' % (len(ref), ref[:48]))
    for i, w in enumerate(emit(parts, tuple(order))):
        if not isinstance(w, bytes):
            print('emission %d (%-4s)    : raised %s' % (i + 1, order[i], w[1]))
            continue
        back = impl_recv(b'', cap([w + b'QUIT\r\n'])) if len(w) <= 300000 or b'\n' in w[:4096] else ('not read back',)
        print('emission %d (%-4s)    : %d bytes starting %r - %s; read back: %s' % (
            i + 1, order[i], len(w), w[:48], 'equals the reference' if w == ref else 'DIFFERS from the reference',
            'the message, QUIT left unread' if back[:3] == (0, expected(m), b'QUIT\r\n') else (sb_summary(back) if back[0] in (0, 1, 2, 3) else back[0])))


def replay_big_part(ctx, c):
    d = dict(stream='big-part', N=c['N'], shape=c['shape'], filler=c['filler'], layout=c['layout'], order=list(c['order']), path=c['path'])
    parts, outs = big_emit(d)
    print('case                : %r' % d)
    r = big_judge(ctx, d, parts, outs, dict(slow_readbacks=0))
    if d['path'] == 'Client.send_data':
        print('parts               : lengths %r' % [len(x) for x in parts])
        print('Client.send_data    : %s' % ('%d bytes starting %r' % (len(outs[0]), outs[0][:48]) if isinstance(outs[0], bytes) else outs[0][1]))
    else:
        print_emissions(parts, d['order'])
    print('verdict             : %s' % ('round trip holds' if r is None else '%s - %s' % r))
    return 0


def replay_size_boundary(ctx, c, unhex):
    """rebuilds the message, the parts and the segmentation from the description"""
    if 'seg' not in c:
        m, k = sb_message(dict(L=c['L'], delta=c['delta'], probe=c['probe'], filler=c['filler']))
        print_emissions(sb_parts(m, k, c.get('split')), c.get('emission_order', ['send', 'send']))
        return 0
    d = dict(L=c['L'], delta=c['delta'], probe=c['probe'], filler=c['filler'])
    m, k = sb_message(d)
    t = unhex(c.get('trailing', b'')) or b''
    parts = sb_parts(m, k, c.get('split'))
    wire = impl_send(parts)
    p = len(STUFF_RE.sub(b'..', m[:k]))
    buf, chunks = sb_chunks(wire + t, p, c['seg'])
    print('message             : filler(%s, %d bytes) + %r + %r  (%d bytes; the probe dot is message byte %d)' % (
        d['filler'], d['L'] - d['delta'], SB_PROBES[d['probe']], m[k + len(SB_PROBES[d['probe']]) - SB_PROBES[d['probe']].index(b'.'):], len(m), k))
    print('sender parts        : %s' % ('one part' if c.get('split') is None else 'lengths %r' % [len(x) for x in parts]))
    ref = STUFF_RE.sub(b'..', m) + (b'.\r\n' if (m == b'' or m.endswith(b'\r\n')) else b'\r\n.\r\n')
    print('DataSender wrote    : %d bytes, %s; around the probe: %r' % (
        len(wire), 'as the reference stuffing' if wire == ref else 'DIFFERENT from the reference stuffing (%d bytes)' % len(ref), wire[max(0, p - 6):p + 10]))
    print('trailing bytes      : %r' % t)
    print('segmentation        : %r -> recv_buffer %d bytes, %d socket pieces of lengths %r%s' % (
        c['seg'], len(buf), len(chunks), [len(x) for x in chunks[:12]], ' ...' if len(chunks) > 12 else ''))
    want = (0, expected(m), t, need_calls(buf, chunks, len(wire)))
    got = impl_recv(buf, list(chunks))
    print('expected            : recv() == the message%s (%d bytes), unread == %r, socket reads == %d' % (
        '' if expected(m) == m else ' + CRLF', len(want[1]), t, want[3]))
    print('implementation      : %s' % ('as expected' if got == want else sb_diff(got, want)))
    if ctx.model and d['L'] <= SB_MODEL_MAX_L:
        mo = model_recv_out(ctx.model.call('c05_recv', [None, buf, chunks]), chunks)
        print('model               : %s' % ('as expected' if mo == want else sb_diff(mo, want)))
    return 0


def replay(ctx, case):
    c = case.get('case', case)

    def unhex(x):
        return bytes.fromhex(x['hex']) if isinstance(x, dict) else x
    if c.get('stream') == 'size-boundary':
        return replay_size_boundary(ctx, c, unhex)
    if c.get('stream') == 'big-part':
        return replay_big_part(ctx, c)
    if c.get('stream') == 'wire-aligned':
        d = dict((k, c[k]) for k in ('stream', 'k', 'delta', 'off', 'kind', 'trailing', 'parts', 'preload'))
        print('case                : %r' % d)
        r = wa_case(d)
        m, parts, t, buf, chunks, wire = r
        print('message             : %d bytes %r ... %r, parts of lengths %r' % (len(m), m[:30], m[-12:], [len(x) for x in parts]))
        print('wire                : %d bytes (%d + %d*4096 %+d), ends %r' % (len(wire), d['off'], d['k'], d['delta'], wire[-8:]))
        print('io.recv_buffer      : %d bytes; socket.recv() results of lengths %r' % (len(buf), [len(x) for x in chunks]))
        v = wa_judge(ctx, d)
        print('verdict             : %s' % ('as expected: recv() == the message%s, %r left unread, %d socket reads' % (
            '' if expected(m) == m else ' + CRLF', t, need_calls(buf, chunks, len(wire))) if v is None else '%s - %s' % v))
        if ctx.model and d['k'] <= 2:
            print('model               : %r' % (sb_summary(model_recv_out(ctx.model.call('c05_recv', [None, buf, chunks]), chunks)),))
        return 0
    if 'emission_order' in c and 'chunks' not in c:
        print_emissions([unhex(x) for x in c['parts']], c['emission_order'])
        return 0
    buf = unhex(c.get('recv_buffer', b'')) or b''
    chunks = [unhex(x) for x in c.get('chunks', [])]
    if 'parts' in c:
        parts = [unhex(p) for p in c['parts']]
        m = b''.join(parts)
        t = unhex(c.get('trailing', b'')) or b''
        wire = impl_send(parts)
        print('DataSender(%s) wrote %r' % (', '.join(repr(p) for p in parts), wire))
        print('trailing bytes      : %r' % t)
        print('expected            : recv() == %r, unread == %r, socket reads == %d' % (expected(m), t, need_calls(buf, chunks, len(wire))))
    else:
        s = unhex(c['stream'])
        print('raw stream          : %r' % s)
        print('reference reader    : %r' % (ref_read(s),))
    print('io.recv_buffer      : %r' % buf)
    print('socket.recv() pieces: %r' % chunks)
    out = impl_recv(buf, list(chunks))
    print('implementation      : (status, data, unread bytes, socket reads) = %r' % (out,))
    if ctx.model:
        print('model (D1 repaired) : %r' % (model_recv_out(ctx.model.call('c05_recv', [None, buf, chunks]), chunks),))
    return 0
