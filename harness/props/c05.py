"""C05 - message content crosses DATA framing unchanged under any segmentation.

Correspondence of model/Data.v (c05_send, c05_recv) with the real
slimta.smtp.datasender.DataSender and slimta.smtp.datareader.DataReader (driven
through a real slimta.smtp.io.IO on a scripted socket), and the property oracle
evaluated on what the implementation did:
  * DataReader.recv() returns the message (plus CRLF when it is non-empty and
    does not end with CRLF),
  * io.recv_buffer + the bytes still unread in the socket are exactly the
    trailing bytes,
  * the reader took exactly as many pieces from the socket as were needed to
    complete the end-of-data line,
  * the same for every segmentation / pre-loaded recv_buffer.
"""
import itertools
from vp.core import B
from vp.fakes import ScriptSocket, segmentations

from slimta.smtp.io import IO
from slimta.smtp.datasender import DataSender
from slimta.smtp.datareader import DataReader
from slimta.smtp import ConnectionLost, MessageTooBig

ASSUMPTIONS = [
    'max_size=None in every judged case (the size limit / MessageTooBig path belongs to C09; it is only compared model<->code on a small stream, never judged)',
    'sender parts: the round trip is judged for every split in which each part that starts with "." starts at a line boundary of the message '
    '(covers one part, every split at line boundaries, every split of which no later part starts with "."); other splits are compared model<->code only',
    'expected result for the empty message is the empty byte string (the sender writes just ".\\r\\n"), for every other message m: m if it ends with CRLF else m + CRLF',
    'fake socket: recv() returns the scripted chunks (each 1..4096 bytes), then b"" (end of file => ConnectionLost)',
]

ALPHA = b'.\r\na'
TRAILERS = [b'', b'QUIT\r\n', b'.\r\n', b'.x\r\n']
EOD_WS = b' \t\r\x0b\x0c'
BATCH = 20000


# ------------------------------------------------------------ implementation
def impl_send(parts):
    io = IO(ScriptSocket(), ('h', 25))
    DataSender(*parts).send(io)
    return io.send_buffer.getvalue()


def impl_recv(buf, chunks, max_size=None):
    """-> (0, data, unread bytes, recv calls) | (1,) ConnectionLost | (2, unread bytes) MessageTooBig"""
    sock = ScriptSocket(chunks)
    io = IO(sock, ('h', 25))
    io.recv_buffer = buf
    try:
        data = DataReader(io, max_size).recv()
    except ConnectionLost:
        return (1,)
    except MessageTooBig:
        return (2, io.recv_buffer + sock.unread())
    return (0, data, io.recv_buffer + sock.unread(), sock.recv_calls)


def model_recv_out(o, chunks):
    tag = o[0]
    if tag == 0:
        k = o[3]
        rest = b''.join(chunks[len(chunks) - k:]) if k else b''
        return (0, B(o[1]), B(o[2]) + rest, len(chunks) - k)
    if tag == 2:
        k = o[1]
        return (2, b''.join(chunks[len(chunks) - k:]) if k else b'')
    return (tag,)


# ------------------------------------------------------------ independent reference (oracle side)
def expected(m):
    return m if (m == b'' or m.endswith(b'\r\n')) else m + b'\r\n'


def guard(parts):
    """every part that starts with a dot starts at a line boundary of the message"""
    pre = b''
    for p in parts:
        if p[:1] == b'.' and not (pre == b'' or pre.endswith(b'\n')):
            return False
        pre += p
    return True


def line_split(parts):
    return all(p == b'' or p.endswith(b'\n') for p in parts[:-1])


def ref_read(stream):
    """batch reading of a raw stream: None = no complete end-of-data line"""
    pos = 0
    out = []
    while True:
        nl = stream.find(b'\n', pos)
        if nl < 0:
            return None
        line = stream[pos:nl + 1]
        if line[:1] == b'.' and line[1:-1].strip(EOD_WS) == b'':
            return (b''.join(out), stream[nl + 1:])
        out.append(line[1:] if line[:1] == b'.' else line)
        pos = nl + 1


def need_calls(buf, chunks, wire_len):
    have = len(buf)
    k = 0
    while have < wire_len and k < len(chunks):
        have += len(chunks[k])
        k += 1
    return k


def cap(chunks):
    """what socket.recv(4096) returns: no piece longer than 4096 bytes"""
    out = []
    for c in chunks:
        for i in range(0, len(c), 4096):
            out.append(c[i:i + 4096])
    return out


# ------------------------------------------------------------ running jobs
class Jobs(object):
    """(kind, case, buf, chunks, want) tuples evaluated in batches: model (one driver
    process per batch) and implementation on the same input; comparison; oracle."""

    def __init__(self, ctx):
        self.ctx = ctx
        self.jobs = []

    def add(self, kind, case, buf, chunks, want, key_nt):
        self.jobs.append((kind, case, buf, chunks, want, key_nt))
        if len(self.jobs) >= BATCH:
            self.flush()

    def flush(self):
        ctx = self.ctx
        jobs, self.jobs = self.jobs, []
        if not jobs:
            return
        outs = ctx.model.batch('c05_recv', [[None, j[2], j[3]] for j in jobs])
        for (kind, case, buf, chunks, want, key_nt), o in zip(jobs, outs):
            io_out = impl_recv(buf, list(chunks))
            mo = model_recv_out(o, chunks)
            ctx.evaluated(key_nt[0], nontrivial=key_nt[1])
            if io_out != mo:
                ctx.mismatch('recv', full_case(case, buf, chunks), io_out, mo)
            if want is None:
                continue
            if io_out != want:
                ctx.fail(classify(kind, case, io_out, want), full_case(case, buf, chunks),
                         'DataReader.recv() -> (status, data, unread bytes, socket reads) = %r, expected %r' % (io_out, want))


def full_case(case, buf, chunks):
    c = dict(case)
    c['recv_buffer'] = buf
    c['chunks'] = list(chunks)
    return c


def classify(kind, case, got, want):
    if kind == 'raw':
        first = case['stream'].split(b'\n')[0] + b'\n' if b'\n' in case['stream'] else b''
        if first[:1] == b'.' and first[1:-1].strip(EOD_WS) == b'':
            return 'c05:empty-message-followed-by-bytes'
        if want == (1,) or got == (1,):
            return 'c05:raw-stream-end-of-data-detection'
        return 'c05:raw-stream'
    if case['message'] == b'' and case['trailing'] != b'':
        return 'c05:empty-message-followed-by-bytes'
    if got[0] != 0:
        return 'c05:reader-raises'
    if got[1] != want[1]:
        return 'c05:content-altered'
    if got[2] != want[2]:
        return 'c05:trailing-bytes-altered'
    return 'c05:reads-past-end-of-data'


def nontrivial_msg(m, wire, t):
    body = m[:-2] if m.endswith(b'\r\n') else m
    return (m == b'' or not m.endswith(b'\r\n') or t != b'' or len(wire) != len(m) + 3
            or b'\r' in body.replace(b'\r\n', b'') or b'\n' in body.replace(b'\r\n', b''))


def seg_jobs(data, rng, cuts):
    """(mode, recv_buffer, chunks) ways of presenting `data` to the reader"""
    n = len(data)
    yield ('whole', b'', [data] if data else [])
    yield ('preloaded', data, [])
    if n > 1:
        yield ('bytes', b'', [data[i:i + 1] for i in range(n)])
    if cuts == 'all':
        for c in range(1, n):
            if c % 2:
                yield ('cut%d' % c, b'', [data[:c], data[c:]])
            else:
                yield ('cut%d+buf' % c, data[:c], [data[c:]])
    elif n > 1:
        for _ in range(cuts):
            c = rng.randrange(1, n)
            if rng.random() < 0.5:
                yield ('cut%d' % c, b'', [data[:c], data[c:]])
            else:
                yield ('cut%d+buf' % c, data[:c], [data[c:]])
    if n > 2:
        pre = rng.choice([0, 0, rng.randrange(0, n)])
        yield ('random', data[:pre], segmentations(data[pre:], rng, 'random'))


def seg_label(mode):
    if mode.startswith('cut'):
        return 'single-cut+preloaded' if mode.endswith('+buf') else 'single-cut'
    return mode


# ------------------------------------------------------------ streams
def splits_of(m, three):
    n = len(m)
    out = [[m]]
    for k in range(0, n + 1):
        out.append([m[:k], m[k:]])
    if three:
        for i in range(0, n + 1):
            for j in range(i, n + 1):
                out.append([m[:i], m[i:j], m[j:]])
    return out


def run_exhaustive(ctx, maxlen, cut_all_upto, three_upto):
    rng = ctx.rng
    jobs = Jobs(ctx)
    n_msgs = 0
    for L in range(0, maxlen + 1):
        msgs = [bytes(tup) for tup in itertools.product(ALPHA, repeat=L)]
        n_msgs += len(msgs)
        # ---- sender: every split, model and code
        all_splits = []
        for m in msgs:
            for parts in splits_of(m, L <= three_upto):
                all_splits.append((m, parts))
        m_wires = []
        for i in range(0, len(all_splits), BATCH):
            m_wires.extend(ctx.model.batch('c05_send', [p for (_, p) in all_splits[i:i + BATCH]]))
        per_msg = {}
        for (m, parts), mw in zip(all_splits, m_wires):
            wire = impl_send(parts)
            ctx.evaluations += 1
            if wire != B(mw):
                ctx.mismatch('send', dict(message=m, parts=parts), wire, B(mw))
            ok = guard(parts)
            ctx.count('split:' + ('one-part' if len(parts) == 1 else 'line-boundary' if line_split(parts) else
                                  'other-admissible' if ok else 'dot-part-midline(not judged)'))
            d = per_msg.setdefault(m, {})
            d.setdefault((wire, ok), parts)
        # ---- reader: every distinct wire of the message x trailing x segmentations
        for mi, m in enumerate(msgs):
            # beyond length 7 each message gets two of the four trailing strings (alternating)
            trailers = TRAILERS if L <= 7 else TRAILERS[mi % 2::2]
            for (wire, ok), parts in per_msg[m].items():
                for t in (trailers if ok else [b'Q']):
                    data = wire + t
                    nt = nontrivial_msg(m, wire, t)
                    for mode, buf, chunks in seg_jobs(data, rng, ('all' if L <= cut_all_upto else 2 if L <= 6 else 1) if ok else 0):
                        case = dict(stream='exhaustive', message=m, parts=parts, trailing=t, mode=mode)
                        want = (0, expected(m), t, need_calls(buf, chunks, len(wire))) if ok else None
                        jobs.add('msg', case, buf, chunks, want, ((m, tuple(parts), t, mode, buf, len(chunks)), nt))
                        ctx.count('seg:' + seg_label(mode))
            ctx.count('msg:' + ('empty' if m == b'' else 'ends-crlf' if m.endswith(b'\r\n') else 'ends-bare-lf' if m.endswith(b'\n')
                                else 'ends-cr' if m.endswith(b'\r') else 'no-final-newline'))
    jobs.flush()
    ctx.sample(dict(kind='exhaustive', alphabet=ALPHA.decode('latin1'), maxlen=maxlen, messages=n_msgs,
                    splits='one part, every 2-part split (every 3-part split to length %d)' % three_upto,
                    trailing=TRAILERS, segmentations='whole, all pre-loaded, bytewise, every single cut (to length %d, 1-2 random cuts beyond), random' % cut_all_upto))
    ctx.extra['exhaustive'] = True
    ctx.extra['exhaustive_bound'] = ('every message over {".",CR,LF,"a"} up to length %d (%d messages) x one part / every 2-part split '
                                     '(every 3-part split up to length %d) x trailing in %r x {whole, pre-loaded, bytewise, every single cut '
                                     '(messages up to length %d; one or two random cuts for longer ones), one random segmentation}%s'
                                     % (maxlen, n_msgs, three_upto, TRAILERS, cut_all_upto,
                                        '; messages of length 8 with two of the four trailing strings each (alternating)' if maxlen > 7 else ''))


RAW_ALPHA = b'. \r\na\t'


def run_raw(ctx, maxlen):
    """reader alone on arbitrary (not sender-made) streams, against the reference reader"""
    rng = ctx.rng
    jobs = Jobs(ctx)
    n = 0
    for L in range(0, maxlen + 1):
        for tup in itertools.product(RAW_ALPHA, repeat=L):
            s = bytes(tup)
            n += 1
            # as is, and followed by a line that certainly ends the data plus a pipelined byte
            for s in (s, s + b'\n.\r\nQ'):
                ref = ref_read(s)
                ctx.count('raw:' + ('no-end-of-data' if ref is None else 'end-of-data'))
                for mode, buf, chunks in seg_jobs(s, rng, 1):
                    want = (1,) if ref is None else (0, ref[0], ref[1], need_calls(buf, chunks, len(s) - len(ref[1])))
                    jobs.add('raw', dict(stream=s, kind='raw', mode=mode), buf, chunks, want, (('raw', s, mode, buf, len(chunks)), b'\n' in s))
    for s in [b'.\x0b\n', b'.\x0c\r\n', b'. \t\r\x0b\x0c\nrest', b'.\x1c\nx\r\n.\r\n', b'.\x85\n.\n', b'.\xa0\n.\nQ', b'a\n.\n.\n', b'\xff\n..\xfe\n.\r\r\nZ']:
        ref = ref_read(s)
        for mode, buf, chunks in seg_jobs(s, rng, 'all'):
            want = (1,) if ref is None else (0, ref[0], ref[1], need_calls(buf, chunks, len(s) - len(ref[1])))
            jobs.add('raw', dict(stream=s, kind='raw', mode=mode), buf, chunks, want, (('raw', s, mode, buf, len(chunks)), True))
    jobs.flush()
    ctx.sample(dict(kind='raw-streams', alphabet=RAW_ALPHA.decode('latin1'), maxlen=maxlen, streams=n))


LINE_PIECES = [b'', b'.', b'..', b'...', b'.hidden', b'. ', b'.\t', b'Subject: test', b'a', b'\r', b'x\ry', b' .', b'\xff\xfe\x00\x80', b'From: \xe9',
               b'.\r', b'\r.', b'end.']
ENDINGS = [b'\r\n'] * 6 + [b'\n', b'\n', b'\r', b'\r\r\n', b'\n\r']


def gen_message(rng):
    kind = rng.choice(['lines', 'lines', 'lines', 'binary', 'dotty', 'long'])
    if kind == 'binary':
        return bytes(rng.randrange(256) for _ in range(rng.randrange(0, rng.choice([20, 300, 4096]))))
    if kind == 'dotty':
        return bytes(rng.choice(b'..\r\n\na \t') for _ in range(rng.randrange(0, 200)))
    out = []
    for _ in range(rng.randrange(0, rng.choice([3, 10, 60]))):
        if kind == 'long' and rng.random() < 0.2:
            line = bytes(rng.randrange(256) for _ in range(rng.randrange(900, 2500))).replace(b'\n', b'-')
        elif rng.random() < 0.6:
            line = rng.choice(LINE_PIECES)
        else:
            line = bytes(rng.randrange(256) for _ in range(rng.randrange(0, 40))).replace(b'\n', b'.')
        out.append(line + rng.choice(ENDINGS))
    m = b''.join(out)
    if rng.random() < 0.4:
        m += rng.choice(LINE_PIECES)        # no final newline
    return m[:4096]


def gen_split(rng, m):
    r = rng.random()
    if r < 0.25 or not m:
        parts = [m]
    else:
        bounds = [i + 1 for i in range(len(m)) if m[i:i + 1] == b'\n']
        if r < 0.8 and bounds:
            cuts = sorted(set(rng.choice(bounds) for _ in range(rng.randrange(1, 4))))
        else:
            cuts = sorted(set(rng.randrange(0, len(m) + 1) for _ in range(rng.randrange(1, 4))))
        parts = []
        p = 0
        for c in cuts + [len(m)]:
            parts.append(m[p:c])
            p = c
    if rng.random() < 0.2:
        parts.insert(rng.randrange(0, len(parts) + 1), b'')
    return parts


def run_random(ctx, count):
    rng = ctx.rng
    jobs = Jobs(ctx)
    cases = []
    for _ in range(count):
        m = gen_message(rng)
        cases.append((m, gen_split(rng, m)))
    m_wires = ctx.model.batch('c05_send', [p for (_, p) in cases])
    for (m, parts), mw in zip(cases, m_wires):
        wire = impl_send(parts)
        ctx.evaluations += 1
        if wire != B(mw):
            ctx.mismatch('send', dict(message=m, parts=parts), wire, B(mw))
        ok = guard(parts)
        ctx.count('random-split:' + ('one-part' if len(parts) == 1 else 'line-boundary' if line_split(parts) else
                                     'other-admissible' if ok else 'dot-part-midline(not judged)'))
        ctx.count('random-len:' + ('0' if not m else '<64' if len(m) < 64 else '<1024' if len(m) < 1024 else '<=4096'))
        if any(b > 127 for b in m):
            ctx.count('random-8bit')
        t = rng.choice(TRAILERS + [b'MAIL FROM:<a@b>\r\n', b'.', b'\n', bytes(rng.randrange(256) for _ in range(rng.randrange(1, 30)))])
        data = wire + t
        modes = ['whole', 'random', 'random', 'lines', 'pre']
        if len(data) <= 400:
            modes.append('bytes')
        for mode in modes:
            if mode == 'pre':
                c = rng.randrange(0, len(data) + 1)
                buf, chunks = data[:c], cap(segmentations(data[c:], rng, 'random'))
            else:
                buf, chunks = b'', cap(segmentations(data, rng, mode))
            case = dict(stream='random', message=m, parts=parts, trailing=t, mode=mode)
            want = (0, expected(m), t, need_calls(buf, chunks, len(wire))) if ok else None
            jobs.add('msg', case, buf, chunks, want, ((m, tuple(parts), t, mode, buf, len(chunks)), nontrivial_msg(m, wire, t)))
            ctx.count('random-seg:' + mode)
    jobs.flush()
    m, parts = cases[0]
    ctx.sample(dict(kind='random', message=m[:80], parts=[p[:40] for p in parts]), cap=8)


def run_maxsize(ctx, count):
    """model<->code only (never judged): the MessageTooBig path of recv_piece"""
    rng = ctx.rng
    ins = []
    for _ in range(count):
        s = bytes(rng.choice(b'a.\r\n\n') for _ in range(rng.randrange(0, 16)))
        if rng.random() < 0.6:
            s += b'.\r\n' + rng.choice(TRAILERS)
        c = rng.randrange(0, len(s) + 1)
        chunks = segmentations(s[c:], rng, rng.choice(['whole', 'random', 'bytes']))
        ins.append((rng.choice([0, 1, 3, 5, 9, 20]), s[:c], chunks))
    outs = ctx.model.batch('c05_recv', [[[ms], buf, chunks] for ms, buf, chunks in ins])
    for (ms, buf, chunks), o in zip(ins, outs):
        io_out = impl_recv(buf, list(chunks), ms)
        mo = model_recv_out(o, chunks)
        ctx.evaluations += 1
        ctx.count('max_size-outcome:%d' % io_out[0])
        if io_out != mo:
            ctx.mismatch('recv-max_size', dict(max_size=ms, recv_buffer=buf, chunks=chunks), io_out, mo)


def run(ctx):
    ctx.extra['rule'] = (
        'exhaustive: every message over {".",CR,LF,"a"} to the stated length, sent by the real DataSender as one part and as every '
        '2-part split (3-part splits for short messages), each distinct wire string followed by each trailing string and read by the real '
        'DataReader (real IO on a scripted socket) whole / fully pre-loaded in recv_buffer / bytewise / with every single cut (cut part pre-loaded '
        'for even cuts) / one random segmentation; raw: every stream over {".",SP,CR,LF,"a",TAB} to length 5/6 read as is and compared with an '
        'independent reference reader; random: structured and binary messages to 4 kB with 8-bit bytes, 1-4 parts, random trailing bytes, '
        'whole/random/linewise/bytewise/pre-loaded segmentations. distinct_nontrivial counts distinct (message, parts, trailing, segmentation) '
        'cases whose message is empty, has no final CRLF, contains a bare CR or LF, needed dot stuffing, or is followed by trailing bytes '
        '(raw streams: those containing a complete line).')
    ctx.extra['trusted_base'] = ['reference reader / expected() / guard() in harness/props/c05.py (oracle side, independent of the model)']
    if ctx.quick:
        run_exhaustive(ctx, maxlen=6, cut_all_upto=5, three_upto=3)
        run_raw(ctx, 5)
        run_random(ctx, 300)
        pass  # the size limit (MessageTooBig) is modelled and judged by C09 (reader after the D13 repair)
    else:
        run_exhaustive(ctx, maxlen=8, cut_all_upto=6, three_upto=5)
        run_raw(ctx, 6)
        run_random(ctx, 6000)
        pass  # see C09
    ctx.note('max_size is None in every judged case; the MessageTooBig path is compared model<->code only (property C09 judges it)')
    ctx.note('a sender part that starts with "." in the middle of a line gets that dot doubled by DataSender._process_part '
             '(e.g. parts (b"a", b".b") arrive as b"a..b\\r\\n"); such splits are outside the property (splits at line boundaries) and are only compared model<->code')


def replay(ctx, case):
    c = case.get('case', case)

    def unhex(x):
        return bytes.fromhex(x['hex']) if isinstance(x, dict) else x
    buf = unhex(c.get('recv_buffer', b'')) or b''
    chunks = [unhex(x) for x in c.get('chunks', [])]
    if 'parts' in c:
        parts = [unhex(p) for p in c['parts']]
        m = b''.join(parts)
        t = unhex(c.get('trailing', b'')) or b''
        wire = impl_send(parts)
        print('DataSender(%s) wrote %r' % (', '.join(repr(p) for p in parts), wire))
        print('trailing bytes      : %r' % t)
        print('expected            : recv() == %r, unread == %r, socket reads == %d' % (expected(m), t, need_calls(buf, chunks, len(wire))))
    else:
        s = unhex(c['stream'])
        print('raw stream          : %r' % s)
        print('reference reader    : %r' % (ref_read(s),))
    print('io.recv_buffer      : %r' % buf)
    print('socket.recv() pieces: %r' % chunks)
    out = impl_recv(buf, list(chunks))
    print('implementation      : (status, data, unread bytes, socket reads) = %r' % (out,))
    if ctx.model:
        print('model (D1 repaired) : %r' % (model_recv_out(ctx.model.call('c05_recv', [None, buf, chunks]), chunks),))
    return 0
